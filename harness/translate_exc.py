"""Translator (T-tie for "only documented exceptions escape"):

    /repo/src/nfc/**.py  ->  lean/NfcVerif/Gen/ClassTree.lean   (exception class hierarchy)
                             lean/NfcVerif/Gen/ExcFlow.lean     (statement-language programs)

Only `ast` is used: nothing of the repository is imported or executed.

What is translated (see docs/exc_flow.md for the full description)

* every `class` statement of src/nfc whose bases lead to a builtin exception becomes an entry
  `(class, direct bases)` of the class tree; the builtin part of the tree and three foreign
  classes (`ndef.DecodeError`, `ndef.EncodeError`, `struct.error`) are a fixed table;
* every function of `FUNCS` (configuration at the end of this file) becomes a term of `NfcVerif.ExcFlow.Stmt`:
  `try/except/else/finally`, `raise`, bare `raise`, `raise e` (e bound by the handler), `assert`,
  `if`, `while/for/else`, `break/continue/return`, `with` (body; allow-listed context managers),
  conditional expressions and short-circuit operators (branch), comprehensions (loop); a function can be
  translated a second time with an `if` decided (`when`: specialised copy);
* a call (or attribute / subscript operation named in the tables) becomes
    - `call <fn site>`    when the callee is another translated function (linked),
    - `call <prim site>`  when the tables give the classes it may raise,
    - nothing             when it is on the allow-list of operations assumed not to raise,
    - `call <unknown site>` otherwise: an unknown site may raise anything;
* anything else becomes `other "<source>"`, which may do anything.
"""
import ast
import os
import sys

sys.path.insert(0, os.path.dirname(os.path.abspath(__file__)))

# ------------------------------------------------------------------------------------------------
# class tree
# ------------------------------------------------------------------------------------------------

# builtin part of the hierarchy (Python 3 documentation, "Exception hierarchy"), class -> bases
BUILTINS = {
    "BaseException": [],
    "Exception": ["BaseException"],
    "SystemExit": ["BaseException"],
    "KeyboardInterrupt": ["BaseException"],
    "GeneratorExit": ["BaseException"],
    "StopIteration": ["Exception"],
    "ArithmeticError": ["Exception"],
    "ZeroDivisionError": ["ArithmeticError"],
    "OverflowError": ["ArithmeticError"],
    "AssertionError": ["Exception"],
    "AttributeError": ["Exception"],
    "ImportError": ["Exception"],
    "LookupError": ["Exception"],
    "IndexError": ["LookupError"],
    "KeyError": ["LookupError"],
    "NameError": ["Exception"],
    "UnboundLocalError": ["NameError"],
    "OSError": ["Exception"],
    "TimeoutError": ["OSError"],           # builtin TimeoutError == socket.timeout (3.10+)
    "RuntimeError": ["Exception"],
    "NotImplementedError": ["RuntimeError"],
    "RecursionError": ["RuntimeError"],
    "TypeError": ["Exception"],
    "ValueError": ["Exception"],
    "UnicodeError": ["ValueError"],
    "UnicodeDecodeError": ["UnicodeError"],
    "UnicodeEncodeError": ["UnicodeError"],
    # foreign classes that handlers of nfcpy name
    "struct.error": ["Exception"],
    "ndef.DecodeError": ["Exception"],
    "ndef.EncodeError": ["Exception"],
    # pyserial and libusb1 (the layer below nfc/clf/transport.py; `import usb1 as libusb`): the classes the handlers of
    # transport.py name and their bases (pyserial 3.5 serialutil.py, libusb1 3.x usb1/__init__.py)
    "serial.SerialException": ["OSError"],
    "serial.SerialTimeoutException": ["serial.SerialException"],
    "usb1.USBError": ["Exception"],
    "usb1.USBErrorIO": ["usb1.USBError"],
    "usb1.USBErrorAccess": ["usb1.USBError"],
    "usb1.USBErrorBusy": ["usb1.USBError"],
    "usb1.USBErrorNoDevice": ["usb1.USBError"],
    "usb1.USBErrorTimeout": ["usb1.USBError"],
    # every other libusb error code (INVALID_PARAM, NOT_FOUND, OVERFLOW, PIPE, INTERRUPTED, NO_MEM, NOT_SUPPORTED, OTHER):
    # no handler names them, one representative
    "usb1.USBErrorOther": ["usb1.USBError"],
}
# other spellings of builtin classes
ALIASES = {"IOError": "OSError", "EnvironmentError": "OSError", "socket.error": "OSError",
           "socket.timeout": "TimeoutError", "select.error": "OSError"}


class Module:
    def __init__(self, name, path, is_pkg):
        self.name, self.path, self.is_pkg = name, path, is_pkg
        self.src = open(path).read()
        self.tree = ast.parse(self.src)
        self.imports = {}     # local name -> dotted target ("nfc.clf", "nfc.tag.TagCommandError", "struct")
        self.classes = {}     # qualname -> ClassDef
        self.functions = {}   # qualname -> FunctionDef
        self.parents = {}
        pkg = name if is_pkg else name.rpartition(".")[0]
        for n in ast.walk(self.tree):
            if isinstance(n, ast.Import):
                for a in n.names:
                    if a.asname:
                        self.imports[a.asname] = a.name
                    else:
                        top = a.name.split(".")[0]
                        self.imports[top] = top
            elif isinstance(n, ast.ImportFrom):
                base = n.module or ""
                if n.level:
                    parts = pkg.split(".")
                    parts = parts[:len(parts) - (n.level - 1)]
                    base = ".".join(parts + ([n.module] if n.module else []))
                for a in n.names:
                    self.imports[a.asname or a.name] = base + "." + a.name
        self._scan(self.tree.body, "")

    def _scan(self, body, prefix):
        for n in body:
            if isinstance(n, ast.ClassDef):
                self.classes[prefix + n.name] = n
                self._scan(n.body, prefix + n.name + ".")
            elif isinstance(n, (ast.FunctionDef, ast.AsyncFunctionDef)):
                q = prefix + n.name
                for d in n.decorator_list:      # @x.setter / @x.deleter
                    if isinstance(d, ast.Attribute) and d.attr in ("setter", "deleter", "getter"):
                        q = q + "." + d.attr
                if q in self.functions:
                    q = "%s@%d" % (q, n.lineno)
                self.functions[q] = n
                self._scan(n.body, prefix + n.name + ".<locals>.")
            elif isinstance(n, (ast.If, ast.Try, ast.With, ast.For, ast.While)):
                for fld in ("body", "orelse", "finalbody"):
                    self._scan(getattr(n, fld, []) or [], prefix)
                for h in getattr(n, "handlers", []):
                    self._scan(h.body, prefix)


class Repo:
    def __init__(self, root):
        self.root = root
        self.modules = {}
        base = os.path.join(root, "src", "nfc")
        for d, _, files in sorted(os.walk(base)):
            for fn in sorted(files):
                if not fn.endswith(".py"):
                    continue
                rel = os.path.relpath(os.path.join(d, fn), os.path.join(root, "src"))
                parts = rel[:-3].split(os.sep)
                is_pkg = parts[-1] == "__init__"
                if is_pkg:
                    parts = parts[:-1]
                name = ".".join(parts)
                try:
                    self.modules[name] = Module(name, os.path.join(d, fn), is_pkg)
                except SyntaxError:
                    pass
        self.tree = None

    # ---- name resolution -------------------------------------------------------------------
    def dotted(self, node):
        parts = []
        while isinstance(node, ast.Attribute):
            parts.append(node.attr)
            node = node.value
        if isinstance(node, ast.Name):
            parts.append(node.id)
            return list(reversed(parts))
        return None

    def resolve_class(self, mod, node, cls_ctx=None, depth=0):
        """canonical name of the class an expression denotes, or None"""
        parts = self.dotted(node)
        if parts is None:
            return None
        return self.resolve_parts(mod, parts, cls_ctx, depth)

    def resolve_parts(self, mod, parts, cls_ctx=None, depth=0):
        if depth > 8:
            return None
        name = ".".join(parts)
        head, rest = parts[0], parts[1:]
        # class defined in this module (possibly nested, possibly inherited attribute of a class)
        if cls_ctx and not rest:
            # a bare name inside a class body/method does not see class attributes in Python; skip
            pass
        r = self.class_attr(mod, parts, depth)
        if r:
            return r
        if head in mod.imports:
            target = mod.imports[head].split(".") + rest
            return self.resolve_abs(target, depth + 1)
        if name in ALIASES:
            return ALIASES[name]
        if name in BUILTINS:
            return name
        return None

    def class_attr(self, mod, parts, depth):
        """parts names a class of `mod`: C, C.Inner, or an inner class inherited from a base of C"""
        q = ".".join(parts)
        if q in mod.classes:
            return mod.name + "." + q
        if len(parts) >= 2 and ".".join(parts[:-1]) in mod.classes:
            owner = mod.classes[".".join(parts[:-1])]
            for b in owner.bases:
                bp = self.dotted(b)
                if bp:
                    r = self.resolve_parts(mod, bp + [parts[-1]], None, depth + 1)
                    if r:
                        return r
        return None

    def resolve_abs(self, parts, depth=0):
        """parts is an absolute dotted path module....Class"""
        if depth > 8:
            return None
        name = ".".join(parts)
        if name in ALIASES:
            return ALIASES[name]
        if name in BUILTINS:
            return name
        for i in range(len(parts), 0, -1):
            m = ".".join(parts[:i])
            if m in self.modules:
                rest = parts[i:]
                if not rest:
                    return None
                return self.resolve_parts(self.modules[m], rest, None, depth + 1)
        return None

    # ---- the tree ----------------------------------------------------------------------------
    def class_tree(self):
        """{canonical class: [canonical bases]} for all exception classes, plus definition order"""
        if self.tree is not None:
            return self.tree
        cand = {}
        for mname, mod in self.modules.items():
            for q, c in mod.classes.items():
                bases = []
                for b in c.bases:
                    outer = q.rpartition(".")[0]
                    r = self.resolve_class(mod, b)
                    if r is None and outer:
                        # base named relative to the enclosing class body
                        bp = self.dotted(b)
                        if bp:
                            r = self.class_attr(mod, outer.split(".") + bp, 0)
                    bases.append(r)
                cand[mname + "." + q] = (bases, mod, c)
        exc = dict((k, list(v)) for k, v in BUILTINS.items())
        changed = True
        while changed:
            changed = False
            for k, (bases, mod, c) in sorted(cand.items()):
                if k in exc:
                    continue
                if any(b in exc for b in bases if b):
                    exc[k] = [b for b in bases if b and (b in exc or b in cand)]
                    changed = True
        # keep only bases that are exception classes
        for k in exc:
            exc[k] = [b for b in exc[k] if b in exc]
        self.tree = exc
        self.class_src = {k: (cand[k][1].name, cand[k][2].lineno) for k in exc if k in cand}
        return exc

    def ordered_tree(self):
        """most derived first: a class comes before all of its bases"""
        exc = self.class_tree()
        depth = {}

        def d(k, seen=()):
            if k in depth:
                return depth[k]
            if k in seen:
                return 0
            depth[k] = 1 + max([d(b, seen + (k,)) for b in exc[k]] or [0])
            return depth[k]
        for k in exc:
            d(k)
        return sorted(exc, key=lambda k: (-depth[k], k))


def lean_ident(s):
    s = s.replace("nfc.", "", 1) if s.startswith("nfc.") else s
    out = "".join(ch if (ch.isalnum() or ch == "_") else "_" for ch in s)
    return out


def lean_str(s, limit=90):
    s = " ".join(s.split())[:limit]
    return '"' + s.replace("\\", "\\\\").replace('"', '\\"') + '"'


def comment_safe(s):
    return " ".join(s.split()).replace("-/", "- /").replace("/-", "/ -")


# ------------------------------------------------------------------------------------------------
# statements
# ------------------------------------------------------------------------------------------------

class FnTranslator:
    """translates one function; `env` gives class context, links and site tables"""

    def __init__(self, tr, spec, mod, fn):
        self.tr, self.spec, self.mod, self.fn = tr, spec, mod, fn
        self.repo = tr.repo
        self.cfg = tr.cfg
        self.qual = spec["qual"]
        self.cls_ctx = None
        parts = self.qual.split(".")
        for i in range(len(parts) - 1, 0, -1):
            if ".".join(parts[:i]) in mod.classes:
                self.cls_ctx = ".".join(parts[:i])
                break
        self.others = []
        self.mark_ctx = "load"
        self.marks = {}      # position of every classified call / operation -> site names ([] = assumed not to raise)
        self.pruned = []
        self.unknown = []
        self.used_sites = []
        self.benign = []
        self.dead_handlers = []   # `try` statements whose body has no site / raise: the handlers are unreachable in the analysis
        self.occ = {}             # occurrence counters of operation keys (`expr:x[i]#2`: the second `x[i]` of the function)

    # ---- constructors
    def seq(self, items):
        items = [i for i in items if i != "skip"]
        if not items:
            return "skip"
        r = items[-1]
        for i in reversed(items[:-1]):
            r = "(seq %s %s)" % (i, r)
        return r

    def other(self, node):
        src = node if isinstance(node, str) else ast.unparse(node)
        self.others.append((getattr(node, "lineno", 0), " ".join(src.split())[:100]))
        return "(other %s)" % lean_str(src)

    def pos(self, node):
        return (type(node).__name__, self.mark_ctx, getattr(node, "lineno", 0), getattr(node, "col_offset", 0),
                getattr(node, "end_lineno", 0), getattr(node, "end_col_offset", 0))

    def site(self, key, node, kind):
        """kind: 'prim' | 'fn' | 'unknown'"""
        name = self.tr.site_name(key, kind, self.spec, node)
        self.used_sites.append((getattr(node, "lineno", 0), kind, name))
        self.marks.setdefault(self.pos(node), []).append(name)      # for the self-test
        return "(call Site.%s)" % lean_ident(name)

    def fn_sites(self, targets, node):
        """a call that is dispatched to one of several translated functions: either of them"""
        if isinstance(targets, str):
            targets = [targets]
        ids = {sp["id"] for sp in self.tr.specs}
        # "A|B": method resolution order - the first of the alternatives that is a translated function
        targets = [next((a for a in t.split("|") if a in ids), t) for t in targets]
        targets = [t for i, t in enumerate(targets) if t not in targets[:i]]
        targets = [t for t in targets if t in ids] or targets      # dispatch lists name candidates
        r = None
        for t in reversed(targets):
            c = self.site(t, node, "fn")
            r = c if r is None else "(branch %s %s)" % (c, r)
        return r

    # ---- classify a call/operation by its key
    def classify(self, key, node):
        """returns a Stmt string (possibly 'skip')"""
        spec = self.spec
        local = spec.get("sites", {})
        links = spec.get("links", {})
        if key in links:
            return self.fn_sites(links[key], node)
        cands = self.tr.prefix_candidates(key, self.mod.name, self.cls_ctx)
        if cands:
            return self.fn_sites(cands, node)
        if key in spec.get("benign", ()):
            self.benign.append(key)
            self.marks.setdefault(self.pos(node), [])
            return "skip"
        if key in local:
            return self.site(self.spec["id"] + "/" + key, node, "prim")
        # automatic link: self.<m> with m a translated method of the same class
        if key.startswith("self.") and key.count(".") == 1 and self.cls_ctx:
            target = self.tr.fn_by_qual.get((self.mod.name, self.cls_ctx + "." + key[5:]))
            if target:
                return self.site(target, node, "fn")
        for scope in self.tr.scoped_links(self.mod.name, self.cls_ctx):
            if key in scope:
                return self.fn_sites(scope[key], node)
        g = self.cfg.GLOBAL_SITES
        if key in g:
            return self.site(key, node, "prim")
        pat = self.tr.global_pattern(key)
        if pat is not None:
            self.tr.pattern_asm[key] = g[pat]
            return self.site(key, node, "prim")
        if self.cfg.is_benign(key, node, self):
            self.benign.append(key)
            self.marks.setdefault(self.pos(node), [])
            return "skip"
        self.unknown.append((getattr(node, "lineno", 0), key))
        return self.site("?" + self.spec["id"] + "/" + key, node, "unknown")

    # ---- expressions: ordered list of effects
    def effects(self, node):
        if node is None:
            return []
        out = []
        if isinstance(node, ast.Lambda):
            return []          # the body runs when the lambda is called, not here
        if isinstance(node, ast.Call):
            f = node.func
            if isinstance(f, ast.Attribute):
                out += self.effects(f.value)
            elif not isinstance(f, ast.Name):
                out += self.effects(f)
            for a in node.args:
                out += self.effects(a.value if isinstance(a, ast.Starred) else a)
            for k in node.keywords:
                out += self.effects(k.value)
            key = ast.unparse(f)
            r = self.classify(key, node)
            if r != "skip":
                out.append(r)
            return out
        if isinstance(node, ast.Attribute):
            out += self.effects(node.value)
            key = "attr:" + ast.unparse(node)
            if self.tr.is_op_key(key, self.spec):
                r = self.classify(key, node)
                if r != "skip":
                    out.append(r)
            return out
        if isinstance(node, ast.Subscript):
            out += self.effects(node.value)
            out += self.effects(node.slice)
            base = "expr:" + ast.unparse(node)
            self.occ[base] = n = self.occ.get(base, 0) + 1
            for key in ("%s#%d" % (base, n), base, "item:" + ast.unparse(node.value)):
                if self.tr.is_op_key(key, self.spec):
                    r = self.classify(key, node)
                    if r != "skip":
                        out.append(r)
                    break
            return out
        if isinstance(node, (ast.ListComp, ast.GeneratorExp, ast.SetComp, ast.DictComp)):
            inner = []
            first = []
            for i, g in enumerate(node.generators):
                (first if i == 0 else inner).extend(self.effects(g.iter))
                for c in g.ifs:
                    inner += self.effects(c)
            if isinstance(node, ast.DictComp):
                inner += self.effects(node.key) + self.effects(node.value)
            else:
                inner += self.effects(node.elt)
            return first + (["(loop %s skip)" % self.seq(inner)] if inner else [])
        if isinstance(node, ast.BoolOp):
            vals = [self.seq(self.effects(v)) for v in node.values]
            r = vals[0]
            for v in vals[1:]:
                if v != "skip":
                    r = self.seq([r, "(branch %s skip)" % v])
            return [r] if r != "skip" else []
        if isinstance(node, ast.IfExp):
            a, b = self.seq(self.effects(node.body)), self.seq(self.effects(node.orelse))
            br = [] if (a == "skip" and b == "skip") else ["(branch %s %s)" % (a, b)]
            return self.effects(node.test) + br
        if isinstance(node, (ast.Yield, ast.YieldFrom, ast.Await)):
            return [self.other(node)]
        for c in ast.iter_child_nodes(node):
            if isinstance(c, ast.expr):
                out += self.effects(c)
            elif isinstance(c, ast.keyword):
                out += self.effects(c.value)
            elif isinstance(c, ast.comprehension):   # pragma: no cover  (handled above)
                out += self.effects(c.iter)
        return out

    def target_effects(self, t):
        """effects of evaluating an assignment target (subscript / attribute stores)"""
        if isinstance(t, ast.Name):
            return []
        if isinstance(t, (ast.Tuple, ast.List)):
            return [e for x in t.elts for e in self.target_effects(x)]
        if isinstance(t, ast.Starred):
            return self.target_effects(t.value)
        if isinstance(t, ast.Subscript):
            out = self.effects(t.value) + self.effects(t.slice)
            for key in ("setexpr:" + ast.unparse(t), "setitem:" + ast.unparse(t.value)):
                if self.tr.is_op_key(key, self.spec):
                    self.mark_ctx = "store"
                    r = self.classify(key, t)
                    self.mark_ctx = "load"
                    if r != "skip":
                        out.append(r)
                    break
            return out
        if isinstance(t, ast.Attribute):
            out = self.effects(t.value)
            key = "setattr:" + ast.unparse(t)
            if self.tr.is_op_key(key, self.spec):
                r = self.classify(key, t)
                if r != "skip":
                    out.append(r)
            return out
        return [self.other(t)]

    # ---- statements
    def block(self, stmts, ctx):
        return self.seq([self.stmt(s, ctx) for s in stmts])

    def resolve(self, node):
        r = self.repo.resolve_class(self.mod, node, self.cls_ctx)
        if r is None:
            # `self.chipset.Error`, `cls.Error` ...: explicit table
            r = self.cfg.CLASS_EXPR.get((self.mod.name, ast.unparse(node)))
        if r is not None and r not in self.repo.class_tree():
            return None
        return r

    def raise_stmt(self, s, ctx):
        if s.exc is None:
            if ctx["handler"] is None:
                return self.other(s)         # bare raise outside a handler of this function: refused
            return "reraise"
        eff = []
        exc = s.exc
        if s.cause is not None:
            eff += self.effects(s.cause)
        if isinstance(exc, ast.Name) and ctx["handler"] is not None and ctx["handler"].get("name") == exc.id:
            return self.seq(eff + ["reraise"])   # `raise e` with e bound by `except ... as e` (and never rebound)
        cls_node = exc
        if isinstance(exc, ast.Call):
            cls_node = exc.func
            for a in exc.args:
                eff += self.effects(a)
            for k in exc.keywords:
                eff += self.effects(k.value)
            fac = self.cfg.FACTORIES.get((self.mod.name, ast.unparse(exc.func)))
            if fac is not None:
                return self.seq(eff + ["(raise Cls.%s)" % lean_ident(fac)])
        c = self.resolve(cls_node)
        if c is None and isinstance(exc, ast.Attribute):
            c = self.stored_exception_class(exc)
        if c is None:
            return self.seq(eff + [self.other(s)])
        if c == "OSError" and isinstance(exc, ast.Call) and len(exc.args) >= 2:
            # `OSError(errno, strerror)` constructs the subclass CPython maps the errno to (PEP 3151); of those classes the
            # tree has `TimeoutError` (ETIMEDOUT), every other one is represented by `OSError` itself
            first = ast.unparse(exc.args[0])
            if first in ("errno.ETIMEDOUT", "110"):
                c = "TimeoutError"
            elif not (first.startswith("errno.") or isinstance(exc.args[0], ast.Constant)):
                return self.seq(eff + ["(branch (raise Cls.OSError) (raise Cls.TimeoutError))"])
        return self.seq(eff + ["(raise Cls.%s)" % lean_ident(c)])

    def stored_exception_class(self, node):
        """`raise self.<attr>`: allowed when the configuration names the class and every assignment to
        `<anything>.<attr>` in the module stores an instance of that class: either `C(...)` or the name bound by
        `except C as name` (checked here, syntactically)."""
        want = self.cfg.STORED_EXC.get((self.mod.name, ast.unparse(node)))
        if want is None:
            return None
        handlers = {}
        for n in ast.walk(self.mod.tree):
            if isinstance(n, ast.ExceptHandler) and n.name and n.type is not None:
                for b in ast.walk(n):
                    if isinstance(b, ast.Assign):
                        handlers[id(b)] = n
        for n in ast.walk(self.mod.tree):
            if isinstance(n, ast.Assign) and any(isinstance(t, ast.Attribute) and t.attr == node.attr for t in n.targets):
                v = n.value
                if isinstance(v, ast.Call) and self.repo.resolve_class(self.mod, v.func, self.cls_ctx) == want:
                    continue
                h = handlers.get(id(n))
                if isinstance(v, ast.Name) and h is not None and h.name == v.id and \
                        self.repo.resolve_class(self.mod, h.type, self.cls_ctx) == want:
                    continue
                return None
        return want

    def handler_classes(self, h):
        if h.type is None:
            return ["BaseException"]
        nodes = h.type.elts if isinstance(h.type, ast.Tuple) else [h.type]
        out = []
        for n in nodes:
            c = self.resolve(n)
            if c is None:
                return None
            out.append(c)
        return out

    def stmt(self, s, ctx):
        if isinstance(s, ast.Expr):
            if isinstance(s.value, ast.Constant):
                return "skip"
            return self.seq(self.effects(s.value))
        if isinstance(s, (ast.Pass, ast.Import, ast.ImportFrom, ast.Global, ast.Nonlocal)):
            return "skip"
        if isinstance(s, (ast.FunctionDef, ast.ClassDef)):
            return "skip"
        if isinstance(s, ast.Break):
            return "brk" if ctx["loop"] else self.other(s)
        if isinstance(s, ast.Continue):
            return "cont" if ctx["loop"] else self.other(s)
        if isinstance(s, ast.Return):
            return self.seq(self.effects(s.value) + ["ret"])
        if isinstance(s, ast.Raise):
            return self.raise_stmt(s, ctx)
        if isinstance(s, ast.Assert):
            fail = self.seq(self.effects(s.msg) + ["(raise Cls.AssertionError)"])
            return self.seq(self.effects(s.test) + ["(branch skip %s)" % fail])
        if isinstance(s, (ast.Assign, ast.AugAssign, ast.AnnAssign)):
            targets = s.targets if isinstance(s, ast.Assign) else [s.target]
            eff = self.effects(s.value) if s.value is not None else []
            for t in targets:
                if isinstance(s, ast.AugAssign):
                    eff = self.effects(t) + eff     # the target is read first
                eff += self.target_effects(t)
                if isinstance(t, ast.Name) and ctx["handler"] is not None and ctx["handler"].get("name") == t.id:
                    ctx["handler"]["name"] = None   # the handler's name is rebound: `raise e` is no longer a re-raise
            return self.seq(eff)
        if isinstance(s, ast.Delete):
            eff = []
            for t in s.targets:
                eff += self.target_effects(t) if not isinstance(t, ast.Name) else []
            return self.seq(eff)
        if isinstance(s, ast.If):
            when = self.spec.get("when", {})
            tsrc = ast.unparse(s.test)
            if tsrc in when:
                self.pruned.append((s.lineno, tsrc, when[tsrc]))
                return self.seq(self.effects(s.test) + [self.block(s.body if when[tsrc] else s.orelse, ctx)])
            a, b = self.block(s.body, ctx), self.block(s.orelse, ctx)
            return self.seq(self.effects(s.test) + ([] if a == b == "skip" else ["(branch %s %s)" % (a, b)]))
        if isinstance(s, ast.While):
            test = self.effects(s.test)
            lctx = dict(ctx, loop=True)
            body = self.seq(test + [self.block(s.body, lctx)])
            orelse = self.seq(test + [self.block(s.orelse, ctx)])
            return "(loop %s %s)" % (body, orelse)
        if isinstance(s, ast.For):
            head = self.effects(s.iter) + self.target_effects(s.target)
            lctx = dict(ctx, loop=True)
            return self.seq(head + ["(loop %s %s)" % (self.block(s.body, lctx), self.block(s.orelse, ctx))])
        if isinstance(s, ast.With):
            eff = []
            for item in s.items:
                src = ast.unparse(item.context_expr)
                if not self.cfg.is_plain_context_manager(src):
                    return self.other(s)
                eff += self.effects(item.context_expr)
                if item.optional_vars is not None:
                    eff += self.target_effects(item.optional_vars)
            return self.seq(eff + [self.block(s.body, ctx)])
        if isinstance(s, ast.Try):
            hs = "Handlers.nil"
            for h in reversed(s.handlers):
                classes = self.handler_classes(h)
                if classes is None:
                    return self.other(s)
                hctx = dict(ctx, handler={"name": h.name})
                body = self.block(h.body, hctx)
                hs = "(Handlers.cons [%s] %s %s)" % (", ".join("Cls." + lean_ident(c) for c in classes), body, hs)
            r = self.block(s.body, ctx)
            if s.handlers:
                if not any(tok in r for tok in ("(call ", "(raise ", "reraise", "(other ")):
                    self.dead_handlers.append((s.lineno, ", ".join(ast.unparse(h.type) if h.type is not None else "*"
                                                                   for h in s.handlers)))
                r = "(tryExcept %s %s %s)" % (r, hs, self.block(s.orelse, ctx))
            elif s.orelse:   # pragma: no cover  (not valid Python)
                return self.other(s)
            if s.finalbody:
                # break/continue/bare raise in a finally block refer to the enclosing construct
                r = "(tryFinally %s %s)" % (r, self.block(s.finalbody, dict(ctx, handler=None if ctx["handler"] is None else ctx["handler"])))
            return r
        return self.other(s)

    def translate(self):
        fn = self.fn
        if any(isinstance(n, (ast.Yield, ast.YieldFrom)) for n in ast.walk(fn)):
            # a generator function (or one that contains one): calling it runs nothing, the body runs on
            # iteration.  Refused.
            return self.other("generator function " + self.qual)
        ctx = {"loop": False, "handler": None}
        return self.block(fn.body, ctx)


class Translator:
    def __init__(self, root, cfg=None):
        self.cfg = cfg if cfg is not None else Config()
        self.repo = Repo(root)
        self.root = root
        self.specs = []
        self.fn_by_qual = {}
        self.missing = []
        self.pattern_asm = {}
        all_specs = list(self.cfg.FUNCS)
        for idp, module, cls, opt in getattr(self.cfg, "CLASS_SPECS", []):
            mod = self.repo.modules.get(module)
            if mod is None or cls not in mod.classes:
                self.missing.append(idp + ".*")
                continue
            for q in sorted(mod.functions):
                if not q.startswith(cls + ".") or "." in q[len(cls) + 1:] or "@" in q:
                    continue
                m = q[len(cls) + 1:]
                if m in opt.get("exclude", ()) or (opt.get("only") is not None and m not in opt["only"]):
                    continue
                fn = mod.functions[q]
                if any(isinstance(d, ast.Name) and d.id in ("property", "staticmethod", "classmethod") or
                       isinstance(d, ast.Attribute) for d in fn.decorator_list) and not opt.get("decorated"):
                    continue
                if idp + "." + m in {x["id"] for x in all_specs}:
                    continue
                kw = dict(opt.get("kw", {}))
                kw.update(opt.get("per", {}).get(m, {}))
                all_specs.append(F(idp + "." + m, module, q, **kw))
        for spec in all_specs:
            spec = dict(spec)
            mod = self.repo.modules.get(spec["module"])
            fn = mod.functions.get(spec["qual"]) if mod else None
            if fn is None:
                self.missing.append(spec["id"])
            spec["_mod"], spec["_fn"] = mod, fn
            self.specs.append(spec)
            # target of the automatic link `self.<m>` -> method of the same class: the general translation of the
            # method, never a specialised copy (`when`: a decided `if`; `copy`: other links)
            if not spec.get("when") and not spec.get("copy"):
                self.fn_by_qual.setdefault((spec["module"], spec["qual"]), spec["id"])
        self.site_kinds = {}    # site name -> kind
        self.site_asm = {}      # prim site name -> list of classes
        self.results = {}

    def prefix_candidates(self, key, module, cls):
        for (m, c), rules in getattr(self.cfg, "PREFIX_LINKS", {}).items():
            if m != module or (c is not None and c != cls):
                continue
            for prefix, idps in rules:
                if key.startswith(prefix) and "." not in key[len(prefix):] and "(" not in key[len(prefix):]:
                    rest = key[len(prefix):]
                    ids = {s["id"] for s in self.specs}
                    c2 = [p + "." + rest for p in idps if p + "." + rest in ids
                          and p + "." + rest not in getattr(self.cfg, "ABSTRACT", ())]
                    if c2:
                        return c2
        return None

    def global_pattern(self, key):
        for pat in self.cfg.GLOBAL_SITES:
            if pat.endswith("*") and key.startswith(pat[:-1]):
                return pat
        return None

    def scoped_links(self, module, cls):
        out = []
        for (m, c), links in self.cfg.SCOPED_LINKS.items():
            if m == module and (c is None or c == cls):
                out.append(links)
        return out

    def is_op_key(self, key, spec):
        if key in spec.get("sites", {}) or key in spec.get("links", {}) or key in self.cfg.GLOBAL_SITES \
                or key in spec.get("benign", ()) or self.global_pattern(key) is not None:
            return True
        if self.prefix_candidates(key, spec["module"], self._cls_of(spec)):
            return True
        return any(key in s for s in self.scoped_links(spec["module"], self._cls_of(spec)))

    def _cls_of(self, spec):
        mod = spec["_mod"]
        parts = spec["qual"].split(".")
        for i in range(len(parts) - 1, 0, -1):
            if mod and ".".join(parts[:i]) in mod.classes:
                return ".".join(parts[:i])
        return None

    def site_name(self, key, kind, spec, node):
        if kind == "fn":
            name = "fn:" + key
        elif kind == "prim":
            name = key
            if "/" in key and key.split("/", 1)[0] == spec["id"]:
                self.site_asm[name] = spec["sites"][key.split("/", 1)[1]]
            elif key in self.cfg.GLOBAL_SITES:
                self.site_asm[name] = self.cfg.GLOBAL_SITES[key]
            else:
                self.site_asm[name] = self.pattern_asm[key]
        else:
            name = key
        self.site_kinds[name] = kind
        return name

    def run(self):
        self.repo.class_tree()
        for spec in self.specs:
            if spec["_fn"] is None:
                self.results[spec["id"]] = ("(other %s)" % lean_str("function not found: " + spec["id"]), None)
                continue
            ft = FnTranslator(self, spec, spec["_mod"], spec["_fn"])
            term = ft.translate()
            self.results[spec["id"]] = (term, ft)
        return self

    # ---- program order: callers before callees
    def order(self):
        deps = {}
        for spec in self.specs:
            term, ft = self.results[spec["id"]]
            deps[spec["id"]] = sorted({n[3:] for (_, k, n) in (ft.used_sites if ft else []) if k == "fn"})
        ids = [s["id"] for s in self.specs]
        out, state = [], {}

        def visit(i):
            if state.get(i) == 2:
                return
            if state.get(i) == 1:
                return        # cycle: the back edge stays unresolved (site defaults to "anything")
            state[i] = 1
            for d in deps.get(i, []):
                if d in deps:
                    visit(d)
            state[i] = 2
            out.append(i)
        for i in sorted(ids):
            visit(i)
        return list(reversed(out)), deps


def emit_classtree(tr, path):
    repo = tr.repo
    exc = repo.class_tree()
    order = repo.ordered_tree()
    # numbering: fixed for the three classes the semantics refers to, then alphabetical
    fixed = ["BaseException", "RuntimeError", "AssertionError"]
    names = fixed + sorted(k for k in exc if k not in fixed)
    num = {k: i for i, k in enumerate(names)}
    L = ["import NfcVerif.Model.ExcFlow",
         "/-! GENERATED by harness/translate_exc.py from the `class` statements of src/nfc - do not edit.",
         "Exception classes (`Cls.<name>` = number) and `(class, direct bases)`, most derived first. -/",
         "namespace NfcVerif.Gen.ClassTree", "open NfcVerif.ExcFlow", "", "namespace Cls"]
    for k in names:
        src = repo.class_src.get(k)
        where = " (%s line %d)" % src if src else " (builtin / foreign, fixed table)"
        L.append("/-- `%s`%s -/" % (k, where))
        L.append("abbrev %s : Cls := %d" % (lean_ident(k), num[k]))
    L += ["end Cls", ""]
    L.append("def tree : Tree := [")
    L.append(",\n".join("  (Cls.%s, [%s])" % (lean_ident(k), ", ".join("Cls." + lean_ident(b) for b in exc[k]))
                        for k in order))
    L.append("]\n")
    L.append("def world : World := ⟨tree, Cls.BaseException, Cls.RuntimeError⟩\n")
    L.append("def names : List (Cls × String) := [")
    L.append(",\n".join('  (%d, "%s")' % (num[k], k) for k in names))
    L.append("]\n")
    L.append("end NfcVerif.Gen.ClassTree")
    write_if_changed(path, "\n".join(L) + "\n")
    return num


def emit_excflow(tr, path):
    order, deps = tr.order()
    exc = tr.repo.class_tree()
    # site numbering: deterministic, by name
    site_names = sorted(tr.site_kinds)
    fn_ids = [s["id"] for s in tr.specs]
    for i in fn_ids:
        if "fn:" + i not in tr.site_kinds:
            tr.site_kinds["fn:" + i] = "fn"
    site_names = sorted(tr.site_kinds)
    num = {n: i + 1 for i, n in enumerate(site_names)}
    L = ["import NfcVerif.Model.ExcFlow", "import NfcVerif.Gen.ClassTree",
         "/-! GENERATED by harness/translate_exc.py from src/nfc - do not edit.",
         "`Site.<name>`: call sites (primitive sites with their assumption in `table`, `fn_*` sites of",
         "translated functions, `unknown_*` sites that may raise anything). `Body.<fn>`: the translated body. -/",
         "namespace NfcVerif.Gen.ExcFlow", "open NfcVerif.ExcFlow NfcVerif.ExcFlow.Stmt NfcVerif.Gen.ClassTree", "",
         "namespace Site"]
    for n in site_names:
        L.append("/-- %s site `%s` -/" % (tr.site_kinds[n], comment_safe(n)))
        L.append("abbrev %s : Site := %d" % (lean_ident(n), num[n]))
    L += ["end Site", "", "namespace Body"]
    spec_by_id = {s["id"]: s for s in tr.specs}
    for i in order:
        spec = spec_by_id[i]
        term, ft = tr.results[i]
        line = spec["_fn"].lineno if spec["_fn"] is not None else 0
        L.append("/-- `%s.%s` (%s line %d) -/" % (spec["module"], spec["qual"],
                                                 os.path.relpath(spec["_mod"].path, tr.root) if spec["_mod"] else "?", line))
        L.append("def %s : Stmt :=\n  %s\n" % (lean_ident(i), term))
    L += ["end Body", ""]
    L.append("/-- translated functions, callers before callees -/")
    L.append("def prog : Prog := [")
    L.append(",\n".join("  (Site.%s, Body.%s)" % (lean_ident("fn:" + i), lean_ident(i)) for i in order))
    L.append("]\n")
    L.append("/-- assumption table: the classes (with their subclasses) each primitive site may raise;")
    L.append("sites that are not listed (`unknown_*`) may raise anything -/")
    L.append("def table : List (Site × List Cls) := [")
    rows = []
    for n in site_names:
        if tr.site_kinds[n] == "prim":
            classes = tr.site_asm[n]
            bad = [c for c in classes if c not in exc]
            if bad:
                raise SystemExit("assumption of site %s names unknown classes %s" % (n, bad))
            rows.append("  (Site.%s, [%s])" % (lean_ident(n), ", ".join("Cls." + lean_ident(c) for c in classes)))
    L.append(",\n".join(rows))
    L.append("]\n")
    L.append("def siteNames : List (Site × String) := [")
    L.append(",\n".join("  (%d, %s)" % (num[n], lean_str(n, 200)) for n in site_names))
    L.append("]\n")
    L.append("end NfcVerif.Gen.ExcFlow")
    write_if_changed(path, "\n".join(L) + "\n")
    return num, order, deps


def write_if_changed(path, text):
    old = open(path).read() if os.path.exists(path) else None
    if old != text:
        os.makedirs(os.path.dirname(path), exist_ok=True)
        with open(path, "w") as f:
            f.write(text)
        return True
    return False


def emit(root, gen_dir, cfg=None):
    tr = Translator(root, cfg).run()
    cnum = emit_classtree(tr, os.path.join(gen_dir, "ClassTree.lean"))
    snum, order, deps = emit_excflow(tr, os.path.join(gen_dir, "ExcFlow.lean"))
    tr.class_num, tr.site_num, tr.prog_order, tr.deps = cnum, snum, order, deps
    return tr


def default_gen_dir():
    return os.path.join(os.path.dirname(os.path.dirname(os.path.abspath(__file__))), "lean", "NfcVerif", "Gen")


# ------------------------------------------------------------------------------------------------
# configuration: which functions are translated and what is assumed of the call sites
# ------------------------------------------------------------------------------------------------

COMM = "nfc.clf.CommunicationError"


def F(id, module, qual, **kw):
    d = {"id": id, "module": module, "qual": qual}
    d.update(kw)
    return d


class Config:
    """The trusted part of the tie: the list of translated functions, the assumption table and the
    allow-list of operations assumed not to raise.  See docs/exc_flow.md."""

    # calls of these plain names are assumed not to raise (builtin constructors and pure helpers)
    BENIGN_NAMES = {
        "len", "range", "bytearray", "bytes", "int", "str", "bool", "float", "isinstance", "issubclass", "type",
        "repr", "min", "max", "sum", "sorted", "list", "tuple", "dict", "set", "frozenset", "enumerate", "zip",
        "hex", "ord", "chr", "abs", "divmod", "round", "any", "all", "filter", "map", "reversed", "iter", "slice",
        "hasattr", "getattr", "setattr", "callable", "id", "print", "format", "super", "object", "vars",
        "hexlify", "unhexlify", "pack", "unpack", "memoryview", "print_data", "pagedump", "itemgetter", "attrgetter",
        "reduce",           # functools.reduce(operator.xor, <4 octets>): checksum folds of the drivers
    }
    # method calls whose receiver chain starts at one of these names
    BENIGN_ROOTS = {"log", "logging", "time", "os", "errno", "struct", "binascii", "itertools", "math", "re",
                    "collections", "operator", "string", "random", "threading", "weakref"}
    # method names assumed not to raise whatever the receiver (containers, strings, bytes, events)
    BENIGN_METHODS = {
        "format", "decode", "encode", "append", "extend", "join", "get", "items", "keys", "values", "startswith",
        "endswith", "hex", "find", "copy", "update", "setdefault", "count", "insert", "sort", "reverse", "split",
        "strip", "lstrip", "rstrip", "lower", "upper", "ljust", "rjust", "fromhex", "to_bytes", "from_bytes",
        "indices", "is_set", "isSet", "add", "discard", "clear", "title", "replace", "zfill", "capitalize",
        "__init__", "is_alive", "isAlive", "getName", "setName", "locked", "popleft", "appendleft",
        "notify", "notify_all", "notifyAll", "set", "index", "pop", "remove", "partition", "rpartition",
        "total_seconds", "difference", "union", "intersection", "issubset", "translate", "isdigit",
    }
    # other calls assumed not to raise: CRC helpers of nfc.clf.device.Device (pure), sleeping
    BENIGN_KEYS = {"self.add_crc_a", "self.check_crc_a", "self.add_crc_b", "self.check_crc_b", "self.calculate_crc",
                   # threading.Condition.wait with the lock held (every call is inside `with <the condition / its lock>`)
                   "self.recv_ready.wait", "self.send_ready.wait", "self.send_token.wait", "self.acks_ready.wait",
                   "self.resp.wait"}
    # context managers that do not swallow exceptions (locks, conditions)
    CONTEXT_MANAGERS = {"self.lock", "self.llc.lock", "lock", "self.send_ready", "self.recv_ready",
                        "self.send_token", "self.recv_ready", "self.state.lock", "self.acks_ready", "self.resp"}

    # primitive sites with one assumption everywhere
    GLOBAL_SITES = {
        # the contactless frontend as seen from the tag / protocol layers: RF failures only
        "self.clf.exchange": [COMM],
        "clf.exchange": [COMM],
        # sensing a target that was found before: no exception (None when it is gone)
        "self.clf.sense": [],
        "clf.sense": [],
    }

    # (module, source of the class expression) -> class, for expressions that are not plain dotted names
    CLASS_EXPR = {}
    # (module, source of the called expression) -> class of the instance it returns
    FACTORIES = {
        ("nfc.tag.tt4", "Type4TagCommandError.from_status"): "nfc.tag.tt4.Type4TagCommandError",
    }
    # (module, source of the raised expression) -> class of the exception instance stored there
    STORED_EXC = {("nfc.tag.tt3", "self._attribute_error"): "nfc.tag.tt3.Type3TagCommandError"}
    # links that hold for every function of a module / class: (module, class or None) -> {key: fn id(s)}
    SCOPED_LINKS = {}
    FUNCS = []

    def is_plain_context_manager(self, src):
        return src in self.CONTEXT_MANAGERS

    BENIGN_PREFIXES = ("self.log.", "log.")

    def is_benign(self, key, node, ft):
        f = node.func if isinstance(node, ast.Call) else None
        if f is None:
            return False
        if key.startswith(self.BENIGN_PREFIXES) or key in self.BENIGN_KEYS:
            return True
        if isinstance(f, ast.Name):
            return f.id in self.BENIGN_NAMES
        if isinstance(f, ast.Attribute):
            root = f
            while isinstance(root, (ast.Attribute, ast.Subscript, ast.Call)):
                root = root.func if isinstance(root, ast.Call) else root.value
            if isinstance(root, ast.Constant):
                return True                      # "...".format(...), b"".join(...)
            if isinstance(root, ast.Name) and root.id in self.BENIGN_ROOTS:
                return True
            if f.attr in self.BENIGN_METHODS:
                return True
        return False


def _tags():
    T1, T2, T3, T4 = "nfc.tag.tt1", "nfc.tag.tt2", "nfc.tag.tt3", "nfc.tag.tt4"
    fs = [
        # ---- Type 1
        F("tt1.transceive", T1, "Type1Tag.transceive"),
        F("tt1.read_id", T1, "Type1Tag.read_id"),
        F("tt1.read_all", T1, "Type1Tag.read_all"),
        F("tt1.read_byte", T1, "Type1Tag.read_byte"),
        F("tt1.read_block", T1, "Type1Tag.read_block"),
        F("tt1.read_segment", T1, "Type1Tag.read_segment"),
        F("tt1.write_byte", T1, "Type1Tag.write_byte"),
        F("tt1.write_block", T1, "Type1Tag.write_block"),
        F("tt1.is_present", T1, "Type1Tag._is_present"),
        F("tt1.mem.init", T1, "Type1TagMemoryReader.__init__"),
        F("tt1.mem.getitem", T1, "Type1TagMemoryReader.__getitem__"),
        F("tt1.mem.setitem", T1, "Type1TagMemoryReader.__setitem__"),
        F("tt1.mem.read_from_tag", T1, "Type1TagMemoryReader._read_from_tag",
          links={"self._tag.read_all": "tt1.read_all", "self._tag.read_block": "tt1.read_block",
                 "self._tag.read_segment": "tt1.read_segment"}),
        F("tt1.mem.write_to_tag", T1, "Type1TagMemoryReader._write_to_tag",
          links={"self._tag.write_block": "tt1.write_block", "self._tag.write_byte": "tt1.write_byte"}),
        F("tt1.mem.synchronize", T1, "Type1TagMemoryReader.synchronize"),
        F("tt1.read_tlv", T1, "read_tlv", links={"item:memory": "tt1.mem.getitem"}),
        F("tt1.ndef.read", T1, "Type1Tag.NDEF._read_ndef_data",
          links={"Type1TagMemoryReader": "tt1.mem.init", "item:tag_memory": "tt1.mem.getitem",
                 "read_tlv": "tt1.read_tlv"},
          benign=["get_lock_byte_range", "get_rsvd_byte_range", "get_capacity"]),
        F("tt1.ndef.write", T1, "Type1Tag.NDEF._write_ndef_data",
          links={"item:tag_memory": "tt1.mem.getitem", "setitem:tag_memory": "tt1.mem.setitem",
                 "tag_memory.synchronize": "tt1.mem.synchronize"}),
        # ---- Type 2
        F("tt2.transceive", T2, "Type2Tag.transceive"),
        F("tt2.read", T2, "Type2Tag.read"),
        F("tt2.write", T2, "Type2Tag.write"),
        F("tt2.sector_select", T2, "Type2Tag.sector_select"),
        F("tt2.is_present", T2, "Type2Tag._is_present"),
        F("tt2.mem.getitem", T2, "Type2TagMemoryReader.__getitem__"),
        F("tt2.mem.setitem", T2, "Type2TagMemoryReader.__setitem__"),
        F("tt2.mem.read_from_tag", T2, "Type2TagMemoryReader._read_from_tag",
          links={"self._tag.sector_select": "tt2.sector_select", "self._tag.read": "tt2.read"}),
        F("tt2.mem.write_to_tag", T2, "Type2TagMemoryReader._write_to_tag",
          links={"self._tag.sector_select": "tt2.sector_select", "self._tag.write": "tt2.write"}),
        F("tt2.mem.synchronize", T2, "Type2TagMemoryReader.synchronize"),
        F("tt2.read_tlv", T2, "read_tlv", links={"item:memory": "tt2.mem.getitem"}),
        F("tt2.ndef.read_capability", T2, "Type2Tag.NDEF._read_capability_data",
          links={"item:tag_memory": "tt2.mem.getitem"}),
        F("tt2.ndef.read", T2, "Type2Tag.NDEF._read_ndef_data",
          links={"item:tag_memory": "tt2.mem.getitem", "read_tlv": "tt2.read_tlv"},
          benign=["Type2TagMemoryReader", "get_lock_byte_range", "get_rsvd_byte_range", "get_capacity",
                  # octets 0..15 are delivered by the READ that _read_capability_data has completed;
                  # offset+1 was read by read_tlv in the same iteration (memory reader cache)
                  "expr:tag_memory[14]", "expr:tag_memory[offset + 1]"]),
        F("tt2.ndef.write", T2, "Type2Tag.NDEF._write_ndef_data",
          links={"item:tag_memory": "tt2.mem.getitem", "setitem:tag_memory": "tt2.mem.setitem",
                 "tag_memory.synchronize": "tt2.mem.synchronize"}),
        # ---- Type 3
        F("tt3.send_cmd_recv_rsp", T3, "Type3Tag.send_cmd_recv_rsp"),
        # ---- Type 4
        F("tt4.dep._exchange", T4, "IsoDepInitiator._exchange"),
        F("tt4.dep.exchange", T4, "IsoDepInitiator.exchange"),
        F("tt4.dep.exchange_command", T4, "IsoDepInitiator._exchange_command"),
        # the same three functions for a command (command is not None) and for the presence check (command is
        # None): `_exchange_command` is cut at `if command is None`
        F("tt4.dep.exchange_command.cmd", T4, "IsoDepInitiator._exchange_command", when={"command is None": False}),
        F("tt4.dep.exchange_command.presence", T4, "IsoDepInitiator._exchange_command", when={"command is None": True}),
        F("tt4.dep.exchange.cmd", T4, "IsoDepInitiator.exchange", copy=True,
          links={"self._exchange_command": "tt4.dep.exchange_command.cmd"}),
        F("tt4.dep.exchange.presence", T4, "IsoDepInitiator.exchange",
          when={"command is not None and self.errno is not None": False},
          links={"self._exchange_command": "tt4.dep.exchange_command.presence"}),
        F("tt4.transceive", T4, "Type4Tag.transceive", links={"self._dep.exchange": "tt4.dep.exchange"}),
        F("tt4.transceive.cmd", T4, "Type4Tag.transceive", copy=True, links={"self._dep.exchange": "tt4.dep.exchange.cmd"}),
        # send_apdu passes the bytearray it has just built: the command variant
        F("tt4.send_apdu", T4, "Type4Tag.send_apdu", links={"self.transceive": "tt4.transceive.cmd"}),
        # _is_present passes the literal None: the presence check variant
        F("tt4.is_present", T4, "Type4Tag._is_present", links={"self._dep.exchange": "tt4.dep.exchange.presence"}),
    ]
    return fs


# target discovery and the rest of the driver interface (nfc.clf.device.Device)
DISCOVERY = {"sense_tta", "sense_ttb", "sense_ttf", "sense_dep", "listen_tta", "listen_ttb", "listen_ttf", "listen_dep",
             "_listen_tta", "_listen_ttf", "_init_as_target", "_send_atr_response", "_send_psl_response", "close",
             "get_max_send_data_size", "get_max_recv_data_size", "turn_on_led_and_buzzer", "turn_off_led_and_buzzer"}


def _drivers():
    PN = ["pn53x", "pn531", "pn532", "pn533", "rcs956", "acr122"]
    chip = [p + ".Chipset" for p in PN]
    dev = [p + ".Device" for p in PN]
    cls_specs, prefix = [], {}
    for p in PN:
        cls_specs.append((p + ".Chipset", "nfc.clf." + p, "Chipset",
                          {"exclude": {"__init__", "__str__"},
                           "per": {"get_general_status": {"links": {"super(Chipset, self).get_general_status":
                                                                    "pn53x.Chipset.get_general_status"}},
                                   "diagnose": {"links": {"super(Chipset, self).diagnose": "pn53x.Chipset.diagnose"}},
                                   "read_register": {"benign": ["addr"]}, "write_register": {"benign": ["addr"]}}}))
        prefix[("nfc.clf." + p, "Chipset")] = [("self.", chip)]
        prefix[("nfc.clf." + p, "Device")] = [("self.chipset.", chip), ("self.", dev)]
    only = {"send_cmd_recv_rsp", "_send_cmd_recv_rsp", "_tt1_send_cmd_recv_rsp", "_tt2_send_cmd_recv_rsp",
            "send_rsp_recv_cmd", "_tt3_send_rsp_recv_cmd", "mute", "__init__"} | DISCOVERY
    sup = {"links": {"super(Device, self).send_cmd_recv_rsp": "pn53x.Device.send_cmd_recv_rsp",
                     "super(Device, self).send_rsp_recv_cmd": "pn53x.Device.send_rsp_recv_cmd"}}
    # target objects built from the bitrate of the argument (a Target object) or a literal: the bitrate pattern matches
    TARGETS = ["nfc.clf.RemoteTarget", "nfc.clf.LocalTarget"]
    for p in PN:
        per = {"send_cmd_recv_rsp": sup, "send_rsp_recv_cmd": sup,
               "_send_cmd_recv_rsp": {"benign": ["bitrate", "framing"]}}
        for m in sorted(DISCOVERY | {"__init__"}):
            per[m] = {"benign": TARGETS}
            if p != "pn53x":
                per[m]["links"] = {"super(Device, self)." + m: "pn53x.Device." + m}
        if p in ("pn532", "pn533"):
            # the READ-SEGMENT emulation calls itself with a READ8 command (data[0] == 0x02): linked to the
            # copy of the function in which the READ-SEGMENT branch is cut
            per["_tt1_send_cmd_recv_rsp"] = {"links": {"self._tt1_send_cmd_recv_rsp": p + ".Device._tt1_send_cmd_recv_rsp.read8"}}
        if p == "rcs956":
            per["mute"] = {"links": {"super(Device, self).mute": "pn53x.Device.mute"}}
            per["__init__"]["links"]["chipset.reset_mode"] = "rcs956.Chipset.reset_mode"
        cls_specs.append((p + ".Device", "nfc.clf." + p, "Device", {"only": only, "per": per}))
    funcs = [
        F("pn532.Device._tt1_send_cmd_recv_rsp.read8", "nfc.clf.pn532", "Device._tt1_send_cmd_recv_rsp",
          when={"data[0] == 16": False}),
        F("pn533.Device._tt1_send_cmd_recv_rsp.read8", "nfc.clf.pn533", "Device._tt1_send_cmd_recv_rsp",
          when={"data[0] == 16": False}),
    ]
    # ---- RC-S380
    cls_specs.append(("rcs380.Chipset", "nfc.clf.rcs380", "Chipset", {"exclude": {"__init__", "__str__"},
                      "kw": {"benign": ["Frame"]}}))
    cls_specs.append(("rcs380.Device", "nfc.clf.rcs380", "Device",
                      {"only": {"send_cmd_recv_rsp", "_send_cmd_recv_rsp", "_tt2_send_cmd_recv_rsp",
                                "send_rsp_recv_cmd", "mute"} | DISCOVERY,
                       "per": dict({m: {"benign": TARGETS} for m in DISCOVERY},
                                   listen_tta={"benign": TARGETS, "links": {"listen_tta_tt2": "rcs380.Device.listen_tta.tt2",
                                                                            "listen_tta_tt4": "rcs380.Device.listen_tta.tt4"}},
                                   listen_dep={"benign": TARGETS, "links": {
                                       "verify_frame": "rcs380.Device.listen_dep.verify_frame",
                                       "send_res_recv_req": "rcs380.Device.listen_dep.send_res_recv_req",
                                       "send_dsl_res": "rcs380.Device.listen_dep.send_dsl_res",
                                       "send_rls_res": "rcs380.Device.listen_dep.send_rls_res",
                                       "send_psl_res": "rcs380.Device.listen_dep.send_psl_res"}})}))
    LD = "Device.listen_dep.<locals>."
    nested = {"send_res_recv_req": "rcs380.Device.listen_dep.send_res_recv_req"}
    funcs += [
        F("rcs380.Device.listen_tta.tt2", "nfc.clf.rcs380", "Device.listen_tta.<locals>.listen_tta_tt2", benign=TARGETS),
        F("rcs380.Device.listen_tta.tt4", "nfc.clf.rcs380", "Device.listen_tta.<locals>.listen_tta_tt4", benign=TARGETS),
        F("rcs380.Device.listen_dep.verify_frame", "nfc.clf.rcs380", LD + "verify_frame"),
        F("rcs380.Device.listen_dep.send_res_recv_req", "nfc.clf.rcs380", LD + "send_res_recv_req",
          links={"verify_frame": "rcs380.Device.listen_dep.verify_frame"}),
        F("rcs380.Device.listen_dep.send_dsl_res", "nfc.clf.rcs380", LD + "send_dsl_res", links=nested),
        F("rcs380.Device.listen_dep.send_rls_res", "nfc.clf.rcs380", LD + "send_rls_res", links=nested),
        F("rcs380.Device.listen_dep.send_psl_res", "nfc.clf.rcs380", LD + "send_psl_res", links=nested),
    ]
    prefix[("nfc.clf.rcs380", "Chipset")] = [("self.", ["rcs380.Chipset"])]
    prefix[("nfc.clf.rcs380", "Device")] = [("self.chipset.", ["rcs380.Chipset"]), ("self.", ["rcs380.Device"])]
    # ---- UDP
    cls_specs.append(("udp.Device", "nfc.clf.udp", "Device",
                      {"only": {"send_cmd_recv_rsp", "send_rsp_recv_cmd", "_send_data", "_recv_data", "mute",
                                "_create_socket", "_bind_socket"} | DISCOVERY,
                       "per": dict({m: {"benign": TARGETS + ["reduce"]} for m in DISCOVERY},     # reduce: checksum folds
                                   _recv_data={"sites": {"unhexlify": ["ValueError"], "brty.decode": ["UnicodeDecodeError"],
                                                         "data.split": []}},
                                   _create_socket={"sites": {"socket.socket": ["OSError"]}})}))
    prefix[("nfc.clf.udp", "Device")] = [("self.", ["udp.Device"])]
    # ---- the driver base class (every method raises NotImplementedError or does nothing) and the Arygon variants
    cls_specs.append(("device.Device", "nfc.clf.device", "Device", {"exclude": {"__init__", "__str__"}}))
    for v, base in (("A", "pn531"), ("B", "pn532")):
        cls_specs.append(("arygon.Chipset" + v, "nfc.clf.arygon", "Chipset" + v, {"only": {"write_frame"}}))
        cls_specs.append(("arygon.Device" + v, "nfc.clf.arygon", "Device" + v,
                          {"only": {"close"}, "kw": {"sites": {"self.chipset.transport.tty.write": ["OSError"]},
                                                     "links": {"self.chipset.close": "pn53x.Chipset.close"}}}))
    funcs.append(F("arygon.init", "nfc.clf.arygon", "init",
                   # serial port of the reader: pyserial reports failures as SerialException, an IOError
                   sites={"transport.open": ["OSError"], "transport.tty.write": ["OSError"], "transport.tty.readline": ["OSError"]},
                   # ChipsetA/B(...) store their arguments; DeviceA/B(...) run pn53x.Device.__init__ (diagnose: IOError)
                   benign=["ChipsetA", "ChipsetB", "transport.tty.readline().startswith"],
                   links={"DeviceA": "pn531.Device.__init__", "DeviceB": "pn532.Device.__init__"}))
    return funcs, cls_specs, prefix

def _stack():
    """tag activation and NDEF access, ContactlessFrontend, LLC run loops, SNEP / handover server threads"""
    TAG, T1, T2, T3, T4 = "nfc.tag", "nfc.tag.tt1", "nfc.tag.tt2", "nfc.tag.tt3", "nfc.tag.tt4"
    CLF, LLC = "nfc.clf", "nfc.llcp.llc"
    OS = "OSError"
    LLCERR = "nfc.llcp.err.Error"
    CB = []      # application callbacks: assumed not to raise (what they raise is the application's own business)
    drivers_cmd = ["pn53x.Device.send_cmd_recv_rsp", "pn533.Device.send_cmd_recv_rsp",
                   "rcs380.Device.send_cmd_recv_rsp", "udp.Device.send_cmd_recv_rsp"]
    drivers_rsp = ["pn53x.Device.send_rsp_recv_cmd", "pn533.Device.send_rsp_recv_cmd",
                   "rcs380.Device.send_rsp_recv_cmd", "udp.Device.send_rsp_recv_cmd"]
    tag_ctors = ["Type1Tag", "Type2Tag", "Type3Tag", "Topaz", "Topaz512", "MifareUltralight", "MifareUltralightC",
                 "NTAG203", "VERSION_MAP[rsp]", "FelicaLite", "FelicaLiteS", "FelicaStandard", "FelicaMobile",
                 "FelicaPlug"]
    mutes = ["pn53x.Device.mute", "rcs956.Device.mute", "rcs380.Device.mute", "udp.Device.mute"]
    DEVT = [COMM, OS, "nfc.clf.UnsupportedTargetError"]   # sense_* / listen_* may also refuse the target

    def drv(m):
        """`self.device.<m>` for every driver class: the method each class resolves to (method resolution order)"""
        pn = lambda p: "%s.Device.%s|pn53x.Device.%s|device.Device.%s" % (p, m, m, m)
        return [pn("pn531"), pn("pn532"), pn("pn533"), pn("rcs956"), pn("acr122"),
                "arygon.DeviceA.%s|" % m + pn("pn531"), "arygon.DeviceB.%s|" % m + pn("pn532"),
                "rcs380.Device.%s|device.Device.%s" % (m, m), "udp.Device.%s|device.Device.%s" % (m, m)]
    fs = [
        # ---- tag activation
        F("tag.activate", TAG, "activate", links={"activate_tt1": "tag.activate_tt1", "activate_tt2": "tag.activate_tt2",
                                                   "activate_tt3": "tag.activate_tt3", "activate_tt4": "tag.activate_tt4"}),
        F("tag.activate_tt1", TAG, "activate_tt1", links={"nfc.tag.tt1.activate": "tt1.activate"}),
        F("tag.activate_tt2", TAG, "activate_tt2", links={"nfc.tag.tt2.activate": "tt2.activate"}),
        F("tag.activate_tt3", TAG, "activate_tt3", links={"nfc.tag.tt3.activate": "tt3.activate"}),
        F("tag.activate_tt4", TAG, "activate_tt4", links={"nfc.tag.tt4.activate": "tt4.activate"}),
        F("tag.emulate", TAG, "emulate", benign=["nfc.tag.tt3.Type3TagEmulation"]),
        F("tt1.activate", T1, "activate", links={"nfc.tag.tt1_broadcom.activate": "tt1_broadcom.activate"}, benign=tag_ctors),
        F("tt1_broadcom.activate", "nfc.tag.tt1_broadcom", "activate", benign=tag_ctors),
        F("tt2.activate", T2, "activate", links={"nfc.tag.tt2_nxp.activate": "tt2_nxp.activate"}, benign=tag_ctors),
        F("tt2_nxp.activate", "nfc.tag.tt2_nxp", "activate", benign=tag_ctors),
        F("tt3.activate", T3, "activate", links={"nfc.tag.tt3_sony.activate": "tt3_sony.activate"}, benign=tag_ctors),
        F("tt3_sony.activate", "nfc.tag.tt3_sony", "activate", benign=tag_ctors),
        F("tt4.activate", T4, "activate", links={"Type4ATag": "tt4.Type4ATag.init", "Type4BTag": "tt4.Type4BTag.init"}),
        F("tt4.Type4ATag.init", T4, "Type4ATag.__init__", benign=["super(Type4ATag, self).__init__", "IsoDepInitiator"]),
        F("tt4.Type4BTag.init", T4, "Type4BTag.__init__", benign=["super(Type4BTag, self).__init__", "IsoDepInitiator"]),
        # ---- Tag.ndef
        F("tag.ndef", TAG, "Tag.ndef", decorated=True, benign=["self.NDEF"],
          links={"attr:ndef.has_changed": "tag.NDEF.has_changed"}),
        F("tag.NDEF.has_changed", TAG, "Tag.NDEF.has_changed", decorated=True,
          links={"self._read_ndef_data": ["tt1.ndef.read", "tt2.ndef.read", "tt3.ndef.read", "tt4.ndef.read"]}),
        F("tag.NDEF.octets.set", TAG, "Tag.NDEF.octets.setter", decorated=True,
          links={"self._write_ndef_data": ["tt1.ndef.write", "tt2.ndef.write", "tt3.ndef.write", "tt4.ndef.write"]},
          benign=["attr:self.capacity"]),
        # ---- Type 3
        F("tt3.polling", T3, "Type3Tag.polling"),
        F("tt3.is_present", T3, "Type3Tag._is_present", benign=["attr:self.identifier"]),
        F("tt3.read_without_encryption", T3, "Type3Tag.read_without_encryption", benign=["sc.pack", "bc.pack"]),
        F("tt3.read_from_ndef_service", T3, "Type3Tag.read_from_ndef_service", benign=["ServiceCode", "BlockCode"]),
        F("tt3.write_without_encryption", T3, "Type3Tag.write_without_encryption", benign=["sc.pack", "bc.pack"]),
        F("tt3.write_to_ndef_service", T3, "Type3Tag.write_to_ndef_service", benign=["ServiceCode", "BlockCode"]),
        F("tt3.ndef.read_attribute", T3, "Type3Tag.NDEF._read_attribute_data",
          links={"self._tag.read_from_ndef_service": "tt3.read_from_ndef_service"}, benign=["Type3TagCommandError"]),
        F("tt3.ndef.write_attribute", T3, "Type3Tag.NDEF._write_attribute_data",
          links={"self._tag.write_to_ndef_service": "tt3.write_to_ndef_service"}),
        F("tt3.ndef.read", T3, "Type3Tag.NDEF._read_ndef_data",
          links={"self._tag.polling": "tt3.polling", "self.tag.read_from_ndef_service": "tt3.read_from_ndef_service"}),
        F("tt3.ndef.write", T3, "Type3Tag.NDEF._write_ndef_data",
          links={"self._tag.write_to_ndef_service": "tt3.write_to_ndef_service"}),
        F("tt3.emu.process_command", T3, "Type3TagEmulation.process_command",
          sites={"self._process_command": ["IndexError"]}),
        F("tt3.emu.send_response", T3, "Type3TagEmulation.send_response"),
        # ---- Type 4 NDEF
        F("tt4.ndef.select_app", T4, "Type4Tag.NDEF._select_ndef_application", links={"self.tag.send_apdu": "tt4.send_apdu"}),
        F("tt4.ndef.select_fid", T4, "Type4Tag.NDEF._select_fid", links={"self.tag.send_apdu": "tt4.send_apdu"}),
        F("tt4.ndef.read_binary", T4, "Type4Tag.NDEF._read_binary", links={"self.tag.send_apdu": "tt4.send_apdu"}),
        F("tt4.ndef.update_binary", T4, "Type4Tag.NDEF._update_binary", links={"self.tag.send_apdu": "tt4.send_apdu"}),
        F("tt4.ndef.discover", T4, "Type4Tag.NDEF._discover_ndef",
          links={"self._select_ndef_application": "tt4.ndef.select_app", "self._select_fid": "tt4.ndef.select_fid",
                 "self._read_binary": "tt4.ndef.read_binary"}),
        F("tt4.ndef.read", T4, "Type4Tag.NDEF._read_ndef_data",
          links={"self._discover_ndef": "tt4.ndef.discover", "self._select_fid": "tt4.ndef.select_fid",
                 "self._read_binary": "tt4.ndef.read_binary"}),
        F("tt4.ndef.write", T4, "Type4Tag.NDEF._write_ndef_data", links={"self._update_binary": "tt4.ndef.update_binary"}),
        # ---- ContactlessFrontend
        F("clf.connect", CLF, "ContactlessFrontend.connect",
          sites={"terminate": ["KeyboardInterrupt"],        # stands for Ctrl-C arriving somewhere in the loop
                 "llcp_options['on-startup']": CB, "rdwr_options['on-startup']": CB, "card_options['on-startup']": CB,
                 "RemoteTarget": ["ValueError"]},
          benign=["nfc.llcp.llc.LogicalLinkController", "nfc.clf.LocalTarget"]),
        F("clf.rdwr_connect", CLF, "ContactlessFrontend._rdwr_connect",
          sites={"options['on-discover']": CB, "options['on-connect']": CB, "options['on-release']": CB,
                 "terminate": ["KeyboardInterrupt"], "self.device.turn_on_led_and_buzzer": [OS],
                 "self.device.turn_off_led_and_buzzer": [OS]},
          links={"nfc.tag.activate": "tag.activate",
                 "attr:tag.is_present": ["tt1.is_present", "tt2.is_present", "tt3.is_present", "tt4.is_present"]}),
        F("clf.llcp_connect", CLF, "ContactlessFrontend._llcp_connect",
          sites={"options['on-connect']": CB, "options['on-release']": CB},
          links={"llc.activate": "llc.activate", "llc.run": ["llc.run_as_initiator", "llc.run_as_target"]},
          benign=["eval", "DEP"]),
        F("clf.card_connect", CLF, "ContactlessFrontend._card_connect",
          sites={"options['on-discover']": CB, "options['on-connect']": CB, "options['on-release']": CB,
                 "terminate": ["KeyboardInterrupt"]},
          links={"nfc.tag.emulate": "tag.emulate", "tag.process_command": "tt3.emu.process_command",
                 "tag.send_response": "tt3.emu.send_response"}),
        F("clf.sense", CLF, "ContactlessFrontend.sense",
          links={"self.device.mute": mutes, "sense_tta": "clf.sense.tta", "sense_ttb": "clf.sense.ttb", "sense_ttf": "clf.sense.ttf",
                 "sense_dep": "clf.sense.dep"}),
        # sense() called with several targets: `if len(targets) == 1: raise error` is cut
        F("clf.sense.several", CLF, "ContactlessFrontend.sense", when={"len(targets) == 1": False},
          links={"self.device.mute": mutes, "sense_tta": "clf.sense.tta", "sense_ttb": "clf.sense.ttb",
                 "sense_ttf": "clf.sense.ttf", "sense_dep": "clf.sense.dep"}),
        F("clf.sense.tta", CLF, "ContactlessFrontend.sense.<locals>.sense_tta", links={"self.device.sense_tta": drv("sense_tta")}),
        F("clf.sense.ttb", CLF, "ContactlessFrontend.sense.<locals>.sense_ttb", links={"self.device.sense_ttb": drv("sense_ttb")}),
        F("clf.sense.ttf", CLF, "ContactlessFrontend.sense.<locals>.sense_ttf", links={"self.device.sense_ttf": drv("sense_ttf")}),
        F("clf.sense.dep", CLF, "ContactlessFrontend.sense.<locals>.sense_dep", links={"self.device.sense_dep": drv("sense_dep")}),
        F("clf.listen", CLF, "ContactlessFrontend.listen",
          links={"self.device.mute": mutes, "listen_tta": "clf.listen.tta", "listen_ttb": "clf.listen.ttb", "listen_ttf": "clf.listen.ttf",
                 "listen_dep": "clf.listen.dep"}),
        F("clf.listen.tta", CLF, "ContactlessFrontend.listen.<locals>.listen_tta", links={"self.device.listen_tta": drv("listen_tta")}),
        F("clf.listen.ttb", CLF, "ContactlessFrontend.listen.<locals>.listen_ttb", links={"self.device.listen_ttb": drv("listen_ttb")}),
        F("clf.listen.ttf", CLF, "ContactlessFrontend.listen.<locals>.listen_ttf", links={"self.device.listen_ttf": drv("listen_ttf")}),
        F("clf.listen.dep", CLF, "ContactlessFrontend.listen.<locals>.listen_dep", links={"self.device.listen_dep": drv("listen_dep")}),
        F("clf.init", CLF, "ContactlessFrontend.__init__"),
        F("clf.open", CLF, "ContactlessFrontend.open", links={"device.connect": "device.connect"}),
        F("clf.close", CLF, "ContactlessFrontend.close", links={"self.device.close": drv("close")}),
        # nfc.clf.device.connect: the transports and the drivers' init() functions report failures as IOError
        F("device.connect", "nfc.clf.device", "connect",
          sites={"transport.USB.find": [OS], "transport.TTY.find": [OS], "transport.USB": [OS], "transport.TTY": [OS],
                 "tty.close": [OS], "driver.init": [OS], "importlib.import_module": ["ImportError"]},
          benign=["sys.platform.startswith", "path.startswith"]),
        # `exchange = self.device.send_cmd_recv_rsp / send_rsp_recv_cmd; exchange(...)`: any of the translated drivers
        F("clf.exchange", CLF, "ContactlessFrontend.exchange", links={"exchange": drivers_cmd + drivers_rsp}),
        # ---- LLC
        # mac.activate: nfc.dep.Initiator.activate / Target.activate, which call sense() / listen() (`_stack_copies`)
        F("llc.activate", LLC, "LogicalLinkController.activate",
          sites={"pdu.decode": ["nfc.llcp.pdu.DecodeError"]},
          links={"mac.activate": ["dep.Initiator.activate.stack", "dep.Target.activate.stack"]},
          benign=["pdu.ParameterExchange", "pdu.encode"]),    # encodes the PAX PDU built just above
        F("llc.exchange", LLC, "LogicalLinkController.exchange",
          sites={"self.mac.exchange": [COMM, OS], "pdu.encode": ["nfc.llcp.pdu.EncodeError"],
                 "pdu.decode": ["nfc.llcp.pdu.DecodeError"]}),
        F("llc.terminate", LLC, "LogicalLinkController.terminate",
          sites={"self.mac.deactivate": [OS]}, benign=["pdu.Disconnect"],
          links={"self.sap[i].shutdown": ["llc.SAP.shutdown", "llc.SD.shutdown"]}),
    ]
    run_sites = {"terminate": ["KeyboardInterrupt"],
                 "sec.cipher_suite": ["nfc.llcp.sec.KeyAgreementError"],
                 "cipher.calculate_session_key": ["nfc.llcp.sec.KeyAgreementError"],
                 "self.collect": ["nfc.llcp.sec.EncryptionError"],
                 "self.dispatch": ["nfc.llcp.sec.DecryptionError"]}
    run_benign = ["pdu.DataProtectionSetup", "pdu.Symmetry", "pdu.Disconnect"]
    fs += [
        F("llc.run_as_initiator", LLC, "LogicalLinkController.run_as_initiator", sites=run_sites, benign=run_benign),
        F("llc.run_as_target", LLC, "LogicalLinkController.run_as_target", sites=run_sites, benign=run_benign),
    ]
    # ---- SNEP / handover server threads: the socket API raises nfc.llcp.Error only (C09); getpeername,
    # getsockopt and close of a socket object returned by accept() have nothing to raise (llc.py: ENOTSOCK only)
    sock = lambda name: {name + ".accept": [LLCERR], name + ".recv": [LLCERR], name + ".send": [LLCERR],
                         name + ".poll": [LLCERR], name + ".getpeername": [], name + ".getsockopt": [],
                         name + ".close": []}
    ND = {"ndef.message_decoder": ["ndef.DecodeError", "ValueError"], "ndef.message_encoder": ["ndef.EncodeError"]}
    fs += [
        F("snep.server.listen", "nfc.snep.server", "SnepServer._listen", sites=sock("listen_socket"),
          benign=["client_thread.start"]),
        F("snep.server.serve", "nfc.snep.server", "SnepServer._serve",
          sites=dict(sock("client_socket"), **{"struct.unpack_from": []}),
          links={"self.process_snep_request": "snep.server.process_request"},
          benign=["(log.debug if e.errno == nfc.llcp.errno.EPIPE else log.error)"]),
        F("snep.server.process_request", "nfc.snep.server", "SnepServer.process_snep_request",
          sites=dict(ND, **{"self.process_get_request": CB, "self.process_put_request": CB})),
        F("handover.server.listen", "nfc.handover.server", "HandoverServer.listen", sites=sock("socket"),
          benign=["client_thread.start", "(log.debug if error.errno == errno.EPIPE else log.error)"]),
        F("handover.server.serve", "nfc.handover.server", "HandoverServer.serve", sites=dict(sock("socket"), **ND),
          links={"self._process_request_data": "handover.server.process_request"},
          benign=["(log.debug if error.errno == errno.EPIPE else log.error)"]),
        F("handover.server.process_request", "nfc.handover.server", "HandoverServer._process_request_data",
          sites=dict(ND, **{"self.process_handover_request_message": CB})),
    ]
    return fs

def _tag_ops():
    """format / protect / authenticate of the tag types and the vendor variants (C16)"""
    TAG = "nfc.tag"
    cls_specs, prefix, funcs = [], {}, []
    ops = {"_format", "_protect", "_authenticate", "_protect_with_lockbits", "_protect_with_password", "authenticate",
           "protect", "format", "signature", "read_without_mac", "read_with_mac", "write_without_mac", "write_with_mac",
           "request_service", "request_response", "search_service_code", "request_system_code", "_is_present",
           "generate_mac"}
    table = [
        # (id prefix, module, class, id prefixes searched for `self.<m>`: the class, its bases, then the type module)
        ("tt1_broadcom.Topaz", "nfc.tag.tt1_broadcom", "Topaz", ["tt1_broadcom.Topaz", "tt1.Type1Tag", "tt1"]),
        ("tt1_broadcom.Topaz512", "nfc.tag.tt1_broadcom", "Topaz512", ["tt1_broadcom.Topaz512", "tt1.Type1Tag", "tt1"]),
        ("tt1.Type1Tag", "nfc.tag.tt1", "Type1Tag", ["tt1.Type1Tag", "tt1"]),
        ("tt2.Type2Tag", "nfc.tag.tt2", "Type2Tag", ["tt2.Type2Tag", "tt2"]),
        ("tt2_nxp.MifareUltralightC", "nfc.tag.tt2_nxp", "MifareUltralightC", ["tt2_nxp.MifareUltralightC", "tt2.Type2Tag", "tt2"]),
        ("tt2_nxp.NTAG203", "nfc.tag.tt2_nxp", "NTAG203", ["tt2_nxp.NTAG203", "tt2.Type2Tag", "tt2"]),
        ("tt2_nxp.NTAG21x", "nfc.tag.tt2_nxp", "NTAG21x", ["tt2_nxp.NTAG21x", "tt2.Type2Tag", "tt2"]),
        ("tt3_sony.FelicaStandard", "nfc.tag.tt3_sony", "FelicaStandard", ["tt3_sony.FelicaStandard", "tt3.Type3Tag", "tt3"]),
        ("tt3_sony.FelicaLite", "nfc.tag.tt3_sony", "FelicaLite", ["tt3_sony.FelicaLite", "tt3.Type3Tag", "tt3"]),
        ("tt3_sony.FelicaLiteS", "nfc.tag.tt3_sony", "FelicaLiteS", ["tt3_sony.FelicaLiteS", "tt3_sony.FelicaLite", "tt3.Type3Tag", "tt3"]),
        ("tt3.Type3Tag", "nfc.tag.tt3", "Type3Tag", ["tt3.Type3Tag", "tt3"]),
        ("tt4.Type4Tag", "nfc.tag.tt4", "Type4Tag", ["tt4.Type4Tag", "tt4"]),
    ]
    for n in ("NTAG210", "NTAG212", "NTAG213", "NTAG215", "NTAG216"):
        table.append(("tt2_nxp." + n, "nfc.tag.tt2_nxp", n, ["tt2_nxp." + n, "tt2_nxp.NTAG21x", "tt2.Type2Tag", "tt2"]))
    all_impl = lambda m: [t[0] + "." + m for t in table]
    for idp, module, cls, search in table:
        sup = "super(%s, self)." % cls
        per = {}
        for m in sorted(ops):
            # super(C, self).<m>: the definitions up the hierarchy, in the end nfc.tag.Tag.<m>
            up = [p + "." + m for p in search[1:-1]] + (["tag.Tag." + m] if m in ("protect", "format", "authenticate") else [])
            if m == "_is_present":
                up += [search[-1] + ".is_present"]
            per[m] = {"links": {sup + m: up}}
        if cls == "FelicaLiteS":
            per["protect"]["links"]["super(FelicaLite, self).protect"] = ["tt3.Type3Tag.protect", "tag.Tag.protect"]
        if cls == "Type4Tag":
            per["_format"]["links"].update({"self.ndef._wipe_ndef_data": "tt4.ndef.wipe"})
        base_type = idp in ("tt1.Type1Tag", "tt2.Type2Tag", "tt3.Type3Tag", "tt4.Type4Tag")
        cls_specs.append((idp, module, cls, {"only": ops - ({"_is_present"} if base_type else set()), "per": per,
                                             "kw": {"benign": ["triple_des", "triple_des(key, CBC, iv).decrypt",
                                                               "triple_des(key, CBC, iv).encrypt",
                                                               "triple_des(key, CBC, b'\\x00' * 8).encrypt", "os.urandom",
                                                               "ServiceCode", "BlockCode", "tt3.ServiceCode", "tt3.BlockCode",
                                                               "sc.pack", "bc.pack", "flip", "self.generate_mac",
                                                               "attr:self.identifier", "Type2TagMemoryReader"]}}))
        prefix[(module, cls)] = [("self.", search)]
    # the memory readers and `self.ndef` (a property: reads the tag) wherever the tag modules use them
    mem1 = {"tt1.Type1TagMemoryReader": "tt1.mem.init", "Type1TagMemoryReader": "tt1.mem.init",
            "item:tag_memory": "tt1.mem.getitem", "setitem:tag_memory": "tt1.mem.setitem",
            "tag_memory.synchronize": "tt1.mem.synchronize", "attr:self.ndef": "tag.ndef"}
    mem2 = {"item:tag_memory": "tt2.mem.getitem", "setitem:tag_memory": "tt2.mem.setitem", "item:memory": "tt2.mem.getitem",
            "setitem:memory": "tt2.mem.setitem", "tag_memory.synchronize": "tt2.mem.synchronize",
            "memory.synchronize": "tt2.mem.synchronize", "read_tlv": "tt2.read_tlv", "attr:self.ndef": "tag.ndef"}
    scoped = {("nfc.tag.tt1_broadcom", None): mem1, ("nfc.tag.tt1", "Type1Tag"): mem1,
              ("nfc.tag.tt2", "Type2Tag"): mem2, ("nfc.tag.tt2_nxp", None): {"attr:self.ndef": "tag.ndef"},
              ("nfc.tag.tt3_sony", None): {"attr:self.ndef": "tag.ndef"}, ("nfc.tag.tt3", "Type3Tag"): {"attr:self.ndef": "tag.ndef"},
              ("nfc.tag.tt4", "Type4Tag"): {"attr:self.ndef": "tag.ndef"}}
    funcs.append(F("tt4.ndef.wipe", "nfc.tag.tt4", "Type4Tag.NDEF._wipe_ndef_data",
                   links={"self._update_binary": "tt4.ndef.update_binary"}, benign=["attr:self.capacity"]))
    # nfc.tag.Tag.format / protect / authenticate dispatch to the `_format` ... of whatever tag it is
    for m in ("format", "protect", "authenticate"):
        funcs.append(F("tag.Tag." + m, TAG, "Tag." + m, links={"self._" + m: all_impl("_" + m)}))
    return funcs, cls_specs, prefix, scoped



def _dep():
    """nfc/dep.py: NFC-DEP Initiator and Target (C04, C07).  Layer boundary: `ContactlessFrontend.exchange` raises
    `CommunicationError` subclasses (GLOBAL_SITES), `sense()` / `listen()` raise what the code itself anticipates:
    `CommunicationError` subclasses or `UnsupportedTargetError` (the documented class of a single unsupported target).
    `Props/ExcFlowDep.lean` re-states the theorems with `IOError` added at the three sites."""
    DEP = "nfc.dep"
    BOUNDARY = [COMM, "nfc.clf.UnsupportedTargetError"]
    # constructors of the PDU classes (plain attribute assignments) and of the targets (literal bitrate strings)
    ctors = ["ATR_REQ", "ATR_RES", "PSL_REQ", "PSL_RES", "DEP_REQ", "DEP_RES", "DSL_REQ", "DSL_RES", "RLS_REQ", "RLS_RES",
             "DEP_REQ.PFB", "DEP_RES.PFB", "cls.PFB", "RES", "nfc.clf.RemoteTarget", "nfc.clf.LocalTarget"]
    I, T = "dep.Initiator.", "dep.Target."
    enc_req = ["dep.ATR_REQ.encode", "dep.PSL_REQ.encode", "dep.DEP_REQ_RES.encode", "dep.DSL_REQ_RES.encode"]
    enc_res = ["dep.ATR_RES.encode", "dep.PSL_RES.encode", "dep.DEP_REQ_RES.encode", "dep.DSL_REQ_RES.encode"]
    dec_res = ["dep.ATR_RES.decode", "dep.PSL_REQ_RES.decode", "dep.DEP_REQ_RES.decode", "dep.DSL_REQ_RES.decode"]
    dec_req = ["dep.ATR_REQ.decode", "dep.PSL_REQ_RES.decode", "dep.DEP_REQ_RES.decode", "dep.DSL_REQ_RES.decode"]
    L = "<locals>."
    fs = [
        # ---- Initiator
        F(I + "activate", DEP, "Initiator.activate", sites={"self.clf.sense": BOUNDARY}, benign=ctors,
          links={"atr_req.encode": "dep.ATR_REQ.encode", "ATR_RES.decode": "dep.ATR_RES.decode"}),
        F(I + "deactivate", DEP, "Initiator.deactivate", benign=ctors),
        F(I + "exchange", DEP, "Initiator.exchange",
          links={"INF": I + "exchange.INF", "ACK": I + "exchange.ACK", "RTOX": I + "exchange.RTOX"}),
        F(I + "exchange.INF", DEP, "Initiator.exchange." + L + "INF", benign=ctors),
        F(I + "exchange.ACK", DEP, "Initiator.exchange." + L + "ACK", benign=ctors),
        F(I + "exchange.RTOX", DEP, "Initiator.exchange." + L + "RTOX", benign=ctors),
        F(I + "send_dep_req_recv_dep_res", DEP, "Initiator.send_dep_req_recv_dep_res",
          links={"request_attention": I + "request_attention", "request_retransmission": I + "request_retransmission"}),
        F(I + "NAK", DEP, "Initiator.send_dep_req_recv_dep_res." + L + "NAK", benign=ctors),
        F(I + "ATN", DEP, "Initiator.send_dep_req_recv_dep_res." + L + "ATN", benign=ctors),
        F(I + "request_attention", DEP, "Initiator.send_dep_req_recv_dep_res." + L + "request_attention",
          links={"ATN": I + "ATN"}),
        F(I + "request_retransmission", DEP, "Initiator.send_dep_req_recv_dep_res." + L + "request_retransmission",
          links={"NAK": I + "NAK"}),
        F(I + "send_req_recv_res", DEP, "Initiator.send_req_recv_res"),
        F(I + "encode_frame", DEP, "Initiator.encode_frame", links={"packet.encode": enc_req}),
        # `eval(<one of five literal names> + "_RES")`: evaluates to a class of this module
        F(I + "decode_frame", DEP, "Initiator.decode_frame", benign=["eval"],
          links={"eval(res_name[frame[1]] + '_RES').decode": dec_res}),
        # ---- Target
        F(T + "activate", DEP, "Target.activate", sites={"self.clf.listen": BOUNDARY}, benign=ctors + ["pow"],
          links={"atr_res.encode": "dep.ATR_RES.encode", "ATR_REQ.decode": "dep.ATR_REQ.decode"}),
        F(T + "deactivate", DEP, "Target.deactivate"),
        F(T + "_deactivate", DEP, "Target._deactivate", benign=ctors,
          links={"INF": T + "_deactivate.INF", "ATN": T + "_deactivate.ATN"}),
        F(T + "_deactivate.INF", DEP, "Target._deactivate." + L + "INF", benign=ctors),
        F(T + "_deactivate.ATN", DEP, "Target._deactivate." + L + "ATN", benign=ctors),
        F(T + "exchange", DEP, "Target.exchange", links={"INF": T + "exchange.INF", "ACK": T + "exchange.ACK"}),
        F(T + "exchange.INF", DEP, "Target.exchange." + L + "INF", benign=ctors),
        F(T + "exchange.ACK", DEP, "Target.exchange." + L + "ACK", benign=ctors),
        F(T + "send_timeout_extension", DEP, "Target.send_timeout_extension", links={"RTOX": T + "send_timeout_extension.RTOX"}),
        F(T + "send_timeout_extension.RTOX", DEP, "Target.send_timeout_extension." + L + "RTOX", benign=ctors),
        F(T + "send_dep_res_recv_dep_req", DEP, "Target.send_dep_res_recv_dep_req", benign=ctors,
          links={"ATN": T + "send_dep_res_recv_dep_req.ATN"}),
        F(T + "send_dep_res_recv_dep_req.ATN", DEP, "Target.send_dep_res_recv_dep_req." + L + "ATN", benign=ctors),
        F(T + "send_res_recv_req", DEP, "Target.send_res_recv_req"),
        F(T + "encode_frame", DEP, "Target.encode_frame", links={"packet.encode": enc_res}),
        F(T + "decode_frame", DEP, "Target.decode_frame", benign=["eval"],
          links={"eval(req_name[frame[1]] + '_REQ').decode": dec_req}),
        # ---- protocol data units
        F("dep.ATR_REQ.decode", DEP, "ATR_REQ.decode", decorated=True, benign=ctors),
        F("dep.ATR_REQ.encode", DEP, "ATR_REQ.encode"),
        F("dep.ATR_RES.decode", DEP, "ATR_RES.decode", decorated=True, benign=ctors),
        F("dep.ATR_RES.encode", DEP, "ATR_RES.encode"),
        # `cls(*data[2:])`: PSL_REQ takes three, PSL_RES one positional argument - any other count is a TypeError
        F("dep.PSL_REQ_RES.decode", DEP, "PSL_REQ_RES.decode", decorated=True, sites={"cls": ["TypeError"]}),
        F("dep.PSL_REQ.encode", DEP, "PSL_REQ.encode"),
        F("dep.PSL_RES.encode", DEP, "PSL_RES.encode"),
        # `data.pop(0)` on a bytearray that may be empty: IndexError (the handler turns it into ProtocolError)
        F("dep.DEP_REQ_RES.decode", DEP, "DEP_REQ_RES.decode", decorated=True, sites={"data.pop": ["IndexError"]},
          benign=["cls", "cls.PFB"]),
        F("dep.DEP_REQ_RES.encode", DEP, "DEP_REQ_RES.encode"),
        F("dep.DSL_REQ_RES.decode", DEP, "DSL_REQ_RES.decode", decorated=True, benign=["cls"]),
        F("dep.DSL_REQ_RES.encode", DEP, "DSL_REQ_RES.encode"),
    ]
    return fs



def _sock():
    """LLCP socket API (C09, C17, C05): nfc/llcp/tco.py (the three socket kinds), the socket API of
    LogicalLinkController with ServiceAccessPoint / ServiceDiscovery, nfc/llcp/socket.py, and collect / dispatch of the
    link loop.  No layer boundary below: the only primitive sites are the data operations whose exception is part of
    the mechanism (an empty deque, a full address range, a missing dictionary key, a service name that is not latin-1)."""
    TCO, LLC, SOCK = "nfc.llcp.tco", "nfc.llcp.llc", "nfc.llcp.socket"
    # constructors: PDU classes (plain attribute assignments; field ranges are checked by encode), sockets, SAPs
    ctors = ["pdu.UnnumberedInformation", "pdu.ConnectionComplete", "pdu.Connect", "pdu.Information", "pdu.Disconnect",
             "pdu.DisconnectedMode", "pdu.FrameReject.from_pdu", "pdu.ServiceNameLookup", "pdu.AggregatedFrame", "ACK",
             "DataLinkConnection", "tco.RawAccessPoint", "tco.LogicalDataLink", "tco.DataLinkConnection",
             "ServiceAccessPoint", "pdu_type"]
    cls_specs, prefix, funcs = [], {}, []
    skip = {"__init__", "__str__"}
    # an empty deque: `popleft()` raises IndexError - this is how a blocked recv()/accept()/connect() learns that the
    # socket was closed (close() clears the queue and notifies)
    tco_per = {"recv": {"sites": {"self.recv_queue.popleft": ["IndexError"]}},
               "dequeue": {"sites": {"self.send_queue.popleft": ["IndexError"]}}}
    cls_specs.append(("tco.TCO", TCO, "TransmissionControlObject", {"exclude": skip, "per": tco_per, "kw": {"benign": ctors}}))
    prefix[(TCO, "TransmissionControlObject")] = [("self.", ["tco.TCO"])]
    # a str destination that is not latin-1: `.encode('latin')` raises UnicodeEncodeError
    ENC = {"name.encode": ["UnicodeEncodeError"], "addr_or_name.encode": ["UnicodeEncodeError"], "dest.encode": ["UnicodeEncodeError"]}
    for idp, cls in (("tco.RAW", "RawAccessPoint"), ("tco.LDL", "LogicalDataLink"), ("tco.DLC", "DataLinkConnection")):
        per = {}
        for m in ("setsockopt", "getsockopt", "poll", "send", "recv", "close", "enqueue", "dequeue"):
            per[m] = {"links": {"super(%s, self).%s" % (cls, m): "tco.TCO." + m}}
        # `poll = super(C, self).poll; poll(event, timeout)`
        per["poll"]["links"]["poll"] = "tco.TCO.poll"
        for m, sup in (("sendto", "send"), ("recvfrom", "recv"), ("accept", "recv"), ("connect", "recv"), ("_poll", "poll"),
                       ("_enqueue_state_established", "enqueue")):
            per[m] = {"links": {"super(%s, self).%s" % (cls, sup): "tco.TCO." + sup}}
        per["close"]["links"]["super(%s, self).recv" % cls] = "tco.TCO.recv"     # DataLinkConnection.close waits for the DM
        per["connect"]["sites"] = ENC
        cls_specs.append((idp, TCO, cls, {"exclude": skip, "per": per, "kw": {"benign": ctors}}))
        prefix[(TCO, cls)] = [("self.", [idp, "tco.TCO"])]
    # `socket.<m>(...)` on a socket of any of the three kinds: the method each kind resolves to
    any_kind = lambda m: ["tco.RAW.%s|tco.TCO.%s" % (m, m), "tco.LDL.%s|tco.TCO.%s" % (m, m), "tco.DLC.%s|tco.TCO.%s" % (m, m)]
    # ---- service access points
    cls_specs.append(("llc.SAP", LLC, "ServiceAccessPoint",
                      {"exclude": skip,
                       # empty deques / a socket that is not in the list: the handlers next to these calls are the mechanism
                       "per": {"dequeue": {"sites": {"self.send_list.popleft": ["IndexError"]}},
                               "shutdown": {"sites": {"self.sock_list.pop": ["IndexError"]}},
                               "remove_socket": {"sites": {"self.sock_list.remove": ["ValueError"]}},
                               "insert_socket": {"sites": {"expr:self.sock_list[0]": ["IndexError"]}}},
                       "kw": {"benign": ctors,
                              "links": {"socket.bind": any_kind("bind"), "socket.close": any_kind("close"),
                                        "socket.enqueue": any_kind("enqueue"), "socket.dequeue": any_kind("dequeue"),
                                        # called for SAPs in DATA_LINK_CONNECTION mode only (collect)
                                        "socket.sendack": "tco.DLC.sendack", "self.send": "llc.SAP.send"}}}))
    cls_specs.append(("llc.SD", LLC, "ServiceDiscovery",
                      {"exclude": skip, "kw": {"benign": ctors},
                       "per": {"resolve": {"sites": {"random.choice": ["IndexError"],      # all 256 transaction identifiers in use
                                                     "expr:self.snl[name]#1": ["KeyError"]}},   # the name is not yet resolved
                               "enqueue": {"sites": {"expr:self.sent[tid]": ["KeyError"], "expr:self.llc.snl[name]": ["KeyError"]}},
                               "dequeue": {"sites": {"self.sdres.popleft": ["IndexError"]}, "benign": ctors + ["self.sdreq.rotate"]}}}))
    saps = lambda m: ["llc.SAP." + m, "llc.SD." + m]
    # ---- the socket API of the link controller
    api = {"socket.setsockopt": any_kind("setsockopt"), "socket.getsockopt": any_kind("getsockopt"),
           "socket.bind": any_kind("bind"), "socket.poll": any_kind("poll"), "socket.close": any_kind("close"),
           "socket.connect": ["tco.LDL.connect", "tco.DLC.connect"],
           # each of the following calls is guarded by an isinstance test of the socket kind in the same function
           "socket.listen": "tco.DLC.listen", "socket.accept": "tco.DLC.accept", "socket.send": ["tco.RAW.send", "tco.DLC.send"],
           "socket.sendto": "tco.LDL.sendto", "socket.recv": ["tco.RAW.recv", "tco.DLC.recv"], "socket.recvfrom": "tco.LDL.recvfrom",
           "sap.resolve": "llc.SD.resolve", "sap.insert_socket": "llc.SAP.insert_socket",
           "sap.remove_socket": "llc.SAP.remove_socket", "self.sap[addr].insert_socket": "llc.SAP.insert_socket",
           "client.bind": "tco.TCO.bind", "client.close": "tco.DLC.close"}
    only = {"resolve", "socket", "setsockopt", "getsockopt", "bind", "_bind", "_bind_by_none", "_bind_by_addr", "_bind_by_name",
            "connect", "listen", "accept", "send", "sendto", "recv", "recvfrom", "poll", "close", "getsockname", "getpeername"}
    nobind = {"links": dict(api, **{"self.bind": "llc.bind.none"})}      # `self.bind(socket)`: no address or name
    per = {"resolve": {"sites": ENC}, "_bind": {"sites": ENC},
           # no free address: `list.index(None)` raises ValueError (mapped to EAGAIN / EADDRNOTAVAIL)
           "_bind_by_none": {"sites": {"self.sap[32:64].index": ["ValueError"]}},
           "_bind_by_name": {"sites": {"self.sap[16:32].index": ["ValueError"]}, "benign": ctors + ["service_name_format.match"]},
           "connect": nobind, "listen": nobind, "sendto": nobind}
    cls_specs.append(("llc", LLC, "LogicalLinkController", {"only": only, "per": per, "kw": {"benign": ctors, "links": api}}))
    funcs += [
        F("llc.bind.none", LLC, "LogicalLinkController.bind", copy=True, links={"self._bind": "llc._bind.none"}),
        F("llc._bind.none", LLC, "LogicalLinkController._bind", when={"addr_or_name is None": True}),
    ]
    # ---- collect / dispatch of the link loop
    sec_sites = {"self.sec.encrypt": ["nfc.llcp.sec.EncryptionError"], "self.sec.decrypt": ["nfc.llcp.sec.DecryptionError"],
                 # re-coding of the header of a UI / I PDU around the cipher
                 "send_pdu.encode_header": ["nfc.llcp.pdu.EncodeError"], "rcvd_pdu.encode_header": ["nfc.llcp.pdu.EncodeError"],
                 "pdu_type.decode_header": ["nfc.llcp.pdu.DecodeError"]}
    funcs += [
        F("llc.collect", LLC, "LogicalLinkController.collect", benign=ctors + ["agf_pdu.append"],
          links={"encrypt": "llc.collect.encrypt", "sap.dequeue": saps("dequeue"), "sap.sendack": "llc.SAP.sendack"}),
        F("llc.collect.encrypt", LLC, "LogicalLinkController.collect.<locals>.encrypt", sites=sec_sites, benign=ctors),
        # an AGF PDU is never nested (pdu.decode refuses it): the inner call is the copy with the AGF branch cut
        F("llc.dispatch", LLC, "LogicalLinkController.dispatch", sites=sec_sites, benign=ctors,
          links={"self.dispatch": "llc.dispatch.inner", "sap.enqueue": saps("enqueue")}),
        F("llc.dispatch.inner", LLC, "LogicalLinkController.dispatch", when={"rcvd_pdu.name == 'AGF'": False},
          sites=sec_sites, benign=ctors, links={"sap.enqueue": saps("enqueue")}),
    ]
    # ---- nfc.llcp.Socket
    cls_specs.append(("sock.Socket", SOCK, "Socket", {"exclude": {"__str__"}, "kw": {"links": {"Socket": "sock.Socket.__init__",
                                                                                                 "llc.socket": "llc.socket"}}}))
    prefix[(SOCK, "Socket")] = [("self.llc.", ["llc"])]
    return funcs, cls_specs, prefix



def _clients():
    """SNEP and handover clients (C06, C07, C09).  Layer boundary as for the server threads (`_stack`): the socket API
    raises `nfc.llcp.Error` only (group `sock`: proved up to the residual named there), ndeflib raises
    `DecodeError` / `ValueError` when decoding and `EncodeError` when encoding; `close()` / `getpeername()` of a socket
    object have nothing to raise (llc.py: ENOTSOCK only)."""
    SNEP, HO = "nfc.snep.client", "nfc.handover.client"
    LLCERR = "nfc.llcp.err.Error"
    sock = lambda name: {name + ".connect": [LLCERR], name + ".recv": [LLCERR], name + ".send": [LLCERR],
                         name + ".poll": [LLCERR], name + ".setsockopt": [LLCERR], name + ".getsockopt": [LLCERR],
                         name + ".getpeername": [], name + ".close": []}
    ND = {"ndef.message_decoder": ["ndef.DecodeError", "ValueError"], "ndef.message_encoder": ["ndef.EncodeError"]}
    ctor = ["nfc.llcp.Socket"]           # Socket.__init__ -> llc.socket(): raises nothing (group sock)
    S = dict(sock("self.socket"), **ND)
    fs = [
        F("snep.client.send_request", SNEP, "send_request", sites=sock("socket")),
        F("snep.client.recv_response", SNEP, "recv_response", sites=sock("socket")),
    ]
    for m in ("connect", "close", "get_records", "get_octets", "put_records", "put_octets", "__enter__", "__exit__"):
        fs.append(F("snep.client." + m, SNEP, "SnepClient." + m, sites=S, benign=ctor,
                    links={"send_request": "snep.client.send_request", "recv_response": "snep.client.recv_response"}))
    H = dict(sock("self.socket"), **dict(sock("socket"), **ND))
    for m in ("connect", "close", "send_records", "send_octets", "recv_records", "recv_octets", "__enter__", "__exit__"):
        fs.append(F("handover.client." + m, HO, "HandoverClient." + m, sites=H, benign=ctor))
    return fs



def _stack_copies():
    """`connect(llcp=...)` from the frontend down to the drivers: `LogicalLinkController.activate` calls
    `nfc.dep.Initiator/Target.activate` in the copies below, which *call* `ContactlessFrontend.sense()` / `listen()`
    (and through them every driver's `sense_*` / `listen_dep`) instead of assuming what they raise.  (`Props/ExcFlowDep.lean`
    keeps the statements about `activate` under the layer boundary assumption.)  What remains assumed on this path:
    `clf.exchange` raises `CommunicationError` subclasses (proved of the drivers up to the residual of
    `clf_exchange_escapes`), `mac.exchange` / `mac.deactivate` as in `llc.exchange` / `llc.terminate`."""
    dep = {s["id"]: s for s in _dep()}
    stack = {s["id"]: s for s in _stack()}

    def copy(src, new_id, links, **kw):
        d = dict(src)
        d.update(id=new_id, copy=True, links=dict(src.get("links", {}), **links),
                 sites={k: v for k, v in src.get("sites", {}).items() if k not in links})
        d.update(kw)
        return d
    return [
        # listen() for a peer-to-peer target (`atr_res` set, as `Target.activate` does): the `listen_dep` branch
        dict(stack["clf.listen"], id="clf.listen.p2p", when={"target.atr_res is not None": True}),
        # ATR_REQ.decode of an ATR_REQ that `ContactlessFrontend.listen` returned: `listen_dep` of clf/__init__.py has
        # checked 16 <= len(atr_req) <= 64 (a shorter one makes listen() return None), the length test cannot fail
        dict(dep["dep.ATR_REQ.decode"], id="dep.ATR_REQ.decode.checked", when={"len(data) < 16": False}),
        copy(dep["dep.Target.activate"], "dep.Target.activate.stack",
             {"self.clf.listen": "clf.listen.p2p", "ATR_REQ.decode": "dep.ATR_REQ.decode.checked"}),
        copy(dep["dep.Initiator.activate"], "dep.Initiator.activate.stack", {"self.clf.sense": "clf.sense"}),
    ]


def _transport():
    """nfc/clf/transport.py: the two host transports, with the primitive assumption at pyserial / libusb1 (C13, C14).
    pyserial: the constructor, `read`, `write`, `flushInput`, `flushOutput` and setting `timeout` on an open port report
    failures as `SerialException` (an IOError; `write` with a write timeout: the subclass `SerialTimeoutException`);
    `close()` does not raise.  libusb1: every call that reaches libusb (`getDeviceList`, string descriptors, `open`,
    `claimInterface`, `bulkRead`, `bulkWrite`, iterating the configuration) may raise any `USBError` subclass; the
    accessors of descriptor objects already read (`getBusNumber`, `getDeviceAddress`, `getAddress`, `getAttributes`,
    `getMaxPacketSize`, `iterEndpoints`) and `USBDeviceHandle.close()` do not raise."""
    TR = "nfc.clf.transport"
    SER, USBE = "serial.SerialException", "usb1.USBError"
    quiet = ["dev.getBusNumber", "dev.getDeviceAddress", "first_setting.iterEndpoints", "endpoint.getAddress",
             "endpoint.getAttributes", "transfer_type", "endpoint_dir", "self.usb_inp.getAddress", "self.usb_out.getAddress",
             "self.usb_out.getMaxPacketSize", "self.usb_dev.close", "self.tty.close"]
    return [
        F("tty.__init__", TR, "TTY.__init__"),
        F("tty.open", TR, "TTY.open", sites={"serial.Serial": [SER]}),
        F("tty.read", TR, "TTY.read", sites={"self.tty.read": [SER], "setattr:self.tty.timeout": [SER]}),
        F("tty.write", TR, "TTY.write", sites={"self.tty.flushInput": [SER], "self.tty.write": [SER]}),
        F("tty.close", TR, "TTY.close", sites={"self.tty.flushOutput": [SER]}, benign=quiet),
        F("usb.__init__", TR, "USB.__init__", sites={"libusb.USBContext": [USBE]}),
        F("usb.open", TR, "USB.open", benign=quiet,
          sites={"self.context.getDeviceList": [USBE], "dev.iterSettings": [USBE], "next": ["StopIteration", USBE],
                 "dev.getManufacturer": [USBE], "dev.getProduct": [USBE], "dev.open": [USBE],
                 "self.usb_dev.claimInterface": [USBE]}),
        F("usb.read", TR, "USB.read", sites={"self.usb_dev.bulkRead": [USBE]}, benign=quiet),
        F("usb.write", TR, "USB.write", sites={"self.usb_dev.bulkWrite": [USBE]}, benign=quiet),
        F("usb.close", TR, "USB.close", benign=quiet),
    ]


Config.FUNCS = _tags()
_f, _c, _p = _drivers()
Config.FUNCS = Config.FUNCS + _f + _stack()
_f2, _c2, _p2, _s2 = _tag_ops()
Config.SCOPED_LINKS = _s2
_f3, _c3, _p3 = _sock()
Config.FUNCS = Config.FUNCS + _f2 + _dep() + _f3 + _clients() + _stack_copies() + _transport()
Config.CLASS_SPECS = _c + _c2 + _c3
Config.PREFIX_LINKS = dict(list(_p.items()) + list(_p2.items()) + list(_p3.items()))
# abstract methods that every concrete driver overrides: not a dispatch target
Config.ABSTRACT = {"pn53x.Chipset._read_register", "pn53x.Chipset._write_register", "pn53x.Device._init_as_target"}
Config.GLOBAL_SITES.update({
    # host link of the drivers: the transport reports failures as IOError (ETIMEDOUT, EIO, ENODEV ...)
    "self.transport.*": ["OSError"],
    "self.socket.*": ["OSError"],
    "select.select": ["OSError"],
})
Config.FACTORIES[("nfc.clf.pn53x", "self.chipset_error")] = "TypeError"   # `raise f()` with f returning None


if __name__ == "__main__":
    root = sys.argv[1] if len(sys.argv) > 1 else os.environ.get("NFCPY_REPO", "/repo")
    gen = sys.argv[2] if len(sys.argv) > 2 else default_gen_dir()
    tr = emit(root, gen)
    verbose = "-v" in sys.argv
    for spec in tr.specs:
        term, ft = tr.results[spec["id"]]
        if ft is None:
            print("MISSING", spec["id"])
            continue
        print("%-44s line %-5d sites=%d others=%d unknown=%d" % (spec["id"], spec["_fn"].lineno, len(ft.used_sites),
                                                                   len(ft.others), len(ft.unknown)))
        for o in ft.others:
            print("    OTHER   line %d: %s" % o)
        for o in ft.dead_handlers:
            print("    DEAD-HANDLER line %d: except %s (no site in the try body)" % o)
        for u in ft.unknown:
            print("    UNKNOWN line %d: %s" % u)
        if verbose:
            for u in ft.used_sites:
                print("    site    line %d %s %s" % u)
            print("    benign:", sorted(set(ft.benign)))
