"""Translator (T-tie for pure byte-level functions): a Python subset -> Lean 4.

`emit(repo_root, out_dir)` re-reads the functions named in `SPECS` from `<repo_root>/src/nfc` with `ast`
(nothing of /repo is imported or executed) and writes `Gen/Fn<Group>.lean`, one Lean definition per
function, in terms of the prelude `NfcVerif/PyFn.lean`.  The bridge theorems in `Props/FnBridge*.lean`
state, for all inputs, that each regenerated definition equals the hand-written model function.

Faithful or refuse: a construct outside the supported subset (docs/fn_translator.md) turns the whole
function into `def <name> : PyFn.Unsupported := .mk "<reason>"`, which no bridge theorem type-checks
against.  The output is deterministic (no timestamps, stable fresh names).
"""
import ast
import os
import re
import sys

# ----------------------------------------------------------------------------- types
INT, BOOL, BYTES, STR, NONE, ANY, SET = "int", "bool", "bytes", "str", "none", "any", "set"


def TUP(*ts):
    return ("tuple",) + tuple(ts)


def OPT(t):
    return ("opt", t)


def LIST(t):
    return ("list", t)


def lean_type(t):
    if t == INT:
        return "Int"
    if t == BOOL:
        return "Bool"
    if t == BYTES:
        return "Bytes"
    if t == STR:
        return "String"
    if t == NONE:
        return "Unit"
    if t == ANY:
        return "PyFn.Val"
    if t == SET:
        return "List Int"
    if isinstance(t, tuple) and t[0] == "tuple":
        return "(" + " × ".join(lean_type(x) for x in t[1:]) + ")"
    if isinstance(t, tuple) and t[0] == "opt":
        return "(Option %s)" % lean_type(t[1])
    if isinstance(t, tuple) and t[0] == "list":
        return "(List %s)" % lean_type(t[1])
    if isinstance(t, tuple) and t[0] == "rec":
        fields = RECORDS.get(t[1])
        if fields is None:
            raise Refuse("record class %s is not declared" % t[1])
        if not fields:
            return "Unit"
        if len(fields) == 1:
            return lean_type(fields[0][1])
        return "(" + " × ".join(lean_type(ft) for _, ft in fields) + ")"
    raise Refuse("no Lean type for %r" % (t,))


def REC(name):
    return ("rec", name)


OTHER_MODULES = {}
RECORDS = {}     # class name -> [(constructor parameter, type)] of the function being translated


class Refuse(Exception):
    pass


LEAN_RESERVED = {
    "end", "from", "at", "fun", "show", "have", "open", "in", "do", "then", "else", "if", "let", "match", "with",
    "by", "where", "instance", "class", "structure", "def", "theorem", "example", "namespace", "section", "import",
    "type", "Type", "Prop", "Sort", "forall", "exists", "using", "deriving", "mutual", "local", "private", "set",
    "return", "for", "unless", "try", "catch", "finally", "macro", "syntax", "notation", "universe", "variable",
    "protected", "partial", "abbrev", "inductive", "extends", "this", "nomatch", "nofun", "calc", "suffices",
    "obtain", "id", "fuel", "attribute", "axiom", "instance", "infix", "prefix", "postfix", "register", "export",
    "opaque", "noncomputable", "unsafe", "omit", "include", "nonrec", "builtin", "scoped", "public", "meta", "module"}

EXC_MAP = {   # Python exception class (last attribute) -> Exc constructor, as common.exc_name prints them
    "IndexError": ".index", "ValueError": ".value", "TypeError": ".type_", "KeyError": ".key",
    "AttributeError": ".attr", "AssertionError": ".assertion", "RuntimeError": ".runtime",
    "OverflowError": ".overflow", "ZeroDivisionError": ".zeroDiv",
    "DecodeError": ".decodeError", "EncodeError": ".encodeError",
    "TimeoutError": ".timeout", "TransmissionError": ".transmission", "ProtocolError": ".protocol",
    "BrokenLinkError": ".brokenLink", "UnsupportedTargetError": ".unsupportedTarget",
    "CommunicationError": ".commError",
}
HANDLER_MAP = {"struct.error": ".struct", "IndexError": ".index", "ValueError": ".value", "TypeError": ".type_",
               "KeyError": ".key"}
LOG_ROOTS = {"log", "logging"}


ERRNO = {   # errno constants the sources use (Linux values, as the models and common.exc_name print them)
    "EPERM": 1, "ENOENT": 2, "EIO": 5, "EBADF": 9, "EAGAIN": 11, "EWOULDBLOCK": 11, "ENOMEM": 12, "EACCES": 13,
    "EFAULT": 14, "EBUSY": 16, "ENODEV": 19, "EINVAL": 22, "EPIPE": 32, "ENOTSUP": 95, "EOPNOTSUPP": 95,
    "EDESTADDRREQ": 89, "EMSGSIZE": 90, "EADDRINUSE": 98, "EADDRNOTAVAIL": 99, "ECONNRESET": 104, "ENOBUFS": 105,
    "EISCONN": 106, "ENOTCONN": 107, "ESHUTDOWN": 108, "ETIMEDOUT": 110, "ECONNREFUSED": 111, "EALREADY": 114,
    "EINPROGRESS": 115, "ENOTSOCK": 88, "EPROTO": 71,
}
LLCP_ERROR_CLASSES = ("err.Error", "nfc.llcp.Error", "nfc.llcp.err.Error", "llcp.Error")
IO_ERROR_CLASSES = ("IOError", "OSError")


def is_odd_bind(src):
    """a bind whose source text is not a plain dotted name (a call, subscript, comparison ..)"""
    return re.fullmatch(r"[A-Za-z_][A-Za-z_0-9]*(\.[A-Za-z_][A-Za-z_0-9]*)*", src) is None


def is_docstring(x):
    return isinstance(x, ast.Expr) and isinstance(x.value, ast.Constant) and isinstance(x.value.value, str)


def find_def_node(module, qual):
    """the FunctionDef named by `qual` ("f", "Cls.m", "Outer.Inner.m", "Cls.prop@setter")"""
    node = module
    for part in qual.split("."):
        want_setter = part.endswith("@setter")
        part = part[:-7] if want_setter else part
        for n in node.body:
            if isinstance(n, (ast.ClassDef, ast.FunctionDef)) and n.name == part:
                is_setter = isinstance(n, ast.FunctionDef) and any(
                    ast.unparse(d) == part + ".setter" for d in n.decorator_list)
                if is_setter != want_setter:
                    continue
                node = n
                break
        else:
            raise Refuse("definition %s not found" % qual)
    if not isinstance(node, ast.FunctionDef):
        raise Refuse("%s is not a function" % qual)
    return node


def select_stmts(fn, sp):
    """the statements of function node `fn` that spec `sp` translates: descend along `sp.path`
    ([(k, "body" | "orelse" | "finalbody" | ("handlers", i)), ..]: statement k of the current list, docstrings not
    counted, then that field of it), then apply `sp.stmts` ((i, j) or an explicit index list)"""
    if sp.expr is not None:
        want = ast.unparse(ast.parse(sp.expr, mode="eval").body)
        if sp.path or sp.stmts is not None:      # search only in the statements that path/stmts select
            inner = Spec(sp.group, sp.lean, sp.file, sp.qual, sp.params, path=sp.path, stmts=sp.stmts)
            scope = [x for st in select_stmts(fn, inner) for x in ast.walk(st)]
        else:
            scope = list(ast.walk(fn))
        hits = [x for x in scope if isinstance(x, ast.expr) and ast.unparse(x) == want]
        hits.sort(key=lambda x: (x.lineno, x.col_offset))
        if getattr(sp, "whole", False):
            # only occurrences that are a complete decision / value: the test of if / while / conditional expression /
            # assert, the value of return / assignment / expression statement, the iterable of a for loop
            # (`nth` counts among these); a test that gained or lost an operand is no longer found
            whole = set()
            for x in scope:
                if isinstance(x, (ast.If, ast.While, ast.IfExp, ast.Assert)):
                    whole.add(id(x.test))
                elif isinstance(x, (ast.Return, ast.Assign, ast.AugAssign, ast.AnnAssign, ast.Expr)) and x.value is not None:
                    whole.add(id(x.value))
                elif isinstance(x, ast.For):
                    whole.add(id(x.iter))
            n_all = len(hits)
            hits = [x for x in hits if id(x) in whole]
            if sp.nth >= len(hits):
                raise Refuse("expression %r occurs %d times as a whole test / value (%d times as a sub-expression)"
                             % (sp.expr, len(hits), n_all))
        if sp.nth >= len(hits):
            raise Refuse("expression %r occurs %d times" % (sp.expr, len(hits)))
        node = hits[sp.nth]
        if sp.ret == BOOL:       # only the truth value of the expression (an `if` test)
            node = ast.Call(func=ast.Name(id="bool", ctx=ast.Load()), args=[node], keywords=[])
            ast.copy_location(node, hits[sp.nth])
        r = ast.Return(value=node)
        ast.copy_location(r, hits[sp.nth])
        ast.fix_missing_locations(r)
        return [r]
    body = list(fn.body)
    for (k, field) in (sp.path or []):
        body = [x for x in body if not is_docstring(x)]
        node = body[k]
        if isinstance(field, tuple):
            body = list(node.handlers[field[1]].body)
        else:
            body = list(getattr(node, field))
    if sp.stmts is not None or sp.path:
        body = [x for x in body if not is_docstring(x)]
    if sp.stmts is not None:
        body = [body[i] for i in sp.stmts] if isinstance(sp.stmts, list) else body[sp.stmts[0]:sp.stmts[1]]
    return body


# ----------------------------------------------------------------------------- Lean text helpers
def paren(lines):
    """wrap a block of lines in parentheses unless it is a single atomic token"""
    if len(lines) == 1 and re.fullmatch(r"[\w.'_]+|\([^()]*\)|\[[^\[\]]*\]", lines[0]):
        return list(lines)
    out = ["(" + lines[0]] + [" " + l for l in lines[1:]]
    out[-1] += ")"
    return out


def indent(lines, n=2):
    return [" " * n + l for l in lines]


def atom(code):
    return paren([code])[0]


def ok(lines):
    p = paren(lines)
    return ["Except.ok " + p[0]] + p[1:]


class Val:
    """compiled expression: pure Lean term `code` of Python type `ty` (nn: known to be >= 0)"""

    def __init__(self, code, ty, nn=False, lit=None):
        self.code, self.ty, self.nn, self.lit = code, ty, nn, lit


class Var:
    def __init__(self, lean, ty, nn=False):
        self.lean, self.ty, self.nn = lean, ty, nn


class Res:
    """compiled statement block: lines of a Lean term; mon: the term has type `Py T`"""

    def __init__(self, lines, mon):
        self.lines, self.mon = lines, mon

    def lifted(self):
        return self.lines if self.mon else ok(self.lines)


class Spec:
    def __init__(self, group, lean, file, qual, params, binds=None, calls=None, stmts=None, result=None,
                 ret=None, opaque=None, records=None, stores=None, path=None, expr=None, nth=0, drop=None,
                 excs=None, reraise=None, nonneg=None, via=None, inert=None, whole=False, note=""):
        self.group, self.lean, self.file, self.qual = group, lean, file, qual
        self.params = params              # [(python name, type)]
        self.binds = binds or []          # [(source expression text, lean/python param name, type)]
        self.calls = calls or {}          # source text of a called expression -> lean name of a translated function
        self.stmts = stmts                # (first, last+1) statement indices of the body, None = all
        self.result = result              # with a cut: names of the variables returned at the end of the range
        self.ret = ret                    # declared return type (ANY forces the Val coercion), None = inferred
        self.opaque = opaque or {}        # source text of a call -> (parameter name, [arg types], result type, monadic)
        self.path = path                  # descend into compound statements before `stmts` (see select_stmts)
        self.stores = stores or []        # source text of attributes the function assigns, kept as locals: "self.pni"
        self.records = records or {}      # class name -> {constructor parameter: type}: objects as records
        self.rec_fields = {}              # filled: class name -> [(parameter, type, attribute or None)]
        self.expr, self.nth = expr, nth   # translate only the nth sub-expression with this source text (`return <expr>`)
        self.drop = drop or []            # call texts / statement text prefixes to ignore (notify(), queue.append(..))
        self.excs = excs or {}            # exception class text -> Exc constructor name (module-local classes)
        self.whole = whole                # with `expr=`: only occurrences that are a whole test / value (see select_stmts)
        self.inert = inert or []          # call targets allowed inside dropped calls / messages (effect-free constructors)
        self.via = via                    # name of a subclass (same module): `cls.X`/`self.X` constants are read there first
        self.nonneg = nonneg or []        # parameters/binds declared >= 0 (precondition of the cut, said in the note)
        self.reraise = reraise or {}      # name of a caught exception variable -> Lean Exc term for `raise <name>`
        self.note = note
        self.cut = (stmts is not None or bool(path) or expr is not None or result is not None
                    or any(is_odd_bind(b[0]) for b in self.binds))
        # filled by the translation
        self.defaults = {}                # parameter name -> constant default of the source (filled by translate)
        self.mon = None
        self.rty = None
        self.fuel = False
        self.lines = (0, 0)
        self.refused = None


# ----------------------------------------------------------------------------- the function translator
class FnT:
    def __init__(self, spec, module, done, repo="/repo"):
        self.spec, self.module, self.done, self.repo = spec, module, done, repo
        self.counts = {}
        self.tmp = 0
        self.called = set()
        self.rtys = []
        self.fuel = False
        self.used_names = set()

    # -- names
    def fresh(self, base):
        if base in LEAN_RESERVED or re.fullmatch(r"t\d+", base):
            base = base + "_"
        n = self.counts.get(base, 0)
        self.counts[base] = n + 1
        return base if n == 0 else "%s_%d" % (base, n)

    def temp(self):
        self.tmp += 1
        return "t%d" % self.tmp

    # -- source lookup
    def find_def(self):
        return find_def_node(self.module, self.spec.qual)

    def _find_def_unused(self):
        node = self.module
        for part in self.spec.qual.split("."):
            want_setter = part.endswith("@setter")
            part = part[:-7] if want_setter else part
            for n in node.body:
                if isinstance(n, (ast.ClassDef, ast.FunctionDef)) and n.name == part:
                    is_setter = isinstance(n, ast.FunctionDef) and any(
                        ast.unparse(d) == part + ".setter" for d in n.decorator_list)
                    if is_setter != want_setter:
                        continue
                    node = n
                    break
            else:
                raise Refuse("definition %s not found" % self.spec.qual)
        if not isinstance(node, ast.FunctionDef):
            raise Refuse("%s is not a function" % self.spec.qual)
        return node

    def setup_records(self):
        """constructor parameter order, defaults and the attribute each parameter is stored in, from `__init__`"""
        RECORDS.clear()
        self.rec_defaults, self.rec_attr, self.rec_norm = {}, {}, {}
        for cname, ftypes in self.spec.records.items():
            cls = [n for n in ast.walk(self.module) if isinstance(n, ast.ClassDef) and n.name == cname]
            init, seen = [], 0
            while cls and not init and seen < 6:       # `__init__` of the class or inherited from a base in the module
                init = [n for n in cls[0].body if isinstance(n, ast.FunctionDef) and n.name == "__init__"]
                bases = [b.id for b in cls[0].bases if isinstance(b, ast.Name)]
                cls = [n for n in ast.walk(self.module) if isinstance(n, ast.ClassDef) and bases and n.name == bases[0]]
                seen += 1
            if not init:
                raise Refuse("record class %s has no __init__" % cname)
            init = init[0]
            params = [a.arg for a in init.args.args[1:]]
            if init.args.vararg or init.args.kwarg or sorted(params) != sorted(ftypes):
                raise Refuse("record class %s: constructor parameters are %s" % (cname, params))
            RECORDS[cname] = [(p, ftypes[p]) for p in params]
            self.rec_defaults[cname] = {}
            for a, d in zip(reversed(init.args.args), reversed(init.args.defaults)):
                if isinstance(d, ast.Constant):
                    self.rec_defaults[cname][a.arg] = d.value
            amap = {}
            for st in init.body:
                pairs = []
                if isinstance(st, ast.Assign) and len(st.targets) == 1:
                    if isinstance(st.targets[0], ast.Tuple) and isinstance(st.value, ast.Tuple) \
                            and len(st.targets[0].elts) == len(st.value.elts):
                        pairs = list(zip(st.targets[0].elts, st.value.elts))      # `self.a, self.b = a, b`
                    else:
                        pairs = [(st.targets[0], st.value)]
                for (tg, vl) in pairs:
                    if isinstance(tg, ast.Attribute) and isinstance(tg.value, ast.Name) and tg.value.id == "self" \
                            and isinstance(vl, ast.Name) and vl.id in params:
                        amap[tg.attr] = vl.id
            # a normalising store `self.a = C if p is None else p` / `p if p is not None else C` / `p if p else C`
            # (C the falsy constant of the type in the last form): with the field declared with its stored,
            # non-optional type the record holds the stored value, None given to the constructor becomes C
            self.rec_norm[cname] = {}
            for st in init.body:
                if not (isinstance(st, ast.Assign) and len(st.targets) == 1 and isinstance(st.value, ast.IfExp)):
                    continue
                tg, ie = st.targets[0], st.value
                if not (isinstance(tg, ast.Attribute) and isinstance(tg.value, ast.Name) and tg.value.id == "self"):
                    continue
                t_, b_, o_ = ast.unparse(ie.test), ie.body, ie.orelse
                pn_ = cst = None
                if isinstance(o_, ast.Name) and t_ == "%s is None" % o_.id:
                    pn_, cst, falsy_only = o_.id, b_, False
                elif isinstance(b_, ast.Name) and t_ == "%s is not None" % b_.id:
                    pn_, cst, falsy_only = b_.id, o_, False
                elif isinstance(b_, ast.Name) and t_ == b_.id:
                    pn_, cst, falsy_only = b_.id, o_, True
                if pn_ not in params or isinstance(ftypes[pn_], tuple) or any(q == pn_ for q in amap.values()):
                    continue
                ct = ast.unparse(cst)
                if ftypes[pn_] == BYTES and ct in ("bytearray()", "bytes()", "b''"):
                    self.rec_norm[cname][pn_] = "([] : Bytes)"
                elif ftypes[pn_] == INT and isinstance(cst, ast.Constant) and type(cst.value) is int \
                        and (cst.value == 0 or not falsy_only):
                    self.rec_norm[cname][pn_] = "(%d : Int)" % cst.value
                else:
                    continue
                amap[tg.attr] = pn_
            self.rec_attr[cname] = amap
            self.spec.rec_fields[cname] = [(p, ftypes[p], ([a for a, q in amap.items() if q == p] or [None])[0])
                                           for p in params]

    def rec_class(self, text):
        """class named by a call target: a declared record class, or `cls` inside one"""
        if text in RECORDS:
            return text
        if "." in text and text.split(".")[-1] in RECORDS and text.split(".")[0] in ("cls", "self") + tuple(
                c.name for c in ast.walk(self.module) if isinstance(c, ast.ClassDef)):
            return text.split(".")[-1]       # a class nested in a class: `cls.PFB(..)`, `DEP_REQ_RES.PFB(..)`
        if text == "cls":
            own = self.spec.qual.split(".")[0]
            if own in RECORDS:
                return own
        return None

    def rec_proj(self, code, cname, k):
        n = len(RECORDS[cname])
        if n == 1:
            return code
        return atom(code) + ".2" * k + (".1" if k < n - 1 else "")

    def rec_field_index(self, cname, attr):
        param = self.rec_attr[cname].get(attr)
        if param is None:
            raise Refuse("attribute %s of %s is not a constructor parameter stored by __init__" % (attr, cname))
        return [p for p, _ in RECORDS[cname]].index(param)

    def rec_build(self, cname, vals):
        if not vals:
            return "()"
        if len(vals) == 1:
            return vals[0]
        return "(" + ", ".join(vals) + ")"

    def call_ctor(self, cname, n, env, pre):
        fields = RECORDS[cname]
        if any(isinstance(a, ast.Starred) for a in n.args) or any(k.arg is None for k in n.keywords):
            raise Refuse("constructor %s with * / ** arguments" % cname)
        args = [self.expr(a, env, pre) for a in n.args]      # Python: positional arguments first ..
        if len(args) > len(fields):
            raise Refuse("constructor %s with %d arguments" % (cname, len(args)))
        byname = {}
        for k in n.keywords:                                  # .. then the keyword values in source order
            if k.arg not in [pn for pn, _ in fields[len(args):]] or k.arg in byname:
                raise Refuse("constructor %s: keyword %s is unknown, repeated or already given by position" % (cname, k.arg))
            byname[k.arg] = self.expr(k.value, env, pre)
        for (pn, pt) in fields[len(args):]:
            if pn in byname:
                args.append(byname[pn])
            elif pn in self.rec_defaults[cname]:
                args.append(self.lit_val(self.rec_defaults[cname][pn]))
            else:
                raise Refuse("constructor %s: no argument and no constant default for %s" % (cname, pn))
        norm = self.rec_norm.get(cname, {})
        for k, (a, (pn, pt)) in enumerate(zip(args, fields)):
            if pn in norm and a.ty == NONE:
                args[k] = Val(norm[pn], pt)
            elif pn in norm and a.ty == OPT(pt):
                args[k] = Val("(match %s with | some v => v | none => %s)" % (a.code, norm[pn]), pt)
        args = [self.coerce(a, pt, "constructor argument %s of %s" % (pn, cname)) for a, (pn, pt) in zip(args, fields)]
        return Val(self.rec_build(cname, [a.code for a in args]), REC(cname))

    def const_lookup(self, text):
        """module-level `X = literal`, class-level `Cls.X = literal` (also inherited from a base class of the same
        module), `A, B = range(a, b)`, `A, B = (lit, lit)`, bytes constants; `nfc.<module>.X` of another file"""
        parts = text.split(".")
        node = self.module
        if parts[0] == "nfc" and len(parts) >= 3:
            # constant of another nfc module: nfc.tag.PROTOCOL_ERROR -> src/nfc/tag/__init__.py or src/nfc/tag.py
            base = os.path.join(self.repo, "src", *parts[:-1])
            for cand in (base + ".py", os.path.join(base, "__init__.py")):
                if os.path.exists(cand):
                    node = OTHER_MODULES.get(cand) or OTHER_MODULES.setdefault(cand, ast.parse(open(cand).read()))
                    parts = parts[-1:]
                    break
            else:
                return None
        top = node
        for part in parts[:-1]:
            for n in node.body:
                if isinstance(n, ast.ClassDef) and n.name == part:
                    node = n
                    break
            else:
                return None
        return self.const_in(top, node, parts[-1], 0)

    def const_in(self, top, node, name, depth):
        found = None
        for n in node.body:
            if isinstance(n, ast.Assign) and len(n.targets) == 1:
                t = n.targets[0]
                if isinstance(t, ast.Name) and t.id == name and isinstance(n.value, ast.Constant):
                    found = n.value.value
                if isinstance(t, ast.Name) and t.id == name and isinstance(n.value, ast.Call) and len(n.value.args) == 1 \
                        and isinstance(n.value.args[0], ast.Constant) and not n.value.keywords:
                    f, a = ast.unparse(n.value.func), n.value.args[0].value
                    if f in ("bytearray", "bytes") and isinstance(a, bytes):
                        found = a
                    if f in ("bytearray.fromhex", "bytes.fromhex") and isinstance(a, str):
                        found = bytes.fromhex(a)
                if isinstance(t, ast.Name) and t.id == name and isinstance(n.value, ast.UnaryOp) \
                        and isinstance(n.value.op, ast.USub) and isinstance(n.value.operand, ast.Constant):
                    found = -n.value.operand.value
                if isinstance(t, ast.Tuple) and all(isinstance(e, ast.Name) for e in t.elts):
                    names = [e.id for e in t.elts]
                    vals = None
                    if isinstance(n.value, ast.Call) and isinstance(n.value.func, ast.Name) \
                            and n.value.func.id == "range" and all(isinstance(a, ast.Constant) for a in n.value.args):
                        vals = list(range(*[a.value for a in n.value.args]))
                    if isinstance(n.value, ast.Tuple) and all(isinstance(a, ast.Constant) for a in n.value.elts):
                        vals = [a.value for a in n.value.elts]
                    if vals is not None and name in names and len(names) == len(vals):
                        found = vals[names.index(name)]
        if found is None and isinstance(node, ast.ClassDef) and depth < 5:
            for b in node.bases:       # inherited class constant (base class in the same module)
                if isinstance(b, ast.Name):
                    for c in top.body:
                        if isinstance(c, ast.ClassDef) and c.name == b.id:
                            found = self.const_in(top, c, name, depth + 1)
                            if found is not None:
                                return found
        return found

    # ------------------------------------------------------------------ expressions
    # expr(node, env, pre) appends hoisted bindings to `pre` (in evaluation order) and returns a Val.
    # pre entries: ("bind", pattern, lines)  monadic  `lines >>= fun pattern =>`
    #              ("let", pattern, lines)   pure     `let pattern := lines`

    def lit_val(self, v):
        if isinstance(v, bool):
            return Val("true" if v else "false", BOOL, lit=v)
        if isinstance(v, int):
            return Val(str(v) if v >= 0 else "(%d)" % v, INT, nn=v >= 0, lit=v)
        if isinstance(v, bytes):
            return Val("[" + ", ".join(str(b) for b in v) + "]", BYTES, lit=v)
        if isinstance(v, str):
            if '"' in v or "\\" in v or "\n" in v:
                raise Refuse("string literal with special characters")
            return Val('"%s"' % v, STR, lit=v)
        if v is None:
            return Val("()", NONE, lit=None)
        raise Refuse("literal %r" % (v,))

    def expr(self, n, env, pre):
        if not isinstance(n, (ast.Name, ast.Attribute, ast.Constant)):
            text = ast.unparse(n)
            if text in self.bound_names and text in env:      # a bind on the text of an arbitrary expression
                v = env[text]
                return Val(v.lean, v.ty, v.nn)
        m = getattr(self, "e_" + type(n).__name__, None)
        if m is None:
            raise Refuse("expression %s" % type(n).__name__)
        return m(n, env, pre)

    def e_Constant(self, n, env, pre):
        return self.lit_val(n.value)

    def e_Name(self, n, env, pre):
        if n.id in env:
            v = env[n.id]
            return Val(v.lean, v.ty, v.nn)
        if n.id in ("True", "False", "None"):
            return self.lit_val({"True": True, "False": False, "None": None}[n.id])
        c = self.const_lookup(n.id)
        if c is not None:
            return self.lit_val(c)
        raise Refuse("unbound name %s" % n.id)

    def e_Attribute(self, n, env, pre):
        text = ast.unparse(n)
        if text in env:
            v = env[text]
            return Val(v.lean, v.ty, v.nn)
        if text.startswith("errno.") and text[6:] in ERRNO:
            return self.lit_val(ERRNO[text[6:]])
        base = ast.unparse(n.value)
        if base in env and isinstance(env[base].ty, tuple) and env[base].ty[0] == "rec":
            # attribute of a record: a local name or a bound text (`self.pfb.did` with `self.pfb` bound)
            cname = env[base].ty[1]
            k = self.rec_field_index(cname, n.attr)
            return Val(self.rec_proj(env[base].lean, cname, k), RECORDS[cname][k][1])
        c = self.const_lookup(text)
        if c is None and self.spec.via and (text.startswith("cls.") or text.startswith("self.")):
            c = self.const_lookup(self.spec.via + "." + text.split(".", 1)[1])
        if c is None and text.startswith("cls."):
            # class constant read through `cls` in a classmethod: the class of the qualified name
            c = self.const_lookup(".".join(self.spec.qual.split(".")[:-1] + [text[4:]]))
        if c is None and text.startswith("self."):
            c = self.const_lookup(".".join(self.spec.qual.split(".")[:-1] + [text[5:]]))
        if c is not None:
            return self.lit_val(c)
        raise Refuse("attribute %s is not bound by the spec table" % text)

    def e_Tuple(self, n, env, pre):
        vs = [self.expr(e, env, pre) for e in n.elts]
        if len(vs) < 2:
            raise Refuse("tuple display of length < 2")
        r = Val("(" + ", ".join(v.code for v in vs) + ")", TUP(*[v.ty for v in vs]))
        r.comps = vs
        return r

    def comp(self, v, i):
        """i-th component of a tuple-typed value"""
        if getattr(v, "comps", None):
            return v.comps[i]
        arity = len(v.ty) - 1
        return Val(atom(v.code) + ".2" * i + (".1" if i < arity - 1 else ""), v.ty[1 + i])

    def e_UnaryOp(self, n, env, pre):
        if isinstance(n.op, ast.Not):
            p = self.cond(n.operand, env, pre)
            return Val("(decide (¬ %s))" % p, BOOL)
        v = self.expr(n.operand, env, pre)
        if v.ty != INT:
            raise Refuse("unary operator on %s" % (v.ty,))
        if isinstance(n.op, ast.USub):
            if v.lit is not None:
                return self.lit_val(-v.lit)
            return Val("(-%s)" % v.code, INT)
        if isinstance(n.op, ast.Invert):
            return Val("(PyFn.bnot %s)" % v.code, INT)
        if isinstance(n.op, ast.UAdd):
            return v
        raise Refuse("unary operator")

    def e_BinOp(self, n, env, pre):
        a = self.expr(n.left, env, pre)
        b = self.expr(n.right, env, pre)
        op = type(n.op).__name__
        if {a.ty, b.ty} == {INT, ANY} and op in ("Add", "Sub", "BitAnd", "BitOr", "BitXor", "LShift", "RShift"):
            # a dynamically typed operand of int arithmetic: TypeError unless it is an int (or bool)
            x = a if a.ty == ANY else b
            t = self.temp()
            pre.append(("bind", t, ["PyFn.asInt %s" % x.code]))
            y = Val(t, INT)
            a, b = (y, b) if a.ty == ANY else (a, y)
        if a.ty == BOOL and b.ty == BOOL and op in ("BitAnd", "BitOr", "BitXor"):
            f = {"BitAnd": "&&", "BitOr": "||", "BitXor": "!="}[op]      # bool & bool is a bool
            return Val("(%s %s %s)" % (a.code, f, b.code), BOOL)
        if BOOL in (a.ty, b.ty) and {a.ty, b.ty} <= {BOOL, INT} and op in (
                "Add", "Sub", "Mult", "BitAnd", "BitOr", "BitXor", "LShift", "RShift", "FloorDiv", "Mod"):
            # Python bool is an int
            a = Val("(if %s = true then 1 else 0)" % a.code, INT, True) if a.ty == BOOL else a
            b = Val("(if %s = true then 1 else 0)" % b.code, INT, True) if b.ty == BOOL else b
        if a.ty == INT and b.ty == INT:
            if op in ("Add", "Mult"):
                return Val("(%s %s %s)" % (a.code, "+" if op == "Add" else "*", b.code), INT, a.nn and b.nn)
            if op == "Sub":
                return Val("(%s - %s)" % (a.code, b.code), INT)
            if op in ("BitAnd", "BitOr", "BitXor"):
                f = {"BitAnd": "band", "BitOr": "bor", "BitXor": "bxor"}[op]
                nn = (a.nn or b.nn) if op == "BitAnd" else (a.nn and b.nn)
                return Val("(PyFn.%s %s %s)" % (f, a.code, b.code), INT, nn)
            if op in ("LShift", "RShift"):
                f = "shl" if op == "LShift" else "shr"
                if b.nn:
                    return Val("(PyFn.%s %s %s)" % (f, a.code, b.code), INT, a.nn)
                t = self.temp()
                pre.append(("bind", t, ["PyFn.%sP %s %s" % (f, a.code, b.code)]))
                return Val(t, INT, a.nn)
            if op in ("FloorDiv", "Mod"):
                if b.lit is not None and b.lit > 0:
                    return Val("(%s %s %s)" % (a.code, "/" if op == "FloorDiv" else "%", b.code), INT,
                               a.nn or op == "Mod")
                t = self.temp()
                pre.append(("bind", t, ["PyFn.%sP %s %s" % ("floordiv" if op == "FloorDiv" else "mod", a.code, b.code)]))
                return Val(t, INT, a.nn and b.nn)
            if op == "Pow":
                if not b.nn:
                    raise Refuse("** with an exponent not known to be >= 0")
                return Val("(PyFn.pow %s %s)" % (a.code, b.code), INT, a.nn)
            raise Refuse("int operator %s" % op)
        if a.ty == BYTES and b.ty == BYTES and op == "Add":
            return Val("(%s ++ %s)" % (a.code, b.code), BYTES)
        if a.ty == STR and b.ty == STR and op == "Add":
            return Val("(%s ++ %s)" % (a.code, b.code), STR)
        def as_int_list(v):
            if isinstance(v.ty, tuple) and v.ty[0] == "tuple" and all(x == INT for x in v.ty[1:]):
                return Val("[" + ", ".join(self.comp(v, i).code for i in range(len(v.ty) - 1)) + "]", LIST(INT))
            return v
        if op == "Add" and LIST(INT) in (a.ty, b.ty) and a.ty != b.ty:
            a, b = as_int_list(a), as_int_list(b)       # `(6, 0) + tuple(self.sys)`: only comparable afterwards
        if isinstance(a.ty, tuple) and a.ty[0] == "list" and a.ty == b.ty and op == "Add":
            return Val("(%s ++ %s)" % (a.code, b.code), a.ty)
        if op == "Mult" and INT in (a.ty, b.ty) and any(isinstance(t, tuple) and t[0] == "list" for t in (a.ty, b.ty)):
            l, k = (a, b) if a.ty != INT else (b, a)
            return Val("(PyFn.repeatL %s %s)" % (l.code, k.code), l.ty)
        if a.ty == SET and b.ty == SET and op in ("Sub", "BitOr"):
            return Val("(PyFn.%s %s %s)" % ("setDiff" if op == "Sub" else "setUnion", a.code, b.code), SET)
        if op == "Mult" and {a.ty, b.ty} == {BYTES, INT}:
            l, k = (a, b) if a.ty == BYTES else (b, a)
            return Val("(PyFn.repeatL %s %s)" % (l.code, k.code), BYTES)
        raise Refuse("operator %s on %s, %s" % (op, a.ty, b.ty))

    def e_IfExp(self, n, env, pre):
        c, env_t, env_e = self.test(n.test, env, pre)
        pa, pb = [], []
        a = self.expr(n.body, dict(env_t), pa)
        b = self.expr(n.orelse, dict(env_e), pb)
        if NONE in (a.ty, b.ty) and a.ty != b.ty:       # `x if c else None` : T | None
            inner = b.ty if a.ty == NONE else a.ty
            ty = inner if (isinstance(inner, tuple) and inner[0] == "opt") else OPT(inner)
            a, b = self.coerce(a, ty, "conditional expression"), self.coerce(b, ty, "conditional expression")
        ty = self.join_type(a.ty, b.ty)
        if a.ty == STR and b.ty == STR and isinstance(n.body, ast.Constant) and isinstance(n.orelse, ast.Constant) \
                and not isinstance(c, tuple):
            r = Val("(if %s then %s else %s)" % (c, a.code, b.code), STR)
            r.choice = (c, n.body, n.orelse)        # a struct format chosen by a condition
            return r
        if isinstance(c, tuple):
            self.no_mutation(pa + pb)
            t = self.temp()
            ra = self.wrap_pre(pa, Res([a.code], False))
            rb = self.wrap_pre(pb, Res([b.code], False))
            r = self.ite(c, ra, rb)
            rl = paren(r.lines)
            rl = ["(" + rl[0]] + [" " + l for l in rl[1:]]
            rl[-1] += " : %s%s)" % ("Py " if r.mon else "", lean_type(ty))
            pre.append(("bind" if r.mon else "let", t, rl))
            return Val(t, ty, a.nn and b.nn)
        if not pa and not pb:
            return Val("(if %s then %s else %s)" % (c, a.code, b.code), ty, a.nn and b.nn)
        self.no_mutation(pa + pb)
        t = self.temp()
        la = self.wrap_pre(pa, Res([a.code], False)).lifted()
        lb = self.wrap_pre(pb, Res([b.code], False)).lifted()
        pre.append(("bind", t, ["if %s then" % c] + indent(paren(la)) + ["else"] + indent(paren(lb))))
        return Val(t, ty, a.nn and b.nn)

    def e_BoolOp(self, n, env, pre):
        """`a or b` / `a and b` as a VALUE is one of the operands (not a bool unless both are)"""
        def boolish(v):
            if isinstance(v, ast.Compare) or (isinstance(v, ast.UnaryOp) and isinstance(v.op, ast.Not)):
                return True
            if isinstance(v, ast.BoolOp):
                return all(boolish(x) for x in v.values)
            if isinstance(v, ast.Constant):
                return isinstance(v.value, bool)
            if isinstance(v, ast.Call) and ast.unparse(v.func) == "bool":
                return True
            if isinstance(v, (ast.Name, ast.Attribute)) and ast.unparse(v) in env:
                return env[ast.unparse(v)].ty == BOOL
            return False

        if all(boolish(v) for v in n.values):
            p = self.cond(n, env, pre)
            return Val("(decide %s)" % p, BOOL)
        vals = []
        for i, v in enumerate(n.values):
            p = pre if i == 0 else []
            vals.append(self.expr(v, env, p))
            if i > 0 and p:
                raise Refuse("effects in a later operand of a value-level and/or")
        acc = vals[-1]
        for a in reversed(vals[:-1]):
            acc = self.bool_select(a, acc, isinstance(n.op, ast.Or))
        return acc

    def bool_select(self, a, b, is_or):
        """value of `a or b` (is_or) / `a and b`"""
        inner = a.ty[1] if (isinstance(a.ty, tuple) and a.ty[0] == "opt") else a.ty
        if inner not in (INT, BYTES) or b.ty != inner:
            raise Refuse("value-level and/or on %s, %s" % (a.ty, b.ty))
        zero = "0" if inner == INT else "[]"
        if a.ty == inner:
            if is_or:
                return Val("(if %s ≠ %s then %s else %s)" % (a.code, zero, a.code, b.code), inner, a.nn and b.nn)
            return Val("(if %s ≠ %s then %s else %s)" % (a.code, zero, b.code, a.code), inner, a.nn and b.nn)
        if is_or:      # Optional first operand: None is falsy
            return Val("(match %s with | some v => if v ≠ %s then v else %s | none => %s)" % (a.code, zero, b.code, b.code), inner)
        raise Refuse("`x and y` with an optional x as a value")

    def e_Compare(self, n, env, pre):
        p = self.cond(n, env, pre)
        return Val("(decide %s)" % p, BOOL)

    def e_Subscript(self, n, env, pre):
        if ast.unparse(n) in env and ast.unparse(n) in self.bound_names:
            v = env[ast.unparse(n)]
            return Val(v.lean, v.ty, v.nn)
        if isinstance(n.slice, ast.Slice):
            s = n.slice
            if s.step is not None:
                st = self.expr(s.step, env, pre)
                if st.lit != -1:
                    raise Refuse("slice with a step other than -1")
                v = self.expr(n.value, env, pre)
                if v.ty != BYTES and not (isinstance(v.ty, tuple) and v.ty[0] == "list"):
                    raise Refuse("slice of %s" % (v.ty,))
                lo = self.expr(s.lower, env, pre) if s.lower is not None else None
                hi = self.expr(s.upper, env, pre) if s.upper is not None else None
                for x in (lo, hi):
                    if x is not None and x.ty != INT:
                        raise Refuse("slice bound of type %s" % (x.ty,))
                o = lambda x: "none" if x is None else "(some %s)" % x.code
                return Val("(PyFn.sliceRev %s %s %s)" % (v.code, o(lo), o(hi)), v.ty)
            v = self.expr(n.value, env, pre)
            if v.ty != BYTES and not (isinstance(v.ty, tuple) and v.ty[0] == "list"):
                raise Refuse("slice of %s" % (v.ty,))
            lo = self.expr(s.lower, env, pre) if s.lower is not None else None
            hi = self.expr(s.upper, env, pre) if s.upper is not None else None
            for x in (lo, hi):
                if x is not None and x.ty != INT:
                    raise Refuse("slice bound of type %s" % (x.ty,))
            if lo is None and hi is None:
                return Val(v.code, v.ty)
            if hi is None:
                return Val("(PyFn.sliceFrom %s %s)" % (v.code, lo.code), v.ty)
            if lo is None:
                return Val("(PyFn.sliceTo %s %s)" % (v.code, hi.code), v.ty)
            return Val("(slice %s %s %s)" % (v.code, lo.code, hi.code), v.ty)
        v = self.expr(n.value, env, pre)
        i = self.expr(n.slice, env, pre)
        if isinstance(v.ty, tuple) and v.ty[0] == "tuple1":
            if i.lit in (0, -1) and not isinstance(i.lit, bool):
                return v.inner
            raise Refuse("index into a 1-tuple")
        if v.ty in (INT, BOOL, NONE):
            return self.type_error(pre, INT)      # 'int' object is not subscriptable
        if isinstance(v.ty, tuple) and v.ty[0] == "tuple" and i.lit is not None and isinstance(i.lit, int):
            k, arity = i.lit, len(v.ty) - 1
            if k < 0:
                k += arity
            if not 0 <= k < arity:
                raise Refuse("constant tuple index out of range")
            proj = ".2" * k + (".1" if k < arity - 1 else "")
            return Val("%s%s" % (atom(v.code), proj), v.ty[1 + k], False)
        if i.ty == BOOL and isinstance(v.ty, tuple) and v.ty[0] == "tuple" and len(v.ty) >= 3 \
                and v.ty[1] == v.ty[2]:
            # `(a, b)[flag]`: False is index 0, True is index 1 (both exist, nothing can raise); the tuple is
            # evaluated completely before the index
            return Val("(if %s = true then %s else %s)" % (i.code, self.comp(v, 1).code, self.comp(v, 0).code), v.ty[1], False)
        if i.ty == BOOL and v.ty == BYTES:
            t = self.temp()
            pre.append(("bind", t, ["PyFn.getB %s (if %s = true then 1 else 0)" % (v.code, i.code)]))
            return Val(t, INT, True)
        if i.ty != INT:
            raise Refuse("index of type %s" % (i.ty,))
        if v.ty == BYTES:
            t = self.temp()
            pre.append(("bind", t, ["PyFn.getB %s %s" % (v.code, i.code)]))
            return Val(t, INT, True)
        if isinstance(v.ty, tuple) and v.ty[0] == "tuple" and all(x == INT for x in v.ty[1:]):
            # table lookup in a tuple of ints with a computed index
            t = self.temp()
            pre.append(("bind", t, ["idx (%s : List Int) %s" % (self.tuple_as_list(n.value, env), i.code)]))
            return Val(t, INT, False)
        if isinstance(v.ty, tuple) and v.ty[0] == "list":
            t = self.temp()
            pre.append(("bind", t, ["idx %s %s" % (v.code, i.code)]))
            return Val(t, v.ty[1], False)
        raise Refuse("subscript of %s" % (v.ty,))

    def type_error(self, pre, ty):
        """an operation Python rejects with TypeError for the declared operand types: raised where it is evaluated"""
        t = self.temp()
        pre.append(("bind", t, ["(Except.error Exc.type_ : Py %s)" % lean_type(ty)]))
        return Val(t, ty)

    def tuple_as_list(self, node, env):
        if not isinstance(node, ast.Tuple):
            raise Refuse("computed index into a tuple that is not a display")
        vs = [self.expr(e, env, []) for e in node.elts]
        return "[" + ", ".join(v.code for v in vs) + "]"

    def e_ListComp(self, n, env, pre):
        if len(n.generators) != 1 or n.generators[0].is_async or not isinstance(n.generators[0].target, ast.Name):
            raise Refuse("list comprehension shape")
        g = n.generators[0]
        it = self.expr(g.iter, env, pre)
        if it.ty == BYTES:
            seq, ety, enn = "(PyFn.ints %s)" % it.code, INT, True
        elif isinstance(it.ty, tuple) and it.ty[0] == "list":
            seq, ety, enn = it.code, it.ty[1], getattr(it, "elem_nn", False)
        elif isinstance(it.ty, tuple) and it.ty[0] == "tuple" and all(x == INT for x in it.ty[1:]) and getattr(it, "comps", None):
            seq, ety, enn = "[" + ", ".join(c.code for c in it.comps) + "]", INT, all(c.nn for c in it.comps)
        else:
            raise Refuse("list comprehension over %s" % (it.ty,))
        x = self.fresh(g.target.id)
        env2 = dict(env)
        env2[g.target.id] = Var(x, ety, enn)
        p2 = []
        conds = [self.cond(c, env2, p2) for c in g.ifs]
        el = self.expr(n.elt, env2, p2)
        if p2:
            raise Refuse("list comprehension whose element or condition can raise")
        if conds:
            seq = "(List.filter (fun (%s : %s) => decide (%s)) %s)" % (x, lean_type(ety), " ∧ ".join(conds), seq)
        r = Val("(List.map (fun (%s : %s) => %s) %s)" % (x, lean_type(ety), el.code, seq), LIST(el.ty))
        return r

    def e_List(self, n, env, pre):
        vs = [self.expr(e, env, pre) for e in n.elts]
        if not all(v.ty == INT for v in vs):
            raise Refuse("list display with non-int elements")
        return Val("[" + ", ".join(v.code for v in vs) + "]", LIST(INT))

    # -- calls
    def e_Call(self, n, env, pre):
        if ast.unparse(n) in env and ast.unparse(n) in self.bound_names:
            v = env[ast.unparse(n)]
            return Val(v.lean, v.ty, v.nn)
        text = ast.unparse(n.func)
        if n.keywords and text not in self.spec.opaque and self.rec_class(text) is None:
            raise Refuse("keyword arguments in call %s" % ast.unparse(n.func))
        if text in self.spec.opaque:
            pname, atys, rty, mon = self.spec.opaque[text]
            def oarg(a):
                if isinstance(a, ast.Name) and a.id in ("self", "cls") and a.id not in env:
                    return Val("()", NONE)      # the object itself handed to an opaque callee: declared as NONE
                return self.expr(a, env, pre)
            args = []
            for a in n.args:
                if isinstance(a, ast.Starred):
                    # `f(*args)` with a tuple of known arity (a local bound to a tuple display, a TUP parameter)
                    tv = self.expr(a.value, env, pre)
                    if not (isinstance(tv.ty, tuple) and tv.ty[0] == "tuple"):
                        raise Refuse("starred argument of type %s" % (tv.ty,))
                    args += [self.comp(tv, i) for i in range(len(tv.ty) - 1)]
                else:
                    args.append(oarg(a))
            if any(k_.arg is None for k_ in n.keywords):
                raise Refuse("** argument in call %s" % text)
            args += [oarg(k_.value) for k_ in n.keywords]
            if len(args) == len(atys):      # None / T where the callee is declared with Optional T
                args = [self.coerce(a, t, "argument of the opaque call %s" % text)
                        if (isinstance(t, tuple) and t[0] == "opt" and a.ty != t) else a for a, t in zip(args, atys)]
            if [a.ty for a in args] != list(atys):
                raise Refuse("opaque call %s: argument types %s" % (text, [a.ty for a in args]))
            code = " ".join([env[pname].lean] + [atom(a.code) for a in args])
            if mon:
                t = self.temp()
                pre.append(("bind", t, [code]))
                return Val(t, rty)
            return Val("(%s)" % code, rty)
        if self.rec_class(text) is not None:
            return self.call_ctor(self.rec_class(text), n, env, pre)
        if text in self.spec.calls or (text in self.done and isinstance(n.func, ast.Name)):
            target = self.spec.calls.get(text, text)
            if isinstance(target, (list, tuple)):
                # one source function translated once per argument type: the instance whose parameter types fit
                errs = []
                for cand in target:
                    saved = (dict(self.counts), self.tmp, len(pre), dict(env))
                    try:
                        return self.call_translated(cand, n, env, pre)
                    except Refuse as e:
                        errs.append(str(e))
                        self.counts, self.tmp = saved[0], saved[1]
                        del pre[saved[2]:]
                        env.clear()
                        env.update(saved[3])
                raise Refuse("no instance of %s fits: %s" % (text, "; ".join(errs)[:200]))
            return self.call_translated(target, n, env, pre)
        m = getattr(self, "c_" + text.replace(".", "_"), None)
        if m is not None:
            return m(n, env, pre)
        if isinstance(n.func, ast.Attribute) and n.func.attr in ("pop",) and isinstance(n.func.value, ast.Name):
            return self.call_pop(n, env, pre)
        if text in ("bytearray.fromhex", "bytes.fromhex") and len(n.args) == 1 and isinstance(n.args[0], ast.Constant) \
                and isinstance(n.args[0].value, str):
            return self.lit_val(bytes.fromhex(n.args[0].value))
        if isinstance(n.func, ast.Attribute) and n.func.attr == "index" and len(n.args) == 1 \
                and isinstance(n.func.value, ast.Tuple):
            items = [self.expr(e, env, pre) for e in n.func.value.elts]
            x = self.expr(n.args[0], env, pre)
            if x.ty != INT or not all(i.ty == INT for i in items):
                raise Refuse("index() on a display with non-int elements")
            t = self.temp()
            pre.append(("bind", t, ["PyFn.indexOf [%s] %s" % (", ".join(i.code for i in items), x.code)]))
            return Val(t, INT, True)
        if isinstance(n.func, ast.Attribute) and n.func.attr == "index" and len(n.args) == 1:
            l = self.expr(n.func.value, env, pre)
            if isinstance(l.ty, tuple) and l.ty[0] == "list":
                x = self.coerce(self.expr(n.args[0], env, pre), l.ty[1], "index() argument")
                t = self.temp()
                pre.append(("bind", t, ["PyFn.indexOfG %s %s" % (l.code, x.code)]))
                return Val(t, INT, True)
            raise Refuse("index() on %s" % (l.ty,))
        if isinstance(n.func, ast.Attribute) and n.func.attr == "startswith" and len(n.args) == 1:
            x = self.expr(n.func.value, env, pre)
            y = self.expr(n.args[0], env, pre)
            if x.ty == BYTES and y.ty == BYTES:
                return Val("(decide (List.isPrefixOf %s %s = true))" % (y.code, x.code), BOOL)
            if x.ty == STR and y.ty == STR:
                return Val("(PyFn.strStartsWith %s %s)" % (x.code, y.code), BOOL)
            raise Refuse("startswith on %s, %s" % (x.ty, y.ty))
        if isinstance(n.func, ast.Attribute) and n.func.attr == "endswith" and len(n.args) == 1:
            x = self.expr(n.func.value, env, pre)
            y = self.expr(n.args[0], env, pre)
            if x.ty == BYTES and y.ty == BYTES:
                return Val("(List.isSuffixOf %s %s)" % (y.code, x.code), BOOL)
            if x.ty == STR and y.ty == STR:
                return Val("(PyFn.strEndsWith %s %s)" % (x.code, y.code), BOOL)
            raise Refuse("endswith on %s, %s" % (x.ty, y.ty))
        raise Refuse("call of %s" % text)

    def call_translated(self, lean, n, env, pre):
        callee = self.done.get(lean)
        if callee is None or callee.refused:
            raise Refuse("callee %s is not translated" % lean)
        self.called.add(lean)
        args = [self.expr(a, env, pre) for a in n.args]
        if len(args) > len(callee.params):
            raise Refuse("call of %s with %d arguments" % (lean, len(args)))
        for (pn, pt) in callee.params[len(args):]:      # omitted arguments: the defaults of the source
            if pn not in callee.defaults:
                raise Refuse("call of %s: no argument and no constant default for %s" % (lean, pn))
            args.append(self.lit_val(callee.defaults[pn]))
        args = [self.coerce(a, pt, "argument %s of %s" % (pn, lean)) for a, (pn, pt) in zip(args, callee.params)]
        extra = []
        for (src, pn, pt) in callee.binds:
            if pn not in env or env[pn].ty != pt:
                raise Refuse("call of %s: bound attribute %s is not available in the caller" % (lean, src))
            extra.append(env[pn].lean)
        for text_, (opn_, _a, _r, _m) in sorted(callee.opaque.items()):
            # function-valued parameters of the callee are passed on from the caller's own
            if opn_ not in env or env[opn_].ty != "opaque":
                raise Refuse("call of %s: its function parameter %s is not a function parameter of the caller" % (lean, opn_))
            extra.append(env[opn_].lean)
        if callee.fuel:
            self.fuel = True
        code = " ".join([callee.lean] + (["fuel"] if callee.fuel else []) + [atom(a.code) for a in args] + extra)
        if callee.mon:
            t = self.temp()
            pre.append(("bind", t, [code]))
            return Val(t, callee.rty)
        return Val("(%s)" % code, callee.rty)

    def coerce(self, v, ty, what):
        """value v where type ty is expected: T -> T | None is `some`, None -> `none`"""
        if v.ty == ty:
            return v
        if ty == ANY:
            return Val(self.coerce_tuple_any(v), ANY)
        if isinstance(ty, tuple) and ty[0] == "tuple" and isinstance(v.ty, tuple) and v.ty[0] == "tuple" \
                and len(ty) == len(v.ty):
            comps = [self.coerce(self.comp(v, i), w, what) for i, w in enumerate(ty[1:])]
            r = Val("(" + ", ".join(c.code for c in comps) + ")", ty)
            r.comps = comps
            return r
        if isinstance(ty, tuple) and ty[0] == "opt":
            if v.ty == NONE:
                return Val("(none : %s)" % lean_type(ty), ty)
            if v.ty == ty[1]:
                return Val("(some %s)" % v.code, ty)
            if isinstance(ty[1], tuple) and ty[1][0] == "tuple" and isinstance(v.ty, tuple) and v.ty[0] == "tuple":
                return Val("(some %s)" % self.coerce(v, ty[1], what).code, ty)
        raise Refuse("%s has type %s, expected %s" % (what, v.ty, ty))

    def call_pop(self, n, env, pre):
        name = n.func.value.id
        if name not in env or env[name].ty != BYTES:
            raise Refuse("pop on %s" % name)
        if name in self.aliased:
            raise Refuse("mutation of %s which may be aliased" % name)
        if len(n.args) == 1 and isinstance(n.args[0], ast.Constant) and n.args[0].value == 0:
            f = "PyFn.pop0"
        elif not n.args:
            f = "PyFn.popLast"
        else:
            raise Refuse("pop with index other than 0")
        t = self.temp()
        new = self.fresh(name)
        pre.append(("bind", "(%s, %s)" % (t, new), ["%s %s" % (f, env[name].lean)], name))
        env[name] = Var(new, BYTES)
        return Val(t, INT, True)

    def c_len(self, n, env, pre):
        (a,) = n.args
        v = self.expr(a, env, pre)
        if v.ty == BYTES or v.ty == SET or (isinstance(v.ty, tuple) and v.ty[0] == "list"):
            return Val("(PyFn.len %s)" % v.code, INT, True)
        if isinstance(v.ty, tuple) and v.ty[0] == "tuple":
            return self.lit_val(len(v.ty) - 1)
        if v.ty in (INT, BOOL, NONE):
            return self.type_error(pre, INT)      # object of type 'int' has no len()
        raise Refuse("len of %s" % (v.ty,))

    def bytes_ctor(self, n, env, pre):
        if not n.args:
            return Val("([] : Bytes)", BYTES)
        if len(n.args) != 1:
            raise Refuse("bytes constructor with %d arguments" % len(n.args))
        a = n.args[0]
        if isinstance(a, ast.List):
            vs = [self.expr(e, env, pre) for e in a.elts]
            if not all(v.ty == INT for v in vs):
                raise Refuse("byte list with non-int elements")
            t = self.temp()
            pre.append(("bind", t, ["PyFn.mkBytes [%s]" % ", ".join(v.code for v in vs)]))
            return Val(t, BYTES)
        v = self.expr(a, env, pre)
        if v.ty == BYTES:
            return Val(v.code, BYTES)
        if v.ty == INT:
            t = self.temp()
            pre.append(("bind", t, ["PyFn.zeros %s" % v.code]))
            return Val(t, BYTES)
        if v.ty == LIST(INT):
            t = self.temp()
            pre.append(("bind", t, ["PyFn.mkBytes %s" % v.code]))
            return Val(t, BYTES)
        if isinstance(v.ty, tuple) and v.ty[0] == "tuple" and all(x == INT for x in v.ty[1:]):
            arity = len(v.ty) - 1
            comps = [atom(v.code) + ".2" * i + (".1" if i < arity - 1 else "") for i in range(arity)]
            t = self.temp()
            pre.append(("bind", t, ["PyFn.mkBytes [%s]" % ", ".join(comps)]))
            return Val(t, BYTES)
        if isinstance(v.ty, tuple) and v.ty[0] == "tuple":
            # elements are converted left to right: ValueError for an int outside range(256) in front of the
            # first element that cannot be interpreted as an integer (TypeError)
            ints = []
            for i in range(len(v.ty) - 1):
                c = self.comp(v, i)
                if c.ty != INT:
                    break
                ints.append(c.code)
            if ints:
                pre.append(("bind", "_", ["PyFn.mkBytes [%s]" % ", ".join(ints)]))
            return self.type_error(pre, BYTES)
        raise Refuse("bytes constructor on %s" % (v.ty,))

    c_bytearray = bytes_ctor
    c_bytes = bytes_ctor

    def c_slice(self, n, env, pre):
        if len(n.args) != 2:
            raise Refuse("slice() with %d arguments" % len(n.args))
        a, b = [self.expr(x, env, pre) for x in n.args]
        if a.ty != INT or b.ty != INT:
            raise Refuse("slice() bounds")
        return Val("(%s, %s)" % (a.code, b.code), TUP(INT, INT))

    def c_range(self, n, env, pre):
        args = [self.expr(x, env, pre) for x in n.args]
        if len(args) == 3 and all(a.ty == INT for a in args):
            t = self.temp()
            pre.append(("bind", t, ["PyFn.rangeStep %s %s %s" % (args[0].code, args[1].code, args[2].code)]))
            v = Val(t, LIST(INT))
            v.elem_nn = args[0].nn and args[2].nn
            return v
        if not all(a.ty == INT for a in args) or not 1 <= len(args) <= 2:
            raise Refuse("range() with non-int bounds")
        lo = args[0] if len(args) == 2 else self.lit_val(0)
        hi = args[-1]
        v = Val("(PyFn.range %s %s)" % (lo.code, hi.code), LIST(INT))
        v.elem_nn = lo.nn
        return v

    def c_set(self, n, env, pre):
        if len(n.args) == 0:
            return Val("([] : List Int)", SET)
        (a,) = n.args
        if isinstance(a, ast.Call) and ast.unparse(a.func) == "range":
            v = self.c_range(a, env, pre)
            return Val(v.code, SET)     # a range has no duplicates
        raise Refuse("set() of something other than a range")

    def minmax(self, n, env, pre, f):
        args = [self.expr(x, env, pre) for x in n.args]
        if len(args) != 2 or not all(a.ty == INT for a in args):
            raise Refuse("min/max other than of two ints")
        nn = (args[0].nn and args[1].nn) if f == "imin" else (args[0].nn or args[1].nn)
        return Val("(PyFn.%s %s %s)" % (f, args[0].code, args[1].code), INT, nn)

    def c_type(self, n, env, pre):
        (a,) = n.args
        v = self.expr(a, env, pre)
        if isinstance(v.ty, tuple) and v.ty[0] == "opt":
            raise Refuse("type() of an optional value outside a None test")
        r = Val("()", NONE)
        r.type_of = v.ty          # only comparable with a type name
        return r

    def c_tuple(self, n, env, pre):
        (a,) = n.args
        v = self.expr(a, env, pre)
        if v.ty == BYTES:
            return Val("(PyFn.ints %s)" % v.code, LIST(INT))     # only comparable (with an int tuple display)
        raise Refuse("tuple() of %s" % (v.ty,))

    def c_memoryview(self, n, env, pre):
        (a,) = n.args
        v = self.expr(a, env, pre)
        if v.ty != BYTES:
            raise Refuse("memoryview of %s" % (v.ty,))
        return v

    def c_sum(self, n, env, pre):
        (a,) = n.args
        v = self.expr(a, env, pre)
        if v.ty == BYTES:
            return Val("(PyFn.sum (PyFn.ints %s))" % v.code, INT, True)
        if v.ty == LIST(INT):
            return Val("(PyFn.sum %s)" % v.code, INT)
        raise Refuse("sum of %s" % (v.ty,))

    def c_min(self, n, env, pre):
        return self.minmax(n, env, pre, "imin")

    def c_max(self, n, env, pre):
        return self.minmax(n, env, pre, "imax")

    def c_bool(self, n, env, pre):
        (a,) = n.args
        return Val("(decide %s)" % self.cond(a, env, pre), BOOL)

    def c_int(self, n, env, pre):
        (a,) = n.args
        v = self.expr(a, env, pre)
        if v.ty == INT:
            return v
        if v.ty == BOOL:
            return Val("(if %s = true then 1 else 0)" % v.code, INT, True)
        raise Refuse("int() of %s" % (v.ty,))

    # -- struct
    @staticmethod
    def parse_fmt(fmt):
        """-> list of fields ("int", Fmt constructor) | ("pad", n) | ("bytes", n) | ("pascal", n);
        a byte order prefix is required for multi-octet integer fields"""
        order = ""
        if fmt and fmt[0] in "<>!=@":
            order, fmt = fmt[0], fmt[1:]
        out = []
        pieces = list(re.finditer(r"(\d*)([A-Za-z?])", fmt))
        if "".join(m.group(0) for m in pieces) != fmt:
            raise Refuse("struct format %r" % fmt)
        for m in pieces:
            cnt, ch = m.group(1), m.group(2)
            k = int(cnt) if cnt else 1
            if ch == "B":
                out += [("int", "B")] * k
            elif ch in "HIL":
                ch = "I" if ch == "L" else ch
                if order in (">", "!"):
                    out += [("int", ch + "be")] * k
                elif order == "<":
                    out += [("int", ch + "le")] * k
                else:
                    raise Refuse("struct format %r: native byte order for a multi-octet field" % fmt)
            elif ch == "x":
                out.append(("pad", k))
            elif ch == "s":
                out.append(("bytes", k))
            elif ch == "p":
                if k < 1:
                    raise Refuse("struct format 0p")
                out.append(("pascal", k))
            else:
                raise Refuse("struct format character %r" % ch)
        return out

    FSIZE = {"B": 1, "Hbe": 2, "Hle": 2, "Ibe": 4, "Ile": 4}

    def c_struct_pack(self, n, env, pre, fmt_node=None):
        f = n.args[0] if fmt_node is None else fmt_node
        if fmt_node is None:
            choice = None
            if isinstance(f, ast.IfExp):
                choice = (f.test, f.body, f.orelse)
            elif isinstance(f, ast.Name) and f.id in env and getattr(env[f.id], "choice", None):
                choice = env[f.id].choice
            if choice is not None and all(isinstance(x, ast.Constant) and isinstance(x.value, str) for x in choice[1:]):
                # `pack(fmt1 if c else fmt2, ..)`: each format in its branch (the arguments are evaluated in both
                # copies, only one of which runs)
                c = self.cond(choice[0], env, pre) if not isinstance(choice[0], str) else choice[0]
                p1, p2 = [], []
                v1 = self.c_struct_pack(n, dict(env), p1, fmt_node=choice[1])
                v2 = self.c_struct_pack(n, dict(env), p2, fmt_node=choice[2])
                self.no_mutation(p1 + p2)
                t = self.temp()
                r1 = self.wrap_pre(p1, Res([v1.code], False)).lifted()
                r2 = self.wrap_pre(p2, Res([v2.code], False)).lifted()
                pre.append(("bind", t, ["if %s then" % c] + indent(paren(r1)) + ["else"] + indent(paren(r2))))
                return Val(t, BYTES)
        if not (isinstance(f, ast.Constant) and isinstance(f.value, str)):
            raise Refuse("struct.pack with a computed format")
        fields = self.parse_fmt(f.value)
        if any(k not in ("int", "pad") for k, _ in fields):
            raise Refuse("struct.pack with a string field")
        kinds = [x for k, x in fields if k == "int"]
        args = [self.expr(a, env, pre) for a in n.args[1:]]
        if len(args) != len(kinds):
            raise Refuse("struct.pack argument count")
        if any(a.ty in (BYTES, NONE) or (isinstance(a.ty, tuple) and a.ty[0] == "tuple") for a in args):
            t = self.temp()      # "required argument is not an integer"
            pre.append(("bind", t, ["(Except.error Exc.struct : Py Bytes)"]))
            return Val(t, BYTES)
        if not all(a.ty == INT for a in args):
            raise Refuse("struct.pack argument type")
        # one PyFn.pack per run of integer fields, pad octets in between (all failures are struct.error)
        parts, run_k, run_a, ai = [], [], [], 0

        def flush():
            if run_k:
                t = self.temp()
                pre.append(("bind", t, ["PyFn.pack [%s] [%s]" % (", ".join("." + k for k in run_k),
                                                                 ", ".join(a.code for a in run_a))]))
                parts.append(t)
                del run_k[:], run_a[:]

        for k, x in fields:
            if k == "int":
                run_k.append(x)
                run_a.append(args[ai])
                ai += 1
            else:
                flush()
                parts.append("[" + ", ".join(["0"] * x) + "]")
        flush()
        if not parts:
            return Val("([] : Bytes)", BYTES)
        v = Val(parts[0] if len(parts) == 1 else "(" + " ++ ".join(parts) + ")", BYTES)
        v.blen = sum(self.FSIZE[x] if k == "int" else x for k, x in fields)      # statically known length
        return v

    def from_struct(self, name):
        """`pack`/`unpack`/`unpack_from` used as bare names: only when imported from struct"""
        for x in self.module.body:
            if isinstance(x, ast.ImportFrom) and x.module == "struct" and any(a.name == name and a.asname is None for a in x.names):
                return True
        raise Refuse("%s is not imported from struct" % name)

    def c_pack(self, n, env, pre):
        self.from_struct("pack")
        return self.c_struct_pack(n, env, pre)

    def c_unpack(self, n, env, pre):
        self.from_struct("unpack")
        return self.unpack_common(n, env, pre, True)

    def c_unpack_from(self, n, env, pre):
        self.from_struct("unpack_from")
        return self.unpack_common(n, env, pre, False)

    def unpack_common(self, n, env, pre, exact, fmt_node=None):
        f = n.args[0] if fmt_node is None else fmt_node
        if fmt_node is None:
            choice = None
            if isinstance(f, ast.IfExp):
                choice = (f.test, f.body, f.orelse)
            elif isinstance(f, ast.Name) and f.id in env and getattr(env[f.id], "choice", None):
                choice = env[f.id].choice
            if choice is not None and all(isinstance(x, ast.Constant) and isinstance(x.value, str) for x in choice[1:]):
                # `unpack(fmt1 if c else fmt2, ..)`: each format in its branch, same result type
                c = self.cond(choice[0], env, pre) if not isinstance(choice[0], str) else choice[0]
                p1, p2 = [], []
                v1 = self.unpack_common(n, dict(env), p1, exact, fmt_node=choice[1])
                v2 = self.unpack_common(n, dict(env), p2, exact, fmt_node=choice[2])
                if v1.ty != v2.ty:
                    raise Refuse("formats of different result types %s / %s" % (v1.ty, v2.ty))
                self.no_mutation(p1 + p2)
                t = self.temp()
                r1 = self.wrap_pre(p1, Res([v1.code], False)).lifted()
                r2 = self.wrap_pre(p2, Res([v2.code], False)).lifted()
                pre.append(("bind", t, ["if %s then" % c] + indent(paren(r1)) + ["else"] + indent(paren(r2))))
                r = Val(t, v1.ty)
                if isinstance(v1.ty, tuple) and v1.ty[0] == "tuple1":
                    r.inner = Val(t, v1.ty[1])
                return r
        data = self.expr(n.args[1], env, pre)
        if data.ty != BYTES:
            raise Refuse("struct.unpack on %s" % (data.ty,))
        if exact:
            off = self.lit_val(0)
            if len(n.args) != 2:
                raise Refuse("struct.unpack arguments")
        else:
            off = self.expr(n.args[2], env, pre) if len(n.args) == 3 else self.lit_val(0)
            if len(n.args) not in (2, 3) or off.ty != INT:
                raise Refuse("struct.unpack_from arguments")
        # formats: constant string of integer fields, or '%ds' % n, or 'B%ds' % n
        fields = []   # ("int", kind) | ("bytes", Val n)
        if isinstance(f, ast.Constant) and isinstance(f.value, str):
            fields = self.parse_fmt(f.value)
        elif isinstance(f, ast.BinOp) and isinstance(f.op, ast.Mod) and isinstance(f.left, ast.Constant) \
                and isinstance(f.left.value, str) and re.fullmatch(r"[<>!=@]?B*%ds", f.left.value):
            cnt = self.expr(f.right, env, pre)
            if cnt.ty != INT:
                raise Refuse("struct format count")
            fields = [("int", "B")] * f.left.value.count("B") + [("bytes", cnt)]
        else:
            raise Refuse("struct format %s" % ast.unparse(f))
        size_terms, fixed = [], 0
        for kind, x in fields:
            if kind == "int":
                fixed += self.FSIZE[x]
            elif isinstance(x, int):      # pad, fixed size string, pascal string
                fixed += x
            else:
                size_terms.append(x.code)
        size = " + ".join([str(fixed)] + size_terms) if size_terms else str(fixed)
        neg = [x for kind, x in fields if kind == "bytes" and not isinstance(x, int) and not x.nn]
        # a negative count makes the format invalid: struct.error
        for x in neg:
            pre.append(("bind", "_", ["if %s < 0 then Except.error Exc.struct else Except.ok ()" % x.code]))
        if exact:
            pre.append(("bind", "_", ["PyFn.needExact %s (%s)" % (data.code, size)]))
            pos = "0"
        else:
            pos = self.temp()
            pre.append(("bind", pos, ["PyFn.needFrom %s %s (%s)" % (data.code, off.code, size)]))
        vals = []
        acc = 0
        dyn = []
        for kind, x in fields:
            at = " + ".join([pos] + ([str(acc)] if acc else []) + dyn)
            at = "(%s)" % at if (acc or dyn) else pos
            if kind == "int":
                w = self.FSIZE[x]
                fn = "PyFn.ule" if x.endswith("le") else "PyFn.ube"
                vals.append(Val("(%s %s %s %d)" % (fn, data.code, at, w), INT, True))
                acc += w
            elif kind == "pad":
                acc += x
            elif kind == "pascal":
                vals.append(Val("(PyFn.pascal %s %s %d)" % (data.code, at, x), BYTES))
                acc += x
            elif isinstance(x, int):
                vals.append(Val("(PyFn.sub %s %s %d)" % (data.code, at, x), BYTES))
                acc += x
            else:
                vals.append(Val("(PyFn.sub %s %s %s)" % (data.code, at, x.code), BYTES))
                dyn.append(x.code)
        if len(vals) == 1:
            # a 1-tuple: only `[0]` or `(x,) = ...` can consume it
            v = Val(vals[0].code, ("tuple1", vals[0].ty), vals[0].nn)
            v.inner = vals[0]
            return v
        return Val("(" + ", ".join(v.code for v in vals) + ")", TUP(*[v.ty for v in vals]))

    def c_struct_unpack(self, n, env, pre):
        return self.unpack_common(n, env, pre, True)

    def c_struct_unpack_from(self, n, env, pre):
        return self.unpack_common(n, env, pre, False)

    # ------------------------------------------------------------------ conditions (Lean Prop)
    def truthy(self, v):
        if v.ty == BOOL:
            if v.code.startswith("(decide ") and v.code.endswith(")"):
                return v.code[len("(decide "):-1]
            return "(%s = true)" % v.code
        if v.ty == INT:
            return "(%s ≠ 0)" % v.code
        if v.ty == BYTES or v.ty == SET or (isinstance(v.ty, tuple) and v.ty[0] == "list"):
            return "(%s ≠ [])" % v.code
        if isinstance(v.ty, tuple) and v.ty[0] == "opt" and v.ty[1] == BYTES:
            return "(%s ≠ none ∧ %s ≠ some [])" % (v.code, v.code)
        if isinstance(v.ty, tuple) and v.ty[0] == "opt" and v.ty[1] == INT:
            return "(%s ≠ none ∧ %s ≠ some 0)" % (v.code, v.code)
        raise Refuse("truth value of %s" % (v.ty,))

    def cond(self, n, env, pre):
        """-> Lean Prop (decidable) text; hoisted bindings go to pre"""
        if isinstance(n, (ast.Compare, ast.BoolOp)) and ast.unparse(n) in self.bound_names and ast.unparse(n) in env:
            return self.truthy(self.expr(n, env, pre))
        if isinstance(n, ast.BoolOp):
            # `x is not None and <rest>` / `x is None or <rest>` with x optional: <rest> sees x narrowed
            for i, v in enumerate(n.values[:-1]):
                if isinstance(v, ast.Compare) and len(v.ops) == 1 and isinstance(v.comparators[0], ast.Constant) \
                        and v.comparators[0].value is None and isinstance(v.left, (ast.Name, ast.Attribute)) \
                        and ((isinstance(n.op, ast.And) and isinstance(v.ops[0], ast.IsNot))
                             or (isinstance(n.op, ast.Or) and isinstance(v.ops[0], ast.Is))):
                    key = ast.unparse(v.left)
                    if key in env and isinstance(env[key].ty, tuple) and env[key].ty[0] == "opt":
                        props = [self.cond(b, env, pre) for b in n.values[:i]]
                        new = self.fresh(key.split(".")[-1].lstrip("_") or "v")
                        env2 = dict(env)
                        env2[key] = Var(new, env[key].ty[1])
                        after = n.values[i + 1:]
                        rest_node = after[0] if len(after) == 1 else ast.BoolOp(op=n.op, values=after)
                        p2 = []
                        c2 = self.cond(rest_node, env2, p2)
                        if p2:
                            raise Refuse("effects behind a None test inside and/or")
                        none_val = "false" if isinstance(n.op, ast.And) else "true"
                        props.append("((match %s with | none => %s | some %s => decide %s) = true)"
                                     % (env[key].lean, none_val, new, c2))
                        return "(" + (" ∧ " if isinstance(n.op, ast.And) else " ∨ ").join(props) + ")"
            first = self.cond(n.values[0], env, pre)
            props = [first]
            for k, v in enumerate(n.values[1:], 1):
                p2 = []
                c = self.cond(v, env, p2)
                if not p2:
                    props.append(c)
                    continue
                # later operand has effects: evaluate it only when reached (short circuit)
                self.no_mutation(p2)
                rest_node = ast.BoolOp(op=n.op, values=n.values[k:]) if len(n.values) - k > 1 else v
                p3 = []
                c3 = self.cond(rest_node, dict(env), p3)
                inner = self.wrap_pre(p3, Res(["decide %s" % c3], False)).lifted()
                t = self.temp()
                sofar = (" ∧ " if isinstance(n.op, ast.And) else " ∨ ").join(props)
                if isinstance(n.op, ast.And):
                    lines = ["if %s then" % sofar] + indent(paren(inner)) + ["else Except.ok false"]
                else:
                    lines = ["if %s then Except.ok true else" % sofar] + indent(paren(inner))
                pre.append(("bind", t, lines))
                return "(%s = true)" % t
            return "(" + (" ∧ " if isinstance(n.op, ast.And) else " ∨ ").join(props) + ")"
        if isinstance(n, ast.UnaryOp) and isinstance(n.op, ast.Not):
            return "(¬ %s)" % self.cond(n.operand, env, pre)
        if isinstance(n, ast.Compare):
            left = self.expr(n.left, env, pre)
            props = []
            for op, rn in zip(n.ops, n.comparators):
                p, left = self.compare(left, op, rn, env, pre)
                props.append(p)
                if left is None and len(n.ops) > 1:
                    raise Refuse("chained comparison with `in`")
            # operands are evaluated once, left to right (all of them: a later operand of a chain is
            # skipped by Python when an earlier link is false, so effects there are refused)
            if len(n.ops) > 1:
                chk = []
                for rn in n.comparators[1:]:
                    self.expr(rn, dict(env), chk)
                if chk:
                    raise Refuse("chained comparison with effects in a later operand")
            return props[0] if len(props) == 1 else "(" + " ∧ ".join(props) + ")"
        v = self.expr(n, env, pre)
        return self.truthy(v)

    def compare(self, a, op, rn, env, pre):
        opn = type(op).__name__
        if opn in ("In", "NotIn"):
            if isinstance(rn, ast.Tuple) or isinstance(rn, ast.List):
                items = [self.expr(e, env, pre) for e in rn.elts]
                if a.ty == LIST(INT):       # `tuple(x) in [(6, 0, 255, 255), (6, 0) + tuple(y)]`
                    conv = []
                    for i in items:
                        if isinstance(i.ty, tuple) and i.ty[0] == "tuple" and all(x == INT for x in i.ty[1:]):
                            i = Val("[" + ", ".join(self.comp(i, k).code for k in range(len(i.ty) - 1)) + "]", LIST(INT))
                        if i.ty != LIST(INT):
                            raise Refuse("`in` on a display with mixed types")
                        conv.append(i)
                    p = "(" + " ∨ ".join("%s = %s" % (a.code, i.code) for i in conv) + ")"
                    return (p if opn == "In" else "(¬ %s)" % p), None
                int_tuple = isinstance(a.ty, tuple) and a.ty[0] == "tuple" and all(x == INT for x in a.ty[1:])
                if not all(i.ty == a.ty for i in items) or not (a.ty in (INT, STR) or int_tuple):
                    raise Refuse("`in` on a display with mixed types")
                p = "(" + " ∨ ".join("%s = %s" % (a.code, i.code) for i in items) + ")"
            else:
                s = self.expr(rn, env, pre)
                if s.ty == SET and a.ty == INT or s.ty == LIST(INT) and a.ty == INT:
                    p = "(%s ∈ %s)" % (a.code, s.code)
                elif s.ty == BYTES and a.ty == INT:
                    p = "(%s ∈ PyFn.ints %s)" % (a.code, s.code)
                else:
                    raise Refuse("`in` on %s" % (s.ty,))
            return (p if opn == "In" else "(¬ %s)" % p), None
        if opn in ("Is", "IsNot", "Eq", "NotEq") and isinstance(rn, ast.Name) and rn.id in ("int", "bytes", "bytearray", "str", "bool", "tuple") \
                and getattr(a, "type_of", None) is not None:
            # `type(x) is int`: decided from the declared type of x
            t = a.type_of
            same = {"int": t == INT, "bool": t == BOOL, "str": t == STR, "tuple": isinstance(t, tuple) and t[0] == "tuple",
                    "bytes": False, "bytearray": t == BYTES}[rn.id]
            if rn.id == "bytes" and t == BYTES:
                raise Refuse("type(x) is bytes on a value that may be bytes or bytearray")
            pos = opn in ("Is", "Eq")
            return ("True" if same == pos else "False"), None
        b = self.expr(rn, env, pre)
        return self.compare_vals(a, opn, b), b

    def compare_vals(self, a, opn, b):
        if opn in ("Is", "IsNot") and b.ty == BOOL and isinstance(b.lit, bool):
            if a.ty == BOOL:
                p = "(%s = %s)" % (a.code, "true" if b.lit else "false")
                return p if opn == "Is" else "(¬ %s)" % p
            if a.ty == OPT(BOOL):
                p = "(%s = some %s)" % (a.code, "true" if b.lit else "false")
                return p if opn == "Is" else "(¬ %s)" % p
            if a.ty == ANY or (isinstance(a.ty, tuple) and a.ty[0] == "opt" and a.ty[1] in (ANY, BOOL)):
                raise Refuse("`is True/False` on a value of type %s" % (a.ty,))
            return "False" if opn == "Is" else "True"      # no other declared type is the object True/False
        if opn in ("Is", "IsNot") and a.ty == INT and b.ty == INT:
            # identity of ints: equality for the small ints CPython caches (-5..256) - constants only
            if b.lit is None or not -5 <= b.lit <= 256:
                raise Refuse("`is` between ints that are not small constants")
            return "(%s %s %s)" % (a.code, "=" if opn == "Is" else "≠", b.code)
        if opn in ("Is", "IsNot"):
            if b.ty != NONE:
                raise Refuse("`is` with something other than None")
            if isinstance(a.ty, tuple) and a.ty[0] == "opt":
                return "(%s %s none)" % (a.code, "=" if opn == "Is" else "≠")
            if a.ty == NONE:
                return "True" if opn == "Is" else "False"
            # a value whose declared type excludes None
            return "False" if opn == "Is" else "True"
        sym = {"Eq": "=", "NotEq": "≠", "Lt": "<", "LtE": "≤", "Gt": ">", "GtE": "≥"}[opn]
        if opn in ("Eq", "NotEq") and {a.ty, b.ty} != {LIST(INT)} and LIST(INT) in (a.ty, b.ty):
            l, t = (a, b) if a.ty == LIST(INT) else (b, a)
            if isinstance(t.ty, tuple) and t.ty[0] == "tuple" and all(x == INT for x in t.ty[1:]):
                comps = [self.comp(t, i).code for i in range(len(t.ty) - 1)]
                return "(%s %s [%s])" % (l.code, sym, ", ".join(comps))
        if isinstance(a.ty, tuple) and a.ty[0] == "opt" and b.ty == a.ty[1] and opn in ("Eq", "NotEq"):
            return "(%s %s some %s)" % (a.code, sym, b.code)
        if a.ty != b.ty:
            if opn in ("Eq", "NotEq") and NONE in (a.ty, b.ty):
                return "False" if opn == "Eq" else "True"
            raise Refuse("comparison of %s with %s" % (a.ty, b.ty))
        if opn in ("Eq", "NotEq"):
            if a.ty == ANY:
                raise Refuse("comparison of dynamically typed values")
            return "(%s %s %s)" % (a.code, sym, b.code)
        if a.ty != INT:
            raise Refuse("ordering of %s" % (a.ty,))
        return "(%s %s %s)" % (a.code, sym, b.code)

    # ------------------------------------------------------------------ plumbing
    def no_mutation(self, pre):
        for p in pre:
            if len(p) == 4:
                raise Refuse("mutation of %s in a conditionally evaluated expression" % p[3])

    def join_type(self, a, b):
        if a == b:
            return a
        if a == NONE and b != NONE:
            raise Refuse("join of None and %s" % (b,))
        raise Refuse("branches of different types %s / %s" % (a, b))

    def wrap_pre(self, pre, res):
        """put the hoisted bindings in front of a block"""
        lines, mon = res.lines, res.mon
        for p in reversed(pre):
            kind, pat, code = p[0], p[1], p[2]
            if kind == "bind":
                if not mon:
                    lines, mon = ok(lines), True
                if lines == ["Except.ok %s" % pat] and len(p) == 3:
                    lines = list(code)       # `x >>= fun t => Except.ok t`
                    continue
                c = paren(code) if (len(code) > 1 or code[0].startswith(("if ", "match "))) else list(code)
                lines = c[:-1] + [c[-1] + " >>= fun %s =>" % pat] + lines
            else:
                if len(code) == 1:
                    lines = ["let %s := %s" % (pat, code[0])] + lines
                else:
                    lines = ["let %s :=" % pat] + indent(paren(code)) + lines
        return Res(lines, mon)

    # ------------------------------------------------------------------ statements
    # block(stmts, env, k): k(env) -> Res is the continuation at fall-through
    def block(self, stmts, env, k):
        if not stmts:
            return k(env)
        s, rest = stmts[0], stmts[1:]
        if self.spec.drop and not isinstance(s, ast.Expr) and self.is_dropped(s):
            if not isinstance(s, (ast.Assign, ast.AugAssign)):
                raise Refuse("dropped statement of kind %s (line %d)" % (type(s).__name__, s.lineno))
            return self.block(rest, env, k)      # its targets stay unbound: any later read refuses
        m = getattr(self, "s_" + type(s).__name__, None)
        if m is None:
            raise Refuse("statement %s (line %d)" % (type(s).__name__, s.lineno))
        return m(s, rest, env, k)

    def s_With(self, s, rest, env, k):
        """`with <lock>:` (no `as`): the block itself; the context expression must be a plain name/attribute chain"""
        for it in s.items:
            if it.optional_vars is not None:
                raise Refuse("with .. as (line %d)" % s.lineno)
            x = it.context_expr
            while isinstance(x, ast.Attribute):
                x = x.value
            if not isinstance(x, ast.Name):
                raise Refuse("with on %s (line %d)" % (ast.unparse(it.context_expr)[:30], s.lineno))
        return self.block(list(s.body) + rest, env, k)

    def s_Delete(self, s, rest, env, k):
        """`del x[a:b]` on a local bytearray"""
        env = dict(env)
        pre = []
        for t in s.targets:
            if not (isinstance(t, ast.Subscript) and isinstance(t.slice, ast.Slice) and t.slice.step is None
                    and isinstance(t.value, ast.Name) and t.value.id in env and env[t.value.id].ty == BYTES):
                raise Refuse("del %s (line %d)" % (ast.unparse(t)[:30], s.lineno))
            name = t.value.id
            if name in self.aliased:
                raise Refuse("mutation of %s which may be aliased" % name)
            lo = self.expr(t.slice.lower, env, pre) if t.slice.lower is not None else self.lit_val(0)
            hi = self.expr(t.slice.upper, env, pre) if t.slice.upper is not None else Val("(PyFn.len %s)" % env[name].lean, INT)
            if lo.ty != INT or hi.ty != INT:
                raise Refuse("del with non-int bounds")
            new = self.fresh(name)
            pre.append(("let", new, ["PyFn.delSlice %s %s %s" % (env[name].lean, lo.code, hi.code)]))
            env[name] = Var(new, BYTES)
        return self.wrap_pre(pre, self.block(rest, env, k))

    def s_Pass(self, s, rest, env, k):
        return self.block(rest, env, k)

    def s_Import(self, s, rest, env, k):
        """`import a.b` / `from a import b` inside a function body: no value of the subset depends on it (module
        constants are looked up by their dotted text); refused when it would rebind a name the function uses"""
        for a in s.names:
            bound = (a.asname or a.name).split(".")[0]
            if bound in env or bound == "*":
                raise Refuse("import rebinds the name %s (line %d)" % (bound, s.lineno))
        return self.block(rest, env, k)

    s_ImportFrom = s_Import

    def is_log_call(self, e):
        if isinstance(e, ast.Call) and isinstance(e.func, ast.Attribute):
            root = e.func.value
            while isinstance(root, ast.Attribute):
                root = root.value
            if isinstance(root, ast.Name) and root.id in LOG_ROOTS:
                return True
            if ast.unparse(e.func.value) in ("self.log", "cls.log"):
                return True
        return False

    def is_dropped(self, stmt):
        text = ast.unparse(stmt)
        if isinstance(stmt, ast.Expr) and isinstance(stmt.value, ast.Call) and ast.unparse(stmt.value.func) in self.spec.drop:
            return True
        return any(text.startswith(d) for d in self.spec.drop)

    def log_effects(self, nodes, env, pre, what):
        """arguments of a dropped call are evaluated by Python: index expressions in them are translated for the
        exception they may raise (value discarded), formatting itself is not modelled; starred arguments refuse"""
        for a in nodes:
            if isinstance(a, ast.Starred):
                raise Refuse("starred argument in %s (line %d)" % (what, a.lineno))
            for x in ast.walk(a):
                if isinstance(x, ast.Starred):
                    raise Refuse("starred argument in %s (line %d)" % (what, x.lineno))
            subs = [x for x in ast.walk(a) if isinstance(x, ast.Subscript) and not isinstance(x.slice, ast.Slice)]
            for x in subs:
                self.expr(x, env, pre)
            stripped = [a]
            self.check_inert_calls(stripped, what)

    def check_inert_calls(self, nodes, what):
        for a in nodes:
            for x in ast.walk(a):
                if isinstance(x, ast.Call):
                    f = ast.unparse(x.func)
                    if not (f in ("hexlify", "str", "repr", "len", "hex", "format", "binascii.hexlify", "bytes", "os.strerror",
                                  "bytearray", "tuple", "list", "int", "type") or f.endswith(".format") or f.endswith(".decode")
                            or f.endswith(".join") or f in self.spec.inert):
                        raise Refuse("call of %s inside %s (line %d)" % (f, what, x.lineno))

    def check_inert(self, nodes, what):
        """arguments of dropped calls (logging, exception constructors) must not be able to raise"""
        for a in nodes:
            for x in ast.walk(a):
                if isinstance(x, ast.Subscript) and not isinstance(x.slice, ast.Slice):
                    raise Refuse("index expression inside %s (line %d)" % (what, x.lineno))
                if isinstance(x, ast.Call):
                    f = ast.unparse(x.func)
                    if not (f in ("hexlify", "str", "repr", "len", "hex", "format", "binascii.hexlify", "bytes", "os.strerror",
                                  "bytearray", "tuple", "list", "int") or f.endswith(".format") or f.endswith(".decode")
                            or f.endswith(".join") or f in self.spec.inert):
                        raise Refuse("call of %s inside %s (line %d)" % (f, what, x.lineno))

    def s_Expr(self, s, rest, env, k):
        e = s.value
        if isinstance(e, ast.Constant):      # docstring
            return self.block(rest, env, k)
        if self.is_log_call(e):
            pre = []
            self.log_effects(e.args, dict(env), pre, "a logging call")
            return self.wrap_pre(pre, self.block(rest, env, k))
        if self.is_dropped(s):
            self.check_inert(e.args if isinstance(e, ast.Call) else [], "a dropped call")
            return self.block(rest, env, k)
        if isinstance(e, ast.Call) and (ast.unparse(e.func) in self.spec.calls or ast.unparse(e.func) in self.spec.opaque
                                        or (isinstance(e.func, ast.Name) and e.func.id in self.done)):
            pre = []
            env = dict(env)
            self.expr(e, env, pre)         # evaluated for its exception, the value is discarded
            return self.wrap_pre(pre, self.block(rest, env, k))
        # methods of a list / deque held in a local name or in a `stores=` attribute (`self.sock_list.appendleft(s)`)
        lname = None
        if isinstance(e, ast.Call) and isinstance(e.func, ast.Attribute):
            if isinstance(e.func.value, ast.Name):
                lname = e.func.value.id
            elif isinstance(e.func.value, ast.Attribute) and ast.unparse(e.func.value) in self.spec.stores:
                lname = ast.unparse(e.func.value)
        if lname is not None and lname in env and isinstance(env[lname].ty, tuple) and env[lname].ty[0] == "list" \
                and ((e.func.attr in ("append", "extend", "appendleft", "remove") and len(e.args) == 1)
                     or (e.func.attr == "popleft" and not e.args)) and not e.keywords:
            name, meth = lname, e.func.attr
            if name in self.aliased:
                raise Refuse("mutation of %s which may be aliased" % name)
            pre = []
            env = dict(env)
            lt = env[name].ty
            new = self.fresh(name.split(".")[-1].lstrip("_") or "v")
            if meth == "popleft":
                pre.append(("bind", new, ["PyFn.popLeft %s" % env[name].lean], name))
            else:
                a = self.expr(e.args[0], env, pre)
                if meth in ("append", "appendleft", "remove"):
                    a = self.coerce(a, lt[1], "%s argument" % meth)
                if meth == "remove":
                    pre.append(("bind", new, ["PyFn.removeFirst %s %s" % (env[name].lean, atom(a.code))], name))
                else:
                    if meth != "extend":
                        a = Val("[%s]" % a.code, lt)
                    if a.ty != lt:
                        raise Refuse("%s of %s to %s" % (meth, a.ty, lt))
                    pre.append(("let", new, ["%s ++ %s" % ((a.code, env[name].lean) if meth == "appendleft"
                                                          else (env[name].lean, a.code))]))
            env[name] = Var(new, lt)
            return self.wrap_pre(pre, self.block(rest, env, k))
        if isinstance(e, ast.Call) and isinstance(e.func, ast.Attribute) and isinstance(e.func.value, ast.Name) \
                and e.func.value.id in env and env[e.func.value.id].ty == BYTES:
            name, meth = e.func.value.id, e.func.attr
            if meth == "pop":
                pre = []
                env = dict(env)
                self.call_pop(e, env, pre)
                return self.wrap_pre(pre, self.block(rest, env, k))
            if meth in ("extend", "append") and len(e.args) == 1:
                if name in self.aliased:
                    raise Refuse("mutation of %s which may be aliased" % name)
                pre = []
                env = dict(env)
                a = self.expr(e.args[0], env, pre)
                if meth == "append":
                    if a.ty != INT:
                        raise Refuse("append of %s" % (a.ty,))
                    t = self.temp()
                    pre.append(("bind", t, ["PyFn.mkBytes [%s]" % a.code]))
                    a = Val(t, BYTES)
                if a.ty == LIST(INT):
                    t = self.temp()
                    pre.append(("bind", t, ["PyFn.mkBytes %s" % a.code]))
                    a = Val(t, BYTES)
                if a.ty != BYTES:
                    raise Refuse("extend with %s" % (a.ty,))
                new = self.fresh(name)
                pre.append(("let", new, ["%s ++ %s" % (env[name].lean, a.code)]))
                env[name] = Var(new, BYTES)
                return self.wrap_pre(pre, self.block(rest, env, k))
        raise Refuse("expression statement %s (line %d)" % (ast.unparse(e)[:40], s.lineno))

    @staticmethod
    def is_message_string(v):
        if isinstance(v, ast.BinOp) and isinstance(v.op, ast.Mod) and isinstance(v.left, ast.Constant) \
                and isinstance(v.left.value, str):
            return True
        if isinstance(v, ast.Call) and isinstance(v.func, ast.Attribute) and v.func.attr == "format" \
                and isinstance(v.func.value, ast.Constant) and isinstance(v.func.value.value, str):
            return True
        if isinstance(v, ast.BinOp) and isinstance(v.op, ast.Add):
            return FnT.is_message_string(v.left) or FnT.is_message_string(v.right) or any(
                isinstance(x, ast.Constant) and isinstance(x.value, str) for x in (v.left, v.right))
        return False

    def bind_target(self, target, v, env, pre):
        """assign compiled value v to an assignment target; returns nothing, updates env/pre"""
        if isinstance(target, ast.Attribute) and ast.unparse(target) in self.spec.stores:
            key = ast.unparse(target)
            if isinstance(v.ty, tuple) and v.ty[0] == "tuple1":
                raise Refuse("1-tuple bound to an attribute")
            new = self.fresh(target.attr.lstrip("_") or "v")
            pre.append(("let", new, [v.code]))
            env[key] = Var(new, v.ty, v.nn)
            return
        if isinstance(target, ast.Name):
            if isinstance(v.ty, tuple) and v.ty[0] == "tuple1":
                raise Refuse("1-tuple bound to a name")
            if target.id in self.bound_names:
                raise Refuse("assignment to the bound name %s" % target.id)
            new = self.fresh(target.id)
            # a bare numeral would elaborate as Nat: say the type
            pat = "%s : Int" % new if (v.ty == INT and re.fullmatch(r"\(?-?\d+\)?", v.code)) else new
            pre.append(("let", pat, [v.code]))
            env[target.id] = Var(new, v.ty, v.nn)
            if getattr(v, "choice", None):
                env[target.id].choice = v.choice
            return
        if isinstance(target, (ast.Tuple, ast.List)):
            if isinstance(v.ty, tuple) and v.ty[0] == "tuple1":
                if len(target.elts) != 1:
                    raise Refuse("unpacking a 1-tuple into %d names" % len(target.elts))
                return self.bind_target(target.elts[0], v.inner, env, pre)
            if v.ty == BYTES and all(isinstance(e, ast.Name) for e in target.elts):
                # unpacking a byte string: ValueError unless it has exactly that many octets
                tmp = self.temp()
                pre.append(("let", tmp, [v.code]))
                pre.append(("bind", "_", ["if PyFn.len %s ≠ %d then Except.error Exc.value else Except.ok ()" % (tmp, len(target.elts))]))
                for i, e in enumerate(target.elts):
                    new = self.fresh(e.id)
                    pre.append(("bind", new, ["PyFn.getB %s %d" % (tmp, i)]))
                    env[e.id] = Var(new, INT, True)
                return
            if not (isinstance(v.ty, tuple) and v.ty[0] == "tuple" and len(v.ty) - 1 == len(target.elts)):
                raise Refuse("tuple unpacking of %s into %d names" % (v.ty, len(target.elts)))
            if not all(isinstance(e, ast.Name) for e in target.elts):
                raise Refuse("nested unpacking target")
            names = []
            for e, ty in zip(target.elts, v.ty[1:]):
                new = self.fresh(e.id)
                names.append((e.id, new, ty))
            pre.append(("let", "(" + ", ".join(nw for _, nw, _ in names) + ")", [v.code]))
            for (py, nw, ty) in names:
                env[py] = Var(nw, ty)
            return
        if isinstance(target, ast.Subscript) and isinstance(target.value, ast.Name) \
                and not isinstance(target.slice, ast.Slice):
            name = target.value.id
            if name not in env or env[name].ty != BYTES:
                raise Refuse("item assignment on %s" % name)
            if name in self.aliased:
                raise Refuse("mutation of %s which may be aliased" % name)
            i = self.expr(target.slice, env, pre)
            if i.ty != INT or v.ty != INT:
                raise Refuse("item assignment types")
            new = self.fresh(name)
            pre.append(("bind", new, ["PyFn.setB %s %s %s" % (env[name].lean, i.code, v.code)]))
            env[name] = Var(new, BYTES)
            return
        if isinstance(target, ast.Attribute) and isinstance(target.value, ast.Name) and target.value.id in env \
                and isinstance(env[target.value.id].ty, tuple) and env[target.value.id].ty[0] == "rec":
            name = target.value.id
            cname = env[name].ty[1]
            k = self.rec_field_index(cname, target.attr)
            v = self.coerce(v, RECORDS[cname][k][1], "attribute %s.%s" % (cname, target.attr))
            comps = [v.code if i == k else self.rec_proj(env[name].lean, cname, i) for i in range(len(RECORDS[cname]))]
            new = self.fresh(name)
            pre.append(("let", new, [self.rec_build(cname, comps)]))
            env[name] = Var(new, REC(cname))
            return
        if isinstance(target, ast.Subscript) and isinstance(target.value, ast.Name) and isinstance(target.slice, ast.Slice) \
                and target.slice.step is None:
            name = target.value.id
            if name not in env or env[name].ty != BYTES or v.ty != BYTES:
                raise Refuse("slice assignment on %s" % name)
            if name in self.aliased:
                raise Refuse("mutation of %s which may be aliased" % name)
            sl = target.slice
            lo = self.expr(sl.lower, env, pre) if sl.lower is not None else self.lit_val(0)
            hi = self.expr(sl.upper, env, pre) if sl.upper is not None else Val("(PyFn.len %s)" % env[name].lean, INT)
            new = self.fresh(name)
            pre.append(("let", new, ["PyFn.setSlice %s %s %s %s" % (env[name].lean, lo.code, hi.code, v.code)]))
            env[name] = Var(new, BYTES)
            return
        raise Refuse("assignment target %s" % ast.unparse(target))

    def s_Assign(self, s, rest, env, k):
        if len(s.targets) != 1:
            raise Refuse("chained assignment (line %d)" % s.lineno)
        if isinstance(s.value, ast.IfExp) and any(
                isinstance(x, ast.Call) and isinstance(x.func, ast.Attribute) and x.func.attr in ("pop", "append", "extend")
                for x in ast.walk(s.value)):
            # `t = <mutating expr> if c else <expr>`  ==  `if c: t = .. else: t = ..`
            a1 = ast.Assign(targets=s.targets, value=s.value.body)
            a2 = ast.Assign(targets=s.targets, value=s.value.orelse)
            new = ast.If(test=s.value.test, body=[a1], orelse=[a2])
            for x in (a1, a2, new):
                ast.copy_location(x, s)
            ast.fix_missing_locations(new)
            return self.s_If(new, rest, env, k)
        env = dict(env)
        pre = []
        tgt = s.targets[0]
        if isinstance(tgt, ast.Name) and self.is_message_string(s.value):
            # a message text for logging / an exception: not bound (a later read outside such a context refuses)
            self.log_effects([s.value], env, pre, "a message string")
            env.pop(tgt.id, None)
            return self.wrap_pre(pre, self.block(rest, env, k))
        if isinstance(tgt, ast.Tuple) and isinstance(s.value, ast.Tuple) and len(tgt.elts) == len(s.value.elts) \
                and not all(isinstance(e, ast.Name) for e in tgt.elts):
            # `a, (b, c) = x, y`: all right-hand sides first, then each target
            vs = [self.expr(e, env, pre) for e in s.value.elts]
            tmps = []
            for v in vs:
                t = self.temp()
                pre.append(("let", t, [v.code]))
                tmps.append(Val(t, v.ty, v.nn))
            for e, v in zip(tgt.elts, tmps):
                self.bind_target(e, v, env, pre)
            return self.wrap_pre(pre, self.block(rest, env, k))
        if isinstance(tgt, ast.Tuple) and isinstance(s.value, ast.Tuple) and len(tgt.elts) == len(s.value.elts) \
                and all(isinstance(e, ast.Name) for e in tgt.elts):
            # `a, b = x, y`: evaluate all right-hand sides first
            vs = [self.expr(e, env, pre) for e in s.value.elts]
            news = []
            for e, v in zip(tgt.elts, vs):
                new = self.fresh(e.id)
                pre.append(("let", new, [v.code]))
                news.append((e.id, Var(new, v.ty, v.nn)))
            for py, var in news:
                env[py] = var
            return self.wrap_pre(pre, self.block(rest, env, k))
        v = self.expr(s.value, env, pre)
        self.bind_target(tgt, v, env, pre)
        return self.wrap_pre(pre, self.block(rest, env, k))

    def s_AugAssign(self, s, rest, env, k):
        if isinstance(s.target, ast.Attribute) and ast.unparse(s.target) in self.spec.stores:
            load = ast.parse(ast.unparse(s.target), mode="eval").body
            new = ast.Assign(targets=[s.target], value=ast.BinOp(left=load, op=s.op, right=s.value))
            ast.copy_location(new, s)
            ast.fix_missing_locations(new)
            return self.s_Assign(new, rest, env, k)
        if isinstance(s.target, ast.Subscript) and isinstance(s.target.value, ast.Name) \
                and not isinstance(s.target.slice, ast.Slice):
            chk = []
            self.expr(s.target.slice, dict(env), chk)
            if chk:
                raise Refuse("augmented item assignment with effects in the index (line %d)" % s.lineno)
            load = ast.parse(ast.unparse(s.target), mode="eval").body
            new = ast.Assign(targets=[s.target], value=ast.BinOp(left=load, op=s.op, right=s.value))
            ast.copy_location(new, s)
            ast.fix_missing_locations(new)
            return self.s_Assign(new, rest, env, k)
        if not isinstance(s.target, ast.Name):
            raise Refuse("augmented assignment target (line %d)" % s.lineno)
        name = s.target.id
        if name in env and env[name].ty == BYTES and name in self.aliased:
            raise Refuse("in-place += on %s which may be aliased" % name)
        new = ast.Assign(targets=[ast.Name(id=name, ctx=ast.Store())],
                         value=ast.BinOp(left=ast.Name(id=name, ctx=ast.Load()), op=s.op, right=s.value))
        ast.copy_location(new, s)
        ast.fix_missing_locations(new)
        return self.s_Assign(new, rest, env, k)

    def coerce_any(self, v):
        if v.ty == ANY:
            return v.code
        if v.ty == INT:
            return "(PyFn.Val.int %s)" % v.code
        if v.ty == BYTES:
            return "(PyFn.Val.bytes %s)" % v.code
        if v.ty == BOOL:
            return "(PyFn.Val.bool %s)" % v.code
        if v.ty == NONE:
            return "PyFn.Val.none"
        raise Refuse("no dynamic encoding of %s" % (v.ty,))

    def ret_value(self, v):
        """apply the declared return type (ANY components are encoded as PyFn.Val)"""
        want = self.spec.ret
        if want is None:
            self.rtys.append(v.ty)
            return v.code
        if want == ANY:
            self.rtys.append(ANY)
            return self.coerce_tuple_any(v)
        if isinstance(want, tuple) and want[0] == "opt":
            self.rtys.append(want)
            return self.coerce(v, want, "return value").code
        if isinstance(want, tuple) and want[0] == "tuple" and ANY in want[1:]:
            if not (isinstance(v.ty, tuple) and v.ty[0] == "tuple" and len(v.ty) == len(want)):
                raise Refuse("return value %s does not fit %s" % (v.ty, want))
            self.rtys.append(want)
            comps = []
            for i, w in enumerate(want[1:]):
                cv = self.comp(v, i)
                if w == ANY:
                    comps.append(self.coerce_tuple_any(cv))
                else:
                    if cv.ty != w:
                        raise Refuse("return component %d has type %s, declared %s" % (i, cv.ty, w))
                    comps.append(cv.code)
            return "(" + ", ".join(comps) + ")"
        if v.ty != want and isinstance(want, tuple) and want[0] == "tuple" and isinstance(v.ty, tuple) \
                and v.ty[0] == "tuple" and len(v.ty) == len(want):
            comps = [self.coerce(self.comp(v, i), w, "return component %d" % i).code for i, w in enumerate(want[1:])]
            self.rtys.append(want)
            return "(" + ", ".join(comps) + ")"
        if v.ty != want:
            raise Refuse("return value of type %s, declared %s" % (v.ty, want))
        self.rtys.append(want)
        return v.code

    def coerce_tuple_any(self, v):
        if isinstance(v.ty, tuple) and v.ty[0] == "tuple":
            parts = [self.coerce_tuple_any(self.comp(v, i)) for i in range(len(v.ty) - 1)]
            return "(PyFn.Val.tuple [%s])" % ", ".join(parts)
        return self.coerce_any(v)

    def s_Return(self, s, rest, env, k):
        if self.loops and self.loops[-1] is None:
            raise Refuse("return inside a loop (line %d)" % s.lineno)
        if self.spec.result is not None and self.spec.ret is None \
                and (s.value is None or (isinstance(s.value, ast.Constant) and s.value.value is None)):
            if self.loops:
                raise Refuse("return inside a loop of a result= cut (line %d)" % s.lineno)
            return self.k_end(env)      # a bare `return` inside a `result=` cut: the result variables as they are now
        if isinstance(s.value, ast.IfExp) and self.spec.ret is not None:
            # `return X if c else Y`  ==  `if c: return X else: return Y` (the branches may differ in type)
            r1, r2 = ast.Return(value=s.value.body), ast.Return(value=s.value.orelse)
            new = ast.If(test=s.value.test, body=[r1], orelse=[r2])
            for x in (r1, r2, new):
                ast.copy_location(x, s)
            ast.fix_missing_locations(new)
            return self.s_If(new, [], env, k)
        pre = []
        env = dict(env)
        v = self.expr(s.value, env, pre) if s.value is not None else self.lit_val(None)
        if isinstance(v.ty, tuple) and v.ty[0] == "tuple1":
            raise Refuse("1-tuple returned")
        return self.wrap_pre(pre, Res([self.emit_return(self.ret_value(v))], False))

    def emit_return(self, code):
        """`return` of the value `code`: inside a loop it leaves the loop with `Ctl.ret`"""
        if self.loops:
            return "(PyFn.Ctl.ret %s)" % atom(code)
        return code

    def s_Continue(self, s, rest, env, k):
        return Res(["(PyFn.Ctl.next %s)" % atom(self.state_tuple(self.loops[-1], env))], False)

    def s_Break(self, s, rest, env, k):
        return Res(["(PyFn.Ctl.brk %s)" % atom(self.state_tuple(self.loops[-1], env))], False)

    def after_ctl_loop(self, lines, pat2, r, returns):
        """`lines` computes `Py (state ⊕ result)`; continue with `r` on `.inl state`, return on `.inr`"""
        lines = list(lines)
        lines[-1] += " >>= fun c =>"
        ret = Res([self.emit_return("r")], False)
        out = lines + ["match c with"]
        if returns:
            out += ["| .inr r => " + (ok(ret.lines)[0] if True else "")]
        else:
            out += ["| .inr r => nomatch r"]
        out += ["| .inl %s =>" % pat2] + indent(r.lifted())
        return Res(out, True)

    def exc_of(self, node, env=None, pre=None):
        """`raise X(...)` / `raise mod.X(...)` -> Exc constructor text"""
        args = []
        if isinstance(node, ast.Call):
            args = node.args
            fnode = node.func
        else:
            fnode = node
        name = fnode.attr if isinstance(fnode, ast.Attribute) else fnode.id if isinstance(fnode, ast.Name) else None
        # `Cls.from_status(x)`: a static factory whose body is `return Cls(<expr>)`
        if isinstance(fnode, ast.Attribute) and isinstance(fnode.value, ast.Name) \
                and fnode.value.id.endswith("TagCommandError") and env is not None and len(args) == 1:
            cls = [c for c in self.module.body if isinstance(c, ast.ClassDef) and c.name == fnode.value.id]
            fac = [f for f in (cls[0].body if cls else []) if isinstance(f, ast.FunctionDef) and f.name == fnode.attr]
            if fac and len(fac[0].args.args) == 1 and len(fac[0].body) == 1 and isinstance(fac[0].body[0], ast.Return) \
                    and isinstance(fac[0].body[0].value, ast.Call) \
                    and ast.unparse(fac[0].body[0].value.func) == fnode.value.id and len(fac[0].body[0].value.args) == 1:
                a = self.expr(args[0], env, pre)
                tmp = self.temp()
                pre.append(("let", tmp, [a.code]))
                env2 = {fac[0].args.args[0].arg: Var(tmp, a.ty, a.nn)}
                e = self.expr(fac[0].body[0].value.args[0], env2, pre)
                if e.ty != INT:
                    raise Refuse("errno of type %s" % (e.ty,))
                return "(Exc.tagCmd %s)" % e.code
            raise Refuse("raise of %s" % ast.unparse(node))
        if name is not None and name.endswith("TagCommandError") and env is not None:
            if len(args) != 1:
                raise Refuse("%s with %d arguments" % (name, len(args)))
            e = self.expr(args[0], env, pre)
            if e.ty != INT:
                raise Refuse("errno of type %s" % (e.ty,))
            return "(Exc.tagCmd %s)" % e.code
        ftext = ast.unparse(fnode)
        if isinstance(node, ast.Name) and node.id in self.spec.reraise:
            return self.spec.reraise[node.id]       # `raise error` of a caught exception: spec says what it is
        if ftext in self.spec.excs and env is not None:
            ctor = self.spec.excs[ftext]
            init_fn = None
            if isinstance(ctor, tuple):
                ctor, init_fn = ctor
            cdef = [c for c in self.module.body if isinstance(c, ast.ClassDef) and c.name == ftext]
            cinit = [f for f in (cdef[0].body if cdef else []) if isinstance(f, ast.FunctionDef) and f.name == "__init__"]
            plain = all(isinstance(st, ast.Assign) and len(st.targets) == 1 and isinstance(st.targets[0], ast.Attribute)
                        and isinstance(st.value, (ast.Name, ast.Constant)) for st in (cinit[0].body if cinit else []))
            if cinit and not plain and init_fn is None:
                raise Refuse("%s.__init__ computes: name its translation in excs as (ctor, lean function)" % ftext)
            if init_fn is not None:
                call = ast.Call(func=ast.Name(id=init_fn, ctx=ast.Load()), args=list(args), keywords=[])
                ast.copy_location(call, node)
                ast.fix_missing_locations(call)
                self.call_translated(init_fn, call, env, pre)      # evaluated for the exception it may raise
                return "Exc." + ctor
            if ctor in ("chipsetError", "io", "llcp", "tagCmd"):
                if not args:
                    raise Refuse("%s without errno" % ftext)
                e = self.expr(args[0], env, pre)
                if e.ty != INT:
                    raise Refuse("errno of type %s" % (e.ty,))
                self.log_effects(args[1:], env, pre, "an exception constructor")
                if ctor == "tagCmd":
                    return "(Exc.tagCmd %s)" % e.code
                return "(Exc.%s %s)" % (ctor, str(e.lit) if (e.lit is not None and e.lit >= 0) else "(%s).toNat" % e.code)
            self.log_effects(args, env, pre, "an exception constructor")
            return "Exc." + ctor
        if (ftext in IO_ERROR_CLASSES or ftext in LLCP_ERROR_CLASSES) and env is not None and args:
            e = self.expr(args[0], env, pre)
            if e.ty != INT:
                raise Refuse("errno of type %s" % (e.ty,))
            self.check_inert(args[1:], "an exception constructor")
            ctor = "io" if ftext in IO_ERROR_CLASSES else "llcp"
            if e.lit is not None and e.lit >= 0:
                return "(Exc.%s %d)" % (ctor, e.lit)
            return "(Exc.%s (%s).toNat)" % (ctor, e.code)
        self.check_inert(args, "an exception constructor")
        if name in EXC_MAP:
            return "Exc" + EXC_MAP[name]
        raise Refuse("raise of %s" % ast.unparse(node))

    def s_Raise(self, s, rest, env, k):
        if s.exc is None:
            raise Refuse("bare raise (line %d)" % s.lineno)
        pre = []
        code = self.exc_of(s.exc, dict(env), pre)
        return self.wrap_pre(pre, Res(["Except.error %s" % code], True))

    def s_Assert(self, s, rest, env, k):
        pre = []
        env = dict(env)
        c = self.cond(s.test, env, pre)
        r = self.block(rest, env, k)
        return self.wrap_pre(pre, Res(["if ¬ %s then Except.error Exc.assertion else" % c] + r.lifted(), True))

    # -- control flow analysis on the Python AST
    def terminates(self, stmts):
        """every path through stmts ends in return/raise (continue/break inside loops count too)"""
        for s in stmts:
            if isinstance(s, (ast.Return, ast.Raise, ast.Continue, ast.Break)):
                return True
            if isinstance(s, ast.If) and self.terminates(s.body) and s.orelse and self.terminates(s.orelse):
                return True
        return False

    def has_return(self, stmts):
        for s in stmts:
            for x in ast.walk(s):
                if isinstance(x, (ast.Return, ast.Continue, ast.Break)):
                    return True
        return False

    def assigned(self, stmts):
        """names (re)bound in stmts, in order of first occurrence, including bytearrays mutated in place"""
        out = []

        def add(n):
            if n not in out:
                out.append(n)

        def tgt(t):
            if isinstance(t, ast.Attribute) and ast.unparse(t) in self.spec.stores:
                add(ast.unparse(t))
            elif isinstance(t, ast.Name):
                add(t.id)
            elif isinstance(t, (ast.Tuple, ast.List)):
                for e in t.elts:
                    tgt(e)
            elif isinstance(t, (ast.Subscript, ast.Attribute)) and isinstance(t.value, ast.Name):
                add(t.value.id)

        for s in stmts:
            for x in ast.walk(s):
                if isinstance(x, ast.Assign):
                    for t in x.targets:
                        tgt(t)
                elif isinstance(x, ast.AugAssign):
                    tgt(x.target)
                elif isinstance(x, ast.For):
                    tgt(x.target)
                elif isinstance(x, ast.Delete):
                    for t in x.targets:
                        tgt(t)
                elif isinstance(x, ast.Call) and isinstance(x.func, ast.Attribute) \
                        and x.func.attr in ("pop", "extend", "append", "appendleft", "remove", "popleft", "insert",
                                            "clear", "reverse", "sort"):
                    # in-place mutation through a method: of a local name or of a `stores=` attribute
                    if isinstance(x.func.value, ast.Name):
                        add(x.func.value.id)
                    elif isinstance(x.func.value, ast.Attribute) and ast.unparse(x.func.value) in self.spec.stores:
                        add(ast.unparse(x.func.value))
        return out

    def state_tuple(self, names, env):
        if not names:
            return "()"
        if len(names) == 1:
            return env[names[0]].lean
        return "(" + ", ".join(env[n].lean for n in names) + ")"

    def rebind_state(self, names, env):
        """fresh Lean names for the join variables; returns (pattern, new env)"""
        env = dict(env)
        pats = []
        for n in names:
            new = self.fresh(n.split(".")[-1].lstrip("_") or "v")
            env[n] = Var(new, env[n].ty, False)
            pats.append(new)
        pat = "()" if not pats else pats[0] if len(pats) == 1 else "(" + ", ".join(pats) + ")"
        return pat, env

    def state_type(self, names, env):
        if not names:
            return "Unit"
        if len(names) == 1:
            return lean_type(env[names[0]].ty)
        return "(" + " × ".join(lean_type(env[n].ty) for n in names) + ")"

    def s_If(self, s, rest, env, k):
        # `if A and B: S` without else, where B has effects on a local bytearray  ==  `if A: if B: S`
        if isinstance(s.test, ast.BoolOp) and isinstance(s.test.op, ast.And) and not s.orelse \
                and any(isinstance(x, ast.Call) and isinstance(x.func, ast.Attribute) and x.func.attr == "pop"
                        for v in s.test.values[1:] for x in ast.walk(v)):
            inner_test = s.test.values[1] if len(s.test.values) == 2 else \
                ast.BoolOp(op=ast.And(), values=s.test.values[1:])
            inner = ast.If(test=inner_test, body=s.body, orelse=[])
            outer = ast.If(test=s.test.values[0], body=[inner], orelse=[])
            for x in (inner, outer):
                ast.copy_location(x, s)
            ast.fix_missing_locations(outer)
            return self.s_If(outer, rest, env, k)
        pre = []
        env = dict(env)
        c, env_t, env_e = self.test(s.test, env, pre)
        tb, eb = s.body, s.orelse
        if c == "False" and not pre:       # statically decided (type tests): the dead branch is not translated
            return self.block(list(eb) + rest, env, k)
        if c == "True" and not pre:
            return self.block(list(tb) + rest, env, k)
        if not pre and self.is_noop(tb, env) and self.is_noop(eb, env):
            return self.block(rest, env, k)     # only dropped statements (logging) under a condition without effects
        if self.terminates(tb):
            a = self.block(tb, env_t, self.k_none)
            b = self.block(eb + rest, env_e, k)
            return self.wrap_pre(pre, self.ite(c, a, b))
        if eb and self.terminates(eb):
            a = self.block(tb + rest, env_t, k)
            b = self.block(eb, env_e, self.k_none)
            return self.wrap_pre(pre, self.ite(c, a, b))
        if not self.has_return(tb) and not self.has_return(eb):
            names = [n for n in self.assigned(tb + eb)]
            # variables first defined inside the branches are joined only when both branches define them
            def_both = [n for n in names if n in env or (n in self.assigned(tb) and n in self.assigned(eb))]
            only_one = [n for n in names if n not in def_both]
            saved = (dict(self.counts), self.tmp, len(self.rtys))
            try:
                self.join_depth += 1
                try:
                    return self.wrap_pre(pre, self.if_join(c, tb, eb, def_both, only_one, rest, env, k, env_t, env_e))
                finally:
                    self.join_depth -= 1
            except JoinMismatch:
                if self.join_depth:
                    raise       # the leaves of this statement are leaves of the enclosing join: it fails too
                self.counts, self.tmp = saved[0], saved[1]
                del self.rtys[saved[2]:]
        # general case: the continuation is copied into both branches
        a = self.block(tb + rest, env_t, k)
        b = self.block(eb + rest, env_e, k)
        return self.wrap_pre(pre, self.ite(c, a, b))

    def is_noop(self, stmts, env):
        """only dropped statements (logging, pass), possibly under conditions that cannot raise"""
        for x in stmts:
            if isinstance(x, ast.Pass) or (isinstance(x, ast.Expr) and isinstance(x.value, ast.Constant)):
                continue
            if isinstance(x, ast.Expr) and self.is_log_call(x.value):
                saved = (dict(self.counts), self.tmp)
                p = []
                self.log_effects(x.value.args, dict(env), p, "a logging call")
                self.counts, self.tmp = saved
                if p:
                    return False
                continue
            if isinstance(x, ast.If):
                saved = (dict(self.counts), self.tmp)
                p = []
                try:
                    self.cond(x.test, dict(env), p)
                except Refuse:
                    p = [None]
                self.counts, self.tmp = saved
                if not p and self.is_noop(x.body, env) and self.is_noop(x.orelse, env):
                    continue
            return False
        return True

    def test(self, node, env, pre):
        """condition of an `if`: -> (cond, env of the then-branch, env of the else-branch).
        `x is None` / `x is not None` on an optional x is a `match` that narrows x in the non-None branch."""
        if isinstance(node, ast.Compare) and len(node.ops) == 1 and isinstance(node.ops[0], (ast.Is, ast.IsNot)) \
                and isinstance(node.comparators[0], ast.Constant) and node.comparators[0].value is None \
                and isinstance(node.left, (ast.Name, ast.Attribute)):
            key = ast.unparse(node.left)
            if key in env and isinstance(env[key].ty, tuple) and env[key].ty[0] == "opt":
                new = self.fresh(key.split(".")[-1].lstrip("_") or "v")
                env_some = dict(env)
                env_some[key] = Var(new, env[key].ty[1])
                c = ("match", env[key].lean, new, isinstance(node.ops[0], ast.Is))
                return (c, dict(env), env_some) if isinstance(node.ops[0], ast.Is) else (c, env_some, dict(env))
        if isinstance(node, (ast.Name, ast.Attribute)):
            key = ast.unparse(node)
            if key in env and isinstance(env[key].ty, tuple) and env[key].ty[0] == "opt" and env[key].ty[1] in (INT, BYTES):
                # `if x:` on an optional: None and the empty/zero value are false; x is narrowed in the true branch
                new = self.fresh(key.split(".")[-1].lstrip("_") or "v")
                env_some = dict(env)
                env_some[key] = Var(new, env[key].ty[1])
                zero = "0" if env[key].ty[1] == INT else "[]"
                return ("truthy", env[key].lean, new, "(%s ≠ %s)" % (new, zero)), env_some, dict(env)
        c = self.cond(node, env, pre)
        return c, env, env

    def if_join(self, c, tb, eb, names, only_one, rest, env, k, env_t=None, env_e=None, want=None):
        envs = []
        want = want or {}

        def kj(e):
            envs.append(e)
            for n in names:
                if n not in e:
                    raise JoinMismatch()
            if not want:
                return Res([self.state_tuple(names, e)], False)
            comps = [self.coerce(Val(e[n].lean, e[n].ty), want.get(n, e[n].ty), "join of " + n).code for n in names]
            return Res([comps[0] if len(comps) == 1 else "(" + ", ".join(comps) + ")"], False)

        saved = (dict(self.counts), self.tmp, len(self.rtys))
        a = self.block(tb, env if env_t is None else env_t, kj)
        b = self.block(eb, env if env_e is None else env_e, kj)
        ea = envs[0]
        jty = {}
        for n in names:
            tys = []
            for e in envs:
                if e[n].ty not in tys:
                    tys.append(e[n].ty)
            if n in want:
                jty[n] = want[n]
            elif len(tys) == 1:
                jty[n] = tys[0]
            else:
                # None joined with T (or T | None) is T | None; anything else does not join
                inner = [t for t in tys if t != NONE and not (isinstance(t, tuple) and t[0] == "opt")]
                opts = [t for t in tys if isinstance(t, tuple) and t[0] == "opt"]
                cand = opts[0] if opts else (OPT(inner[0]) if inner else None)
                if cand is None or any(t != cand[1] for t in inner) or any(t != cand for t in opts):
                    raise JoinMismatch()
                jty[n] = cand
        if not want and any(jty[n] != e[n].ty for n in names for e in envs):
            self.counts, self.tmp = saved[0], saved[1]
            del self.rtys[saved[2]:]
            return self.if_join(c, tb, eb, names, only_one, rest, env, k, env_t, env_e, want=jty)
        env2 = dict(env)
        for n in names:
            env2[n] = Var(ea[n].lean, jty[n])
        pat, env2 = self.rebind_state(names, env2)
        for n in names:
            env2[n].nn = all(e[n].nn for e in envs)
        for n in only_one:      # possibly unbound afterwards: any later read refuses
            env2.pop(n, None)
        j = self.ite(c, a, b)
        r = self.block(rest, env2, k)
        if j.mon:
            jl = paren(j.lines)
            return Res(jl[:-1] + [jl[-1] + " >>= fun %s =>" % pat] + r.lifted(), True)
        jl = paren(j.lines)
        jl = ["(" + jl[0]] + [" " + l for l in jl[1:]]
        jl[-1] += " : %s)" % self.state_type(names, env2)
        return Res(["let %s :=" % pat] + indent(jl) + r.lines, r.mon)

    def ite(self, c, a, b):
        mon = a.mon or b.mon
        al = a.lifted() if mon else a.lines
        bl = b.lifted() if mon else b.lines
        if isinstance(c, tuple) and c[0] == "truthy":
            _, var, new, prop = c
            inner = ["if %s then" % prop] + indent(paren(al)) + ["else"] + indent(paren(bl))
            return Res(["match %s with" % var, "| none =>"] + indent(paren(bl)) + ["| some %s =>" % new] + indent(paren(inner)), mon)
        if isinstance(c, tuple):      # ("match", optional variable, name bound in the `some` case, then-is-none)
            _, var, new, then_none = c
            nl, sl = (al, bl) if then_none else (bl, al)
            return Res(["match %s with" % var, "| none =>"] + indent(paren(nl)) + ["| some %s =>" % new] + indent(paren(sl)), mon)
        if len(al) == 1:
            return Res(["if %s then %s else" % (c, al[0])] + bl, mon)
        return Res(["if %s then" % c] + indent(paren(al)) + ["else"] + bl, mon)

    def k_none(self, env):
        raise Refuse("internal: fall-through of a terminating block")

    # -- loops
    def s_For(self, s, rest, env, k):
        if s.orelse:
            raise Refuse("for/else (line %d)" % s.lineno)
        if isinstance(s.iter, ast.Call) and ast.unparse(s.iter.func) == "enumerate" and len(s.iter.args) == 1 \
                and isinstance(s.iter.args[0], ast.Name) and isinstance(s.target, ast.Tuple) and len(s.target.elts) == 2 \
                and all(isinstance(e, ast.Name) for e in s.target.elts) \
                and s.iter.args[0].id in env and env[s.iter.args[0].id].ty == BYTES \
                and s.iter.args[0].id not in self.assigned(s.body):
            # `for i, x in enumerate(data)` over a byte string that the body does not change
            #   ==  `for i in range(len(data)): x = data[i]; ..`
            d = s.iter.args[0].id
            new = ast.parse("for %s in range(len(%s)):\n    %s = %s[%s]" % (
                s.target.elts[0].id, d, s.target.elts[1].id, d, s.target.elts[0].id)).body[0]
            new.body = new.body + list(s.body)
            ast.copy_location(new, s)
            ast.fix_missing_locations(new)
            return self.s_For(new, rest, env, k)
        ctl = self.has_return(s.body)
        returns = any(isinstance(x, ast.Return) for st in s.body for x in ast.walk(st))
        pre = []
        env = dict(env)
        it = self.expr(s.iter, env, pre)
        if it.ty == BYTES:
            seq, ety, enn = "(PyFn.ints %s)" % it.code, INT, True
        elif it.ty == LIST(INT):
            seq, ety, enn = it.code, INT, getattr(it, "elem_nn", False)
        elif isinstance(it.ty, tuple) and it.ty[0] == "list":
            seq, ety, enn = it.code, it.ty[1], False
        else:
            raise Refuse("for over %s (line %d)" % (it.ty, s.lineno))
        if not isinstance(s.target, ast.Name):
            raise Refuse("for target (line %d)" % s.lineno)
        body_assigned = self.assigned(s.body)
        if s.target.id in body_assigned:
            raise Refuse("loop variable reassigned in the body (line %d)" % s.lineno)
        state = [n for n in body_assigned if n in env]
        local = [n for n in body_assigned if n not in env]
        # the loop variable is read behind the loop: carried in the state; only for `range(a, b)` with literal
        # bounds a < b, so that it is certainly bound (its initial value is overwritten by the first iteration)
        def reads(node, name):
            return any(isinstance(x, ast.Name) and x.id == name and isinstance(x.ctx, ast.Load) for x in ast.walk(node))

        used_after = s.target.id in (self.spec.result or [])
        for st in rest:
            if isinstance(st, ast.For) and isinstance(st.target, ast.Name) and st.target.id == s.target.id \
                    and not reads(st.iter, s.target.id):
                break        # rebound by the next loop before any read
            if isinstance(st, ast.Assign) and len(st.targets) == 1 and isinstance(st.targets[0], ast.Name) \
                    and st.targets[0].id == s.target.id and not reads(st.value, s.target.id):
                break
            if reads(st, s.target.id):
                used_after = True
                break
        keep_var = False
        if used_after and s.target.id not in state:
            it_n = s.iter
            lits = [a.value for a in it_n.args if isinstance(a, ast.Constant) and isinstance(a.value, int)] \
                if (isinstance(it_n, ast.Call) and ast.unparse(it_n.func) == "range" and not it_n.keywords) else []
            if len(lits) != len(getattr(it_n, "args", [None])) or len(lits) not in (1, 2):
                raise Refuse("loop variable %s read behind a loop that is not over a literal range (line %d)" % (s.target.id, s.lineno))
            lo, hi = (0, lits[0]) if len(lits) == 1 else lits
            if not lo < hi:
                raise Refuse("loop variable %s read behind a possibly empty loop (line %d)" % (s.target.id, s.lineno))
            env[s.target.id] = Var(str(lo) if lo >= 0 else "(%d)" % lo, INT, lo >= 0)
            state = state + [s.target.id]
            keep_var = True
        init = self.state_tuple(state, env)
        pat, benv = self.rebind_state(state, env)
        x = self.fresh(s.target.id)
        benv[s.target.id] = Var(x, ety, enn)

        def kb(e):
            for n in state:
                if e[n].ty != env[n].ty:
                    raise Refuse("loop changes the type of %s" % n)
            if ctl:
                return Res(["(PyFn.Ctl.next %s)" % atom(self.state_tuple(state, e))], False)
            return Res([self.state_tuple(state, e)], False)

        self.loops.append(state if ctl else None)
        body = self.block(s.body, benv, kb)
        self.loops.pop()
        sty = self.state_type(state, env)
        head = "fun (%s : %s) (%s : %s) =>" % (pat if len(state) <= 1 else "st", sty, x, lean_type(ety))
        bl0 = body.lifted() if ctl else body.lines
        blines = bl0 if len(state) <= 1 else ["match st with", "| %s =>" % pat] + indent(bl0)
        pat2, env2 = self.rebind_state(state, env)
        for n in local + ([] if keep_var else [s.target.id]):      # loop-local names may be unbound after the loop
            env2.pop(n, None)
        r = self.block(rest, env2, k)
        if ctl:
            rho = "«RET»" if returns else "Empty"
            lines = ["PyFn.forC (ρ := %s) %s %s (%s" % (rho, seq, atom(init), head)] + indent(blines)
            lines[-1] += ")"
            return self.wrap_pre(pre, self.after_ctl_loop(lines, pat2, r, returns))
        if body.mon:
            lines = ["PyFn.forM %s %s (%s" % (seq, atom(init), head)] + indent(blines)
            lines[-1] += ") >>= fun %s =>" % pat2
            return self.wrap_pre(pre, Res(lines + r.lifted(), True))
        lines = ["let %s := List.foldl (%s" % (pat2, head)] + indent(blines)
        lines[-1] += ") %s %s" % (atom(init), seq)
        return self.wrap_pre(pre, Res(lines + r.lines, r.mon))

    def s_While(self, s, rest, env, k):
        if s.orelse:
            raise Refuse("while/else (line %d)" % s.lineno)
        ctl = self.has_return(s.body)
        returns = any(isinstance(x, ast.Return) for st in s.body for x in ast.walk(st))
        body_assigned = self.assigned(s.body)
        state = [n for n in body_assigned if n in env]
        local = [n for n in body_assigned if n not in env]
        init = self.state_tuple(state, env)
        sty = self.state_type(state, env)
        # condition over the loop state
        pat, cenv = self.rebind_state(state, env)
        cpre = []
        c = self.cond(s.test, cenv, cpre)
        self.no_mutation(cpre)
        cres = self.wrap_pre(cpre, Res(["decide %s" % c], False))
        pat_b, benv = self.rebind_state(state, env)

        def kb(e):
            for n in state:
                if e[n].ty != env[n].ty:
                    raise Refuse("loop changes the type of %s" % n)
            if ctl:
                return Res(["(PyFn.Ctl.next %s)" % atom(self.state_tuple(state, e))], False)
            return Res([self.state_tuple(state, e)], False)

        self.loops.append(state if ctl else None)
        body = self.block(s.body, benv, kb)
        self.loops.pop()
        self.fuel = True

        def lam(p, lines):
            if len(state) <= 1:
                return ["(fun (%s : %s) =>" % (p, sty)] + indent(lines)
            return ["(fun (st : %s) =>" % sty, "  match st with", "  | %s =>" % p] + indent(lines, 4)

        cl = lam(pat, cres.lifted())
        cl[-1] += ")"
        bl = lam(pat_b, body.lifted())
        bl[-1] += ")"
        pat2, env2 = self.rebind_state(state, env)
        for n in local:
            env2.pop(n, None)
        r = self.block(rest, env2, k)
        if ctl:
            rho = "«RET»" if returns else "Empty"
            lines = ["PyFn.whileC (ρ := %s) fuel %s" % (rho, atom(init))] + indent(cl) + indent(bl)
            return self.after_ctl_loop(lines, pat2, r, returns)
        lines = ["PyFn.whileM fuel %s" % atom(init)] + indent(cl) + indent(bl)
        lines[-1] += " >>= fun %s =>" % pat2
        return Res(lines + r.lifted(), True)

    def s_Try(self, s, rest, env, k):
        if s.finalbody or len(s.handlers) != 1:
            raise Refuse("try statement shape (line %d)" % s.lineno)
        if s.orelse:
            # `try: A except E: raise X else: B`  ==  the try statement followed by B (B is not guarded)
            if self.has_return(s.body) or self.terminates(s.body):
                raise Refuse("try/else whose body returns (line %d)" % s.lineno)
            rest = list(s.orelse) + rest
        h = s.handlers[0]
        if h.type is None:
            raise Refuse("bare except (line %d)" % s.lineno)
        htypes = h.type.elts if isinstance(h.type, ast.Tuple) else [h.type]
        caught = []
        for t in htypes:
            nm = ast.unparse(t)
            if nm not in HANDLER_MAP:
                raise Refuse("except %s (line %d)" % (nm, s.lineno))
            caught.append("Exc" + HANDLER_MAP[nm])
        hb = [x for x in h.body if not (isinstance(x, ast.Assign) and self.inert_assign(x))
              and not (isinstance(x, ast.Expr) and self.is_log_call(x.value))]
        if len(hb) == 1 and isinstance(hb[0], ast.Return) and self.terminates(s.body) and not rest and not self.loops:
            # `try: <body ending in return> except E: return V`
            hp = []
            hv = self.expr(hb[0].value, dict(env), hp) if hb[0].value is not None else self.lit_val(None)
            if hp:
                raise Refuse("effects in the value returned by an except handler (line %d)" % s.lineno)
            hcode = self.ret_value(hv)
            body = self.block(s.body, env, k)
            catches = "(fun e => %s)" % " || ".join("e == %s" % c for c in caught)
            return Res(["PyFn.catchRet %s %s" % (catches, atom(hcode))] + indent(paren(body.lifted())), True)
        if len(hb) != 1 or not isinstance(hb[0], ast.Raise) or hb[0].exc is None:
            raise Refuse("except handler that is not a single raise (line %d)" % s.lineno)
        hpre = []
        new_exc = self.exc_of(hb[0].exc, dict(env), hpre)
        if hpre:
            raise Refuse("effects in the exception of an except handler (line %d)" % s.lineno)
        catches = "(fun e => %s)" % " || ".join("e == %s" % c for c in caught)
        if self.has_return(s.body) or self.terminates(s.body):
            # returns inside the try: allowed when nothing follows the try statement
            if rest:
                raise Refuse("return inside try with statements after it (line %d)" % s.lineno)
            body = self.block(s.body, env, k)
            return Res(["wrapExc %s %s" % (catches, new_exc)] + indent(paren(body.lifted())), True)
        names = [n for n in self.assigned(s.body)]
        envs = []

        def kj(e):
            envs.append(e)
            return Res([self.state_tuple(names, e)], False)

        body = self.block(s.body, env, kj)
        env2 = dict(env)
        for n in names:
            env2[n] = Var(envs[0][n].lean, envs[0][n].ty)
        pat, env2 = self.rebind_state(names, env2)
        for n in names:
            env2[n].nn = envs[0][n].nn
        r = self.block(rest, env2, k)
        lines = ["wrapExc %s %s" % (catches, new_exc)] + indent(paren(body.lifted()))
        lines[-1] += " >>= fun %s =>" % pat
        return Res(lines + r.lifted(), True)

    def inert_assign(self, a):
        """`msg = "..." % hexlify(..)` in an except handler: a message string, dropped"""
        try:
            self.check_inert([a.value], "a message")
        except Refuse:
            return False
        return all(isinstance(t, ast.Name) for t in a.targets)

    # ------------------------------------------------------------------ whole function
    def translate(self):
        sp = self.spec
        self.setup_records()
        fn = self.find_def()
        sp.lines = (fn.lineno, fn.end_lineno)
        body = select_stmts(fn, sp)
        if sp.cut and body:
            sp.lines = (body[0].lineno, body[-1].end_lineno)
        # parameters: declared ones must be the function's own (minus self/cls), in order
        argnames = [a.arg for a in fn.args.args if a.arg not in ("self", "cls")]
        if (fn.args.vararg or fn.args.kwarg or fn.args.kwonlyargs) and not sp.cut:
            raise Refuse("*args/**kwargs")
        declared = [p for p, _ in sp.params]
        sp.defaults = {}
        for a, d in zip(reversed(fn.args.args), reversed(fn.args.defaults)):
            if isinstance(d, ast.Constant):
                sp.defaults[a.arg] = d.value
        if not sp.cut and declared != argnames[:len(declared)]:
            raise Refuse("parameters %s do not match the source %s" % (declared, argnames))
        if not sp.cut and len(declared) < len(argnames):
            # remaining parameters must have defaults that the spec pins
            raise Refuse("parameters %s of the source are not declared" % argnames[len(declared):])
        env = {}
        sig = []
        self.bound_names = set()
        for p, t in sp.params:
            ln = self.fresh(p)
            env[p] = Var(ln, t, p in sp.nonneg)
            sig.append("(%s : %s)" % (ln, lean_type(t)))
        for (src, p, t) in sp.binds:
            ln = self.fresh(p)
            env[src] = Var(ln, t, p in sp.nonneg)
            env[p] = Var(ln, t, p in sp.nonneg) if p not in env else env[p]
            self.bound_names.add(src)
            sig.append("(%s : %s)" % (ln, lean_type(t)))
        for text, (pname, atys, rty, mon) in sorted(sp.opaque.items()):
            ln = self.fresh(pname)
            env[pname] = Var(ln, "opaque")
            fty = " → ".join([lean_type(a) for a in atys] + [("Py " if mon else "") + lean_type(rty)])
            sig.append("(%s : %s)" % (ln, fty))
        # aliasing: a bytearray that is bound to another name or stored in a display is never mutated
        self.aliased = set()
        scope = [x for st in body for x in ast.walk(st)]       # only the translated statements
        returned = {id(x.value) for x in scope if isinstance(x, ast.Return) and x.value is not None}
        for x in scope:
            if isinstance(x, ast.Assign) and isinstance(x.value, ast.Name):
                self.aliased.add(x.value.id)
                for t in x.targets:
                    if isinstance(t, ast.Name):
                        self.aliased.add(t.id)
            if isinstance(x, (ast.Tuple, ast.List)) and isinstance(getattr(x, "ctx", None), ast.Load) \
                    and id(x) not in returned:       # a display that is returned at once cannot be mutated later
                for e in x.elts:
                    if isinstance(e, ast.Name):
                        self.aliased.add(e.id)
        self.join_depth = 0
        self.loops = []      # enclosing loops: None = plain fold, list = state names of a loop with Ctl

        def k_end(e):
            if sp.result is not None:
                vs = []
                for nme in sp.result:
                    if nme not in e:
                        raise Refuse("result variable %s is not bound at the cut" % nme)
                    vs.append(Val(e[nme].lean, e[nme].ty))
                v = vs[0] if len(vs) == 1 else Val("(" + ", ".join(x.code for x in vs) + ")", TUP(*[x.ty for x in vs]))
                if len(vs) > 1:
                    v.comps = vs
                return Res([self.ret_value(v)], False)
            return Res([self.ret_value(self.lit_val(None))], False)

        self.k_end = k_end
        res = self.block(body, env, k_end)
        rtys = []
        for t in self.rtys:
            if t not in rtys:
                rtys.append(t)
        if not rtys:
            rtys = [NONE]        # every path raises
        if len(rtys) != 1:
            raise Refuse("return statements of different types %s" % (rtys,))
        sp.rty, sp.mon, sp.fuel = rtys[0], res.mon, self.fuel
        sp.rty_lean = lean_type(sp.rty)
        if sp.fuel and not res.mon:
            raise Refuse("internal: fuel in a pure function")
        head = "def %s %s%s : %s%s :=" % (sp.lean, "(fuel : Nat) " if sp.fuel else "", " ".join(sig),
                                           "Py " if res.mon else "", lean_type(sp.rty))
        return [head] + [l.replace("«RET»", lean_type(sp.rty)) for l in indent(res.lines)]


class JoinMismatch(Exception):
    pass


# ----------------------------------------------------------------------------- spec tables
# One file per group in harness/fnspecs/<name>.py (see harness/fnspecs/README in docs/fn_translator.md):
#   GROUP = "Crc"                         -> lean/NfcVerif/Gen/FnCrc.lean
#   SPECS = [Spec(GROUP, ...), ...]       functions, callees before callers
#   BRIDGE = {"module": "NfcVerif.Props.FnBridgeCrc", "theorems": [...], "properties": ["C14"]}
#   ORDER = 10                            optional; groups are translated in (ORDER, file name) order
#   def inputs(rng, sp): ...              optional self-test inputs [(param values, bind values)]
#   MUTATIONS = [(lean name, description, old text, new text)]   optional self-test mutations
#   SMALL_INT = ("lean name", ...)        optional: functions whose int arguments size a materialised range
SPEC_DIR = os.path.join(os.path.dirname(os.path.abspath(__file__)), "fnspecs")


def load_spec_modules():
    import glob
    import importlib.util
    mods = []
    for path in sorted(glob.glob(os.path.join(SPEC_DIR, "*.py"))):
        name = os.path.basename(path)[:-3]
        if name.startswith("_"):
            continue
        sp = importlib.util.spec_from_file_location("fnspecs_" + name, path)
        m = importlib.util.module_from_spec(sp)
        sp.loader.exec_module(m)
        mods.append(m)
    mods.sort(key=lambda m: (getattr(m, "ORDER", 100), m.__name__))
    return mods


def load_specs():
    """fresh Spec objects of every group, in translation order"""
    specs = []
    seen = set()
    for m in load_spec_modules():
        for sp in m.SPECS:
            if sp.group != m.GROUP:
                raise ValueError("%s: spec %s is not in group %s" % (m.__name__, sp.lean, m.GROUP))
            if sp.lean in seen:
                raise ValueError("duplicate Lean name %s" % sp.lean)
            seen.add(sp.lean)
            specs.append(sp)
    return specs


# ----------------------------------------------------------------------------- emit
def sanitize(reason):
    r = re.sub(r'[^A-Za-z0-9 _.,:;()%/<>=+*\-\[\]\']', " ", reason)
    r = re.sub(r"sorry|admit|axiom|native_decide|bv_decide|implemented_by|unsafe|extern|maxHeartbeats", "X", r)
    return r[:160]


def translate_all(repo, specs=None):
    """-> {group: [lines]}, specs updated in place"""
    specs = load_specs() if specs is None else specs
    modules, done, groups = {}, {}, {}
    OTHER_MODULES.clear()
    for sp in specs:
        path = os.path.join(repo, "src", "nfc", sp.file)
        if sp.file not in modules:
            modules[sp.file] = ast.parse(open(path).read())
        sp.refused = None
        t = FnT(sp, modules[sp.file], done, repo)
        try:
            lines = t.translate()
        except Refuse as e:
            sp.refused = str(e)
            lines = ['def %s : PyFn.Unsupported := .mk "%s"' % (sp.lean, sanitize(str(e)))]
        except (KeyError, AttributeError, IndexError, TypeError, ValueError) as e:   # malformed source for a spec
            sp.refused = "translator error: %s %s" % (type(e).__name__, e)
            lines = ['def %s : PyFn.Unsupported := .mk "%s"' % (sp.lean, sanitize(sp.refused))]
        done[sp.lean] = sp
        sp.uses_groups = sorted({done[c].group for c in t.called if c in done and done[c].group != sp.group})
        doc = "/-- `%s` (nfc/%s), lines %d-%d%s -/" % (sp.qual, sp.file, sp.lines[0], sp.lines[1],
                                                      "; " + sp.note if sp.note else "")
        groups.setdefault(sp.group, []).extend([doc] + lines + [""])
    return groups


def emit(repo, out_dir, specs=None, only=None):
    """regenerate Gen/Fn<Group>.lean for every group (or the groups in `only`); returns the specs"""
    specs = load_specs() if specs is None else specs
    groups = translate_all(repo, specs)
    for g, lines in groups.items():
        if only is not None and g not in only:
            continue
        deps = sorted({d for sp in specs if sp.group == g for d in getattr(sp, "uses_groups", [])})
        text = "\n".join(
            ["import NfcVerif.PyFn"] + ["import NfcVerif.Gen.Fn%s" % d for d in deps] +
            ["/-! GENERATED by harness/translate_fn.py from /repo/src/nfc - do not edit. -/",
             "set_option linter.unusedVariables false",
             "namespace NfcVerif.Gen.Fn", "open NfcVerif", ""] + lines + ["end NfcVerif.Gen.Fn", ""])
        path = os.path.join(out_dir, "Fn%s.lean" % g)
        old = open(path).read() if os.path.exists(path) else None
        if old != text:
            with open(path, "w") as f:
                f.write(text)
    if only is None:
        emit_driver(specs, out_dir)
    return specs


# ----------------------------------------------------------------------------- test driver (self-test only)
def canon_code(t, e):
    """Lean String expression rendering value `e` of Python type t in the canonical form of the self-test"""
    if t == INT:
        return "(toString (%s : Int))" % e
    if t == BOOL:
        return '(if %s then "True" else "False")' % e
    if t == BYTES:
        return "(toHex %s)" % e
    if t == STR:
        return "(%s : String)" % e
    if t == NONE:
        return '"None"'
    if t == SET:
        return "(showSet %s)" % e
    if t == ANY:
        return "(showVal %s)" % e
    if isinstance(t, tuple) and t[0] == "tuple":
        arity = len(t) - 1
        parts = []
        for i in range(arity):
            proj = "(%s)" % e + ".2" * i + (".1" if i < arity - 1 else "")
            parts.append(canon_code(t[1 + i], proj))
        return '("(" ++ ' + ' ++ ", " ++ '.join(parts) + ' ++ ")")'
    if isinstance(t, tuple) and t[0] == "rec":
        fields = RECORDS[t[1]]
        if len(fields) == 0:
            return '"()"'
        if len(fields) == 1:
            return '("(" ++ %s ++ ")")' % canon_code(fields[0][1], e)
        return canon_code(TUP(*[ft for _, ft in fields]), e)
    if isinstance(t, tuple) and t[0] == "opt":
        return '(match %s with | none => "None" | some v => %s)' % (e, canon_code(t[1], "v"))
    if isinstance(t, tuple) and t[0] == "list":
        return '("[" ++ ", ".intercalate ((%s).map fun v => %s) ++ "]")' % (e, canon_code(t[1], "v"))
    raise Refuse("no canonical form for %r" % (t,))


TUPLE_SEPS = [";", "/", "~"]       # separators of (nested) tuples / records in the driver's argument syntax


def parse_code(t, depth=0):
    if t == INT:
        return "pInt"
    if t == BOOL:
        return "pBool"
    if t == BYTES:
        return "parseHex"
    if t == STR:
        return "pStr"
    if t == SET:
        return "pSet"
    if t == LIST(INT):
        return "pSet"
    if isinstance(t, tuple) and t[0] == "list":
        return "(pListOf %s)" % parse_code(t[1], depth)
    if isinstance(t, tuple) and t[0] == "opt" and t[1] in (INT, BYTES, STR, BOOL):
        return "(pOpt %s)" % parse_code(t[1], depth)
    if isinstance(t, tuple) and t[0] == "tuple":
        if depth >= len(TUPLE_SEPS):
            raise Refuse("no parser for tuples nested deeper than %d" % len(TUPLE_SEPS))
        n = len(t) - 1
        cs = ["c%d" % i for i in range(n)]
        ys = ["y%d" % i for i in range(n)]
        return ('(fun s => match s.splitOn "%s" with | [%s] => (match %s with | %s => some (%s) | %s => none) | _ => none)'
                % (TUPLE_SEPS[depth], ", ".join(cs),
                   ", ".join("%s %s" % (parse_code(ct, depth + 1), c) for ct, c in zip(t[1:], cs)),
                   ", ".join("some " + y for y in ys), ", ".join(ys), ", ".join("_" for _ in ys)))
    if isinstance(t, tuple) and t[0] == "rec":      # a record: its field values in constructor order
        fields = RECORDS[t[1]]
        if len(fields) == 0:
            return '(fun s => if s = "()" then some () else none)'
        if len(fields) == 1:
            return parse_code(fields[0][1], depth)
        return parse_code(TUP(*[ft for _, ft in fields]), depth)
    raise Refuse("no parser for %r" % (t,))


DRIVER_PRELUDE = """
def showSet (l : List Int) : String :=
  "{" ++ ",".intercalate ((l.toArray.qsort (· < ·)).toList.map toString) ++ "}"
partial def showVal : PyFn.Val → String
  | .int i => toString i
  | .bytes b => toHex b
  | .bool b => if b then "True" else "False"
  | .none => "None"
  | .tuple l => "(" ++ ", ".intercalate (l.map showVal) ++ ")"
def pInt (s : String) : Option Int := s.toInt?
def pBool (s : String) : Option Bool := if s = "1" then some true else if s = "0" then some false else none
def pStr (s : String) : Option String := if s = "<empty>" then some "" else some s
def pSet (s : String) : Option (List Int) := if s = "-" then some [] else (s.splitOn ",").mapM String.toInt?
def pOpt {α} (p : String → Option α) (s : String) : Option (Option α) := if s = "None" then some none else (p s).map some
def pListOf {α} (p : String → Option α) (s : String) : Option (List α) :=
  if s = "[]" then some [] else (s.splitOn "|").mapM p
/-- deterministic stand-ins for function-valued (opaque) parameters; harness/translate_fn_selftest.py has the same -/
def stubHash (seed : Nat) (args : List Int) : Nat :=
  args.foldl (fun h x => (h * 31 + (x % 65521).toNat + 7) % 65521) (seed * 1009 % 65521)
def stubBytesPure (seed : Nat) (args : List Int) : Bytes :=
  let h := stubHash seed args
  (List.range (h % 5)).map (fun i => (h / (i + 1)) % 256)
def stubIntPure (seed : Nat) (args : List Int) : Int := ((stubHash seed args % 300 : Nat) : Int) - 20
def stubBytes (seed : Nat) (args : List Int) : Py Bytes :=
  let h := stubHash seed args
  if h % 11 = 0 then .error .index else if h % 11 = 1 then .error (.tagCmd 1) else .ok (stubBytesPure seed args)
def stubInt (seed : Nat) (args : List Int) : Py Int :=
  let h := stubHash seed args
  if h % 11 = 0 then .error .index else .ok (stubIntPure seed args)
def stubBoolPure (seed : Nat) (args : List Int) : Bool := stubHash seed args % 2 = 0
def stubBool (seed : Nat) (args : List Int) : Py Bool :=
  let h := stubHash seed args
  if h % 11 = 0 then .error .index else .ok (stubBoolPure seed args)
def stubOptBoolPure (seed : Nat) (args : List Int) : Option Bool :=
  let h := stubHash seed args
  if h % 3 = 0 then none else some (h % 3 = 1)
def stubOptBool (seed : Nat) (args : List Int) : Py (Option Bool) :=
  let h := stubHash seed args
  if h % 11 = 0 then .error .index else .ok (stubOptBoolPure seed args)
def stubOptIntPure (seed : Nat) (args : List Int) : Option Int :=
  if stubHash seed args % 3 = 0 then none else some (stubIntPure seed args)
def stubOptInt (seed : Nat) (args : List Int) : Py (Option Int) :=
  if stubHash seed args % 11 = 0 then .error .index else .ok (stubOptIntPure seed args)
def stubOptBytesPure (seed : Nat) (args : List Int) : Option Bytes :=
  if stubHash seed args % 3 = 0 then none else some (stubBytesPure seed args)
def stubOptBytes (seed : Nat) (args : List Int) : Py (Option Bytes) :=
  let h := stubHash seed args
  if h % 11 = 0 then .error .index else if h % 11 = 1 then .error (.tagCmd 1) else .ok (stubOptBytesPure seed args)
def stubBytes2Pure (seed : Nat) (args : List Int) : Bytes × Bytes :=
  (stubBytesPure seed args, stubBytesPure (seed + 100) args)
def stubBytes2 (seed : Nat) (args : List Int) : Py (Bytes × Bytes) :=
  let h := stubHash seed args
  if h % 11 = 0 then .error .index else if h % 11 = 1 then .error (.tagCmd 1) else .ok (stubBytes2Pure seed args)
def fuelDefault : Nat := 100000
"""
STUB_RESULTS = {BYTES: "stubBytes", INT: "stubInt", BOOL: "stubBool", OPT(BOOL): "stubOptBool",
                OPT(INT): "stubOptInt", OPT(BYTES): "stubOptBytes", TUP(BYTES, BYTES): "stubBytes2"}
STUB_ARGS = {INT: "[%s]", BOOL: "[if %s then 1 else 0]", BYTES: "(PyFn.ints %s)", NONE: "([] : List Int)",
             OPT(INT): "(match %s with | none => [65000] | some v => [65001, v])",
             OPT(BYTES): "(match %s with | none => [65000] | some v => 65001 :: PyFn.ints v)",
             OPT(BOOL): "(match %s with | none => [65000] | some v => [65001, if v then 1 else 0])"}


def emit_driver(specs, out_dir):
    """Gen/FnDispatch.lean: `run name args` for the line-protocol driver lean/Drv/Fn.lean.  Functions with
    opaque (function-valued) parameters and refused functions are not dispatched."""
    groups = []
    for sp in specs:
        if sp.group not in groups:
            groups.append(sp.group)
    L = ["import NfcVerif.Gen.Fn%s" % g for g in groups]
    L += ["/-! GENERATED by harness/translate_fn.py (dispatch table of the self-test driver) - do not edit. -/",
          "namespace NfcVerif.Gen.FnDispatch", "open NfcVerif", DRIVER_PRELUDE]
    head = list(L)
    cases = []            # one entry per dispatched function: its lines of the match
    for sp in specs:
        L = []
        if sp.refused:
            continue
        if sp.opaque and not all(set(a) <= set(STUB_ARGS) and r in STUB_RESULTS for (_, a, r, _) in sp.opaque.values()):
            continue
        ptys = [t for _, t in sp.params] + [t for (_, _, t) in sp.binds]
        RECORDS.clear()
        for cname, fl in sp.rec_fields.items():
            RECORDS[cname] = [(p_, t_) for (p_, t_, _a) in fl]
        try:
            parsers = [parse_code(t) for t in ptys]
            rend = canon_code(sp.rty, "v")
        except Refuse:
            continue
        n = len(ptys)
        avars = ["a%d" % i for i in range(n)]
        xvars = ["x%d" % i for i in range(n)]
        stubs = []
        for k_, (text_, (pn_, atys_, rty_, mon_)) in enumerate(sorted(sp.opaque.items())):
            vs_ = ["o%d" % i for i in range(len(atys_))]
            enc_ = " ++ ".join((STUB_ARGS[t_] % v_ if "%s" in STUB_ARGS[t_] else STUB_ARGS[t_])
                               for t_, v_ in zip(atys_, vs_)) or "[]"
            fn_ = STUB_RESULTS[rty_] + ("" if mon_ else "Pure")
            stubs.append("(fun %s => %s %d (%s))" % (" ".join(vs_), fn_, k_ + 1, enc_) if vs_
                         else "(%s %d [])" % (fn_, k_ + 1))      # no arguments: the parameter is the value itself
        call = " ".join(["Gen.Fn." + sp.lean] + (["fuelDefault"] if sp.fuel else []) + xvars + stubs)
        if sp.mon:
            body = '(match %s with | .ok v => "ok " ++ %s | .error e => "exc " ++ e.name)' % (call, rend)
        else:
            body = '(let v := %s; "ok " ++ %s)' % (call, rend)
        if n == 0:
            L.append('  | "%s", [] => %s' % (sp.lean, body))
        else:
            L.append('  | "%s", [%s] =>' % (sp.lean, ", ".join(avars)))
            L.append("    match %s with" % ", ".join("%s %s" % (p, a) for p, a in zip(parsers, avars)))
            L.append("    | %s => %s" % (", ".join("some " + x for x in xvars), body))
            if n >= 1:
                L.append('    | %s => "bad-args"' % ", ".join("_" for _ in xvars))
        cases.append(L)
    # the table is split into chunks (one big `match` exceeds the compiler's heartbeat limit beyond ~450 cases)
    L, chunk = head, 40
    nchunks = (len(cases) + chunk - 1) // chunk
    for c in range(nchunks):
        L += ["def run%d (name : String) (args : List String) : Option String :=" % c, "  match name, args with"]
        for cs in cases[c * chunk:(c + 1) * chunk]:
            L.append(cs[0].replace(" => (", " => some (", 1) if len(cs) == 1 else cs[0])
            if len(cs) > 1:
                L.append(cs[1])
                L.append(cs[2].replace(" => (", " => some (", 1))
                L.append(cs[3].replace('=> "bad-args"', '=> some "bad-args"'))
        L += ["  | _, _ => none", ""]
    L += ["def run (name : String) (args : List String) : String :="]
    body = '"unknown"'
    for c in reversed(range(nchunks)):
        body = "(run%d name args).getD %s" % (c, body) if body == '"unknown"' else \
            "match run%d name args with | some r => r | none => %s" % (c, body)
    L += ["  " + body, "", "end NfcVerif.Gen.FnDispatch", ""]
    text = "\n".join(L)
    path = os.path.join(out_dir, "FnDispatch.lean")
    old = open(path).read() if os.path.exists(path) else None
    if old != text:
        with open(path, "w") as f:
            f.write(text)


def table(repo):
    """markdown table of the translated functions (for docs/fn_translator.md)"""
    specs = load_specs()
    translate_all(repo, specs)
    mods = {m.GROUP: m for m in load_spec_modules()}
    rows = ["| group | source (nfc/) | lines | `Gen.Fn.` name | result | cut / note |", "|---|---|---|---|---|---|"]
    for sp in specs:
        res = "REFUSED: " + sp.refused if sp.refused else ("Py " if sp.mon else "") + sp.rty_lean
        rows.append("| %s | `%s` `%s` | %d-%d | `%s`%s | `%s` | %s |" % (
            sp.group, sp.file, sp.qual, sp.lines[0], sp.lines[1], sp.lean, " (fuel)" if sp.fuel else "", res, sp.note))
    rows.append("")
    for g, m in mods.items():
        rows.append("* **%s**: bridge module `%s` (%d theorems), properties %s, spec `harness/fnspecs/%s.py`" % (
            g, m.BRIDGE["module"], len(m.BRIDGE["theorems"]), ", ".join(m.BRIDGE["properties"]),
            m.__name__.replace("fnspecs_", "")))
    return "\n".join(rows)


if __name__ == "__main__":
    if "--table" in sys.argv:
        print(table(os.environ.get("NFCPY_REPO", "/repo")))
        sys.exit(0)
    repo = sys.argv[1] if len(sys.argv) > 1 else os.environ.get("NFCPY_REPO", "/repo")
    out = sys.argv[2] if len(sys.argv) > 2 else os.path.join(
        os.path.dirname(os.path.dirname(os.path.abspath(__file__))), "lean", "NfcVerif", "Gen")
    for sp in emit(repo, out):
        print("%-8s %-28s %s" % (sp.group, sp.lean, "REFUSED: " + sp.refused if sp.refused else
                                 "%s%s" % ("Py " if sp.mon else "", sp.rty_lean)))
