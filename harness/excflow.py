"""T-tie for the clause "only documented exceptions escape" (exception-flow analysis).

    import excflow
    excflow.run(ck, "tag_commands", "ndef")      # inside harness/props/cXX.py:run(ck)

regenerates lean/NfcVerif/Gen/ClassTree.lean and Gen/ExcFlow.lean from the source tree under test
(harness/translate_exc.py, `ast` only), rebuilds NfcVerif.Props.ExcFlow and audits the theorems of the
named groups.  A theorem that no longer checks is a *broken proof obligation* of the calling check
(`ck.lean(..., gen_dependent=True)`), reported with a diagnosis naming the function and the class that now
escapes.  See docs/exc_flow.md.
"""
import os
import re
import subprocess
import sys

sys.path.insert(0, os.path.dirname(os.path.abspath(__file__)))
import translate_exc  # noqa: E402

VERIF = os.path.dirname(os.path.dirname(os.path.abspath(__file__)))
LEAN = os.path.join(VERIF, "lean")
GEN = os.path.join(LEAN, "NfcVerif", "Gen")
MODULE = "NfcVerif.Props.ExcFlow"          # common part; one module per group below
MODULES = {"Tags": MODULE + "Tags", "Ndef": MODULE + "Ndef", "Drivers": MODULE + "Drivers", "Clf": MODULE + "Clf",
           "Llc": MODULE + "Llc", "Dep": MODULE + "Dep", "Sock": MODULE + "Sock",
           "Clients": MODULE + "Clients", "Discovery": MODULE + "Discovery", "Transport": MODULE + "Transport"}
NS = "NfcVerif.ExcFlowProps."

# proved once for all programs (Lemmas/ExcFlow.lean); audited with every group
GENERIC = ["NfcVerif.ExcFlow." + t for t in (
    "sub_iff_below", "runs_mem_outs", "mem_outs_runs", "link_sound", "link_exact", "link_at",
    "escapesOnly_of_check", "canEscape_of_check", "escapesOnly_of_checkOnly", "canEscape_of_checkCan",
    "not_escapesOnly_of_canEscape", "neverEscapes_of_checkNever", "not_neverEscapes_of_canEscape", "checkAll_split",
    "checkOnly_append", "checkNever_append", "checkCan_append")] + [NS + "tree_ordered", NS + "world_names", NS + "only_iff_runs", NS + "only_all"]

GROUPS = {
    "tag_commands": {
        "module": MODULES["Tags"],
        "properties": ["C16"],
        "what": "transceive / send_cmd_recv_rsp of Type 1-3 and the commands built on them, presence checks, NDEF "
                "write, format/protect/authenticate of all tag classes incl. NXP, Sony, Broadcom variants: only "
                "TagCommandError (plus the RuntimeError of the open finding, documented ValueError, AssertionError)",
        "theorems": ["tagsAll_ok", "tagsOnly_ok", "tagsOnlyIO_ok", "tagsCan_ok", "tt1_transceive_escapes", "tt1_transceive_can_fail",
                     "tt1_transceive_runtimeerror", "tt2_transceive_escapes", "tt2_transceive_can_fail",
                     "tt2_transceive_runtimeerror", "tt3_send_cmd_recv_rsp_escapes", "tt3_send_cmd_recv_rsp_can_fail",
                     "tt1_commands_escape", "tt2_commands_escape", "tt3_commands_escape", "is_present_escapes",
                     "ndef_write_escapes", "tt2_transceive_escapes_io", "tt3_send_cmd_recv_rsp_escapes_io",
                     "tagOpsOnly_ok", "tag_operations_escape"],
    },
    "isodep": {
        "module": MODULES["Tags"],
        "properties": ["C12", "C16"],
        "what": "IsoDepInitiator.exchange / Type4Tag.transceive / send_apdu: only Type4TagCommandError for a command; "
                "the raw CommunicationError exists only on the presence-check path",
        "theorems": ["tagsAll_ok", "tagsOnly_ok", "tagsOnlyIO_ok", "tagsCan_ok", "tt4_exchange_cmd_escapes", "tt4_transceive_cmd_escapes",
                     "tt4_exchange_cmd_can_fail", "tt4_inner_exchange_raises", "tt4_transceive_escapes",
                     "tt4_presence_check_raises_raw", "tt4_send_apdu_escapes", "tt4_exchange_cmd_escapes_io"],
    },
    "ndef": {
        "module": MODULES["Ndef"],
        "properties": ["C08", "C16"],
        "what": "nfc.tag.activate, Tag.ndef, NDEF.has_changed, _read_ndef_data of the four types: command errors "
                "end as None",
        "theorems": ["ndefAll_ok", "ndefOnly_ok", "ndefCan_ok", "tag_activate_escapes", "tt4_activate_raises", "ndef_read_escapes",
                     "ndef_read_inner_raises", "tag_ndef_escapes"],
    },
    "drivers": {
        "module": MODULES["Drivers"],
        "properties": ["C13"],
        "what": "pn53x family, rcs380, udp, acr122 chipset: Device.send_cmd_recv_rsp / send_rsp_recv_cmd and "
                "ContactlessFrontend.exchange let only CommunicationError subclasses or IOError through "
                "(named residual: AssertionError, NotImplementedError)",
        "theorems": ["driversAll_ok", "driversOnly_ok", "driversCan_ok", "pn53x_chipset_command_escapes", "pn53x_chipset_raises_internal",
                     "pn53x_send_cmd_recv_rsp_escapes", "pn53x_send_rsp_recv_cmd_escapes", "pn53x_send_cmd_recv_rsp_can_fail",
                     "rcs380_send_cmd_recv_rsp_escapes", "rcs380_send_rsp_recv_cmd_escapes", "rcs380_inner_raises_internal",
                     "udp_exchange_escapes", "clf_exchange_escapes"],
    },
    "connect": {
        "module": MODULES["Clf"],
        "properties": ["C18", "C09"],
        "what": "what can leave connect() / sense() / _card_connect, with NFC-DEP activation translated down to the drivers "
                "(no assumption about mac.activate); no TimeoutError/BrokenLinkError/ProtocolError leaves connect(); "
                "SystemExit of the open finding is stated",
        "theorems": ["clfAll_ok", "clfOnly_ok", "clfNever_ok", "clfCan_ok", "clf_connect_escapes", "clf_connect_no_commerror",
                     "clf_connect_systemexit",
                     "clf_llcp_connect_keyboardinterrupt", "clf_sense_several_escapes", "clf_sense_single_unsupported",
                     "clf_card_connect_escapes", "clf_listen_raises_commerror"],
    },
    "llc": {
        "module": MODULES["Llc"],
        "properties": ["C07", "C09"],
        "what": "llc.exchange, run_as_initiator/run_as_target, SNEP and handover server threads: what can end them",
        "theorems": ["llcAll_ok", "llcOnly_ok", "llcCan_ok", "llc_exchange_escapes", "llc_run_escapes", "llc_run_systemexit",
                     "snep_server_threads_escape", "handover_server_threads_escape", "handover_serve_encodeerror"],
    },
    "dep": {
        "module": MODULES["Dep"],
        "properties": ["C04", "C07"],
        "what": "nfc/dep.py: Initiator/Target activate, deactivate, exchange with the retry machinery, frame and PDU "
                "codecs: only CommunicationError subclasses (IOError passes through; UnsupportedTargetError of "
                "sense/listen; named residual ValueError/AssertionError of argument checks); a TransmissionError never "
                "leaves Initiator.exchange",
        "theorems": ["depAll_ok", "depOnly_ok", "depOnlyIO_ok", "depNever_ok", "depCan_ok", "dep_initiator_exchange_escapes",
                     "dep_initiator_exchange_no_transmission_error", "dep_initiator_exchange_can_fail",
                     "dep_target_exchange_escapes", "dep_target_exchange_can_fail", "dep_helpers_escape",
                     "dep_recovery_escapes", "dep_initiator_activate_escapes", "dep_target_activate_escapes",
                     "dep_activate_can_fail", "dep_deactivate_escapes", "dep_deactivate_inner_raises",
                     "dep_frame_codec_escapes", "dep_pdu_codec_escapes", "dep_codec_can_fail", "dep_exchange_escapes_io",
                     "dep_activate_escapes_io"],
    },
    "sock": {
        "module": MODULES["Sock"],
        "properties": ["C09", "C17", "C05"],
        "what": "LLCP socket API: every method of nfc.llcp.Socket, the LogicalLinkController socket API, the three "
                "socket kinds of tco.py, service access points, service discovery, collect/dispatch: only nfc.llcp.Error "
                "(and ConnectRefused) plus the named residual per method (TypeError/ValueError argument checks, "
                "UnicodeEncodeError of a non-latin-1 name, NotImplementedError, RuntimeError, AssertionError, "
                "IndexError of resolve); the IndexError of the wake-up after close() never leaves a call",
        "theorems": ["sockAll_ok", "sockOnly_ok", "sockNever_ok", "sockCan_ok", "socket_api_escapes", "socket_class_escapes",
                     "socket_api_error_only", "socket_kinds_escape", "socket_wakeup_indexerror_mapped",
                     "socket_recv_raises_indexerror", "sap_shutdown_never_raises", "socket_api_residual",
                     "llc_collect_dispatch_escape", "llc_collect_dispatch_pdu_error"],
    },
    "clients": {
        "module": MODULES["Clients"],
        "properties": ["C06", "C07", "C09"],
        "what": "SNEP client (send_request, recv_response, connect/put/get/close) and handover client: only nfc.llcp.Error, "
                "the documented SnepError, and for the record-level SNEP calls the ndeflib errors of encoding the argument / "
                "decoding the answer; nothing but nfc.llcp.Error leaves the handover client",
        "theorems": ["clientsAll_ok", "clientsOnly_ok", "clientsNever_ok", "clientsCan_ok", "clients_escape",
                     "snep_client_escapes", "snep_client_octets_no_ndef_error", "snep_client_can_fail",
                     "snep_get_records_decode_errors", "handover_client_escapes", "handover_client_no_ndef_error",
                     "handover_client_decoder_raises"],
    },
    "discovery": {
        "module": MODULES["Discovery"],
        "properties": ["C13", "C18"],
        "what": "sense_*/listen_* of every driver class (pn53x family, rcs380, udp, acr122, arygon), Device.__init__/close/mute, "
                "nfc.clf.device.connect, ContactlessFrontend.__init__/open/close/sense/listen calling the drivers (no assumption "
                "about a driver's sense_*/listen_* any more): what leaves them; the driver-internal Chipset.Error / StatusError "
                "DO leave target discovery, sense(), listen() and connect(); NFC-DEP activation calling the real sense()/listen(): "
                "no TimeoutError/BrokenLinkError/ProtocolError leaves a driver's listen_dep, listen() or activation (fixes/C18/0005)",
        "theorems": ["discoveryAll_ok", "discoveryOnly_ok", "discoveryNever_ok", "discoveryCan_ok", "pn53x_sense_escapes",
                     "pn53x_listen_escapes", "rcs380_sense_escapes", "rcs380_listen_escapes",
                     "rcs380_discovery_no_internal_commerror", "udp_sense_escapes", "udp_listen_escapes", "frontend_escapes",
                     "driver_internal_classes_leave_discovery", "clf_sense_listen_internal_classes",
                     "clf_sense_absorbs_commerror", "udp_discovery_raises_commerror", "listen_returns_none_when_peer_silent",
                     "dep_activate_stack_escapes", "clf_connect_internal_classes"],
    },
    "transport": {
        "module": MODULES["Transport"],
        "properties": ["C13", "C14"],
        "what": "nfc/clf/transport.py with the primitive assumption at pyserial / libusb1 (serial.SerialException - an IOError - "
                "and any usb1.USBError subclass): only IOError leaves TTY.read/write/open/close and USB.read/write/close - the "
                "assumption `self.transport.*: OSError` of the drivers group proved of the translated transports; a raw "
                "USBError DOES leave USB.open / USB.__init__ (stated)",
        "theorems": ["transportAll_ok", "transportOnly_ok", "transportNever_ok", "transportCan_ok", "transport_read_escapes",
                     "transport_write_escapes", "transport_close_escapes", "tty_open_escapes", "transport_maps_library_errors",
                     "transport_can_fail", "usb_open_escapes", "usb_open_raises_usberror"],
    },
}
for _d in GROUPS.values():                       # fully qualified, as `Check.lean` wants them
    _d["theorems"] = [NS + _t for _t in _d["theorems"]]
# which group belongs in which property check
BY_PROPERTY = {}
for _g, _d in GROUPS.items():
    for _p in _d["properties"]:
        BY_PROPERTY.setdefault(_p, []).append(_g)


def regenerate(repo, gen_dir=GEN):
    """translate `repo` -> Gen/ClassTree.lean, Gen/ExcFlow.lean; returns the translator (reports)"""
    return translate_exc.emit(repo, gen_dir)


def theorems_of(groups):
    """{module: [fully qualified theorem names]}"""
    out = {MODULE: list(GENERIC)}
    for g in groups:
        l = out.setdefault(GROUPS[g]["module"], [])
        for t in GROUPS[g]["theorems"]:
            if t not in l:
                l.append(t)
    return out


def props_files(lean_dir=None):
    d = os.path.join(lean_dir or LEAN, "NfcVerif", "Props")
    return sorted(os.path.join(d, f) for f in os.listdir(d) if f.startswith("ExcFlow") and f.endswith(".lean"))


def _lake_env_lean(path, timeout=600, lean_dir=None):
    p = subprocess.run(["lake", "env", "lean", path], cwd=lean_dir or LEAN, stdout=subprocess.PIPE, stderr=subprocess.STDOUT,
                       text=True, timeout=timeout)
    return p.returncode, p.stdout


def summaries(timeout=600, lean_dir=None):
    """{function id: [class names that can leave it]} computed by Lean from the current Gen files
    (needs Gen.ExcFlow and Lemmas.ExcFlow built); None when the generated files do not compile"""
    import fcntl
    lean_dir = lean_dir or LEAN
    d = os.path.join(lean_dir, ".lake", "audit")
    os.makedirs(d, exist_ok=True)
    path = os.path.join(d, "excflow_summaries.lean")
    with open(path, "w") as f:
        f.write("""import NfcVerif.Model.ExcFlow
import NfcVerif.Gen.ClassTree
import NfcVerif.Gen.ExcFlow
open NfcVerif.ExcFlow NfcVerif.Gen.ClassTree NfcVerif.Gen.ExcFlow
def nameOf (c : Cls) : String := (names.lookup c).getD "?"
def base (tbl : List (Site × List Cls)) : Site → List Cls := fun k => expandAll world.tree (lookupAbs world tbl k)
def main : IO Unit := do
  let t := summTable world (base table) prog
  for (f, l) in t do
    IO.println s!"{(siteNames.lookup f).getD "?"}|{" ".intercalate (l.map nameOf)}"
#eval main
""")
    lock = open(os.path.join(lean_dir, ".lake.lock"), "w")
    fcntl.flock(lock, fcntl.LOCK_EX)
    try:
        p = subprocess.run(["lake", "build", "NfcVerif.Gen.ExcFlow", "NfcVerif.Gen.ClassTree"], cwd=lean_dir,
                           stdout=subprocess.PIPE, stderr=subprocess.STDOUT, text=True, timeout=timeout)
    finally:
        fcntl.flock(lock, fcntl.LOCK_UN)
        lock.close()
    if p.returncode != 0:
        return None, p.stdout[-2000:]
    rc, out = _lake_env_lean(path, timeout, lean_dir)
    if rc != 0:
        return None, out[-2000:]
    res = {}
    for line in out.splitlines():
        if line.startswith("fn:") and "|" in line:
            k, v = line.split("|", 1)
            res[k[3:]] = v.split()
    return res, ""


def parse_specs(lean_dir=None):
    """the spec lists of Props/ExcFlow*.lean: {list name: [(function ident, [class idents])]} (Only lists, and Never lists:
    name ends with `Never`) and {list name: [(function ident, class ident)]} (Can lists)"""
    text = "\n".join(open(f).read() for f in props_files(lean_dir))
    only, can = {}, {}
    # a list: the header line, then the item lines (indented), the last one closing the bracket
    for m in re.finditer(r"def (\w+) : List \(Site × List Cls\) := \[\n((?:[ \t]+[^\n]*\n)+)", text):
        if m.group(1) == "tableIO" or m.group(1).startswith("tbl"):
            continue
        only[m.group(1)] = [(f, [c.strip()[4:] for c in cs.split(",") if c.strip()])
                            for f, cs in re.findall(r"\(Site\.(\w+), \[([^\]]*)\]\)", m.group(2))]
    # the same allowed list for a list of functions: `def <name>Fns : List Site := [...]`, `def <name>Allowed : List Cls := ...`
    allowed = {m.group(1): [c.strip()[4:] for c in m.group(2).replace("\n", " ").split(",") if c.strip()]
               for m in re.finditer(r"def (\w+)Allowed : List Cls :=\s*\[([^\]]*)\]", text)}
    for m in re.finditer(r"def (\w+)Fns : List Site := \[\n((?:[ \t]+[^\n]*\n)+)", text):
        if m.group(1) in allowed:
            only[m.group(1)] = [(f, allowed[m.group(1)]) for f in re.findall(r"Site\.(\w+)", m.group(2))]
    for m in re.finditer(r"def (\w+) : List \(Site × Cls\) := \[\n((?:[ \t]+[^\n]*\n)+)", text):
        can[m.group(1)] = re.findall(r"\(Site\.(\w+), Cls\.(\w+)\)", m.group(2))
    return only, can


def diagnose(tr=None, repo=None, lean_dir=None):
    """which statements of Props/ExcFlow*.lean fail on the current Gen files, and why (list of strings).
    Independent of the Lean proof: used to explain a broken obligation and by the self-test."""
    if tr is None:
        tr = regenerate(repo or os.environ.get("NFCPY_REPO", "/repo"))
    summ, err = summaries(lean_dir=lean_dir)
    if summ is None:
        return ["generated files do not compile: " + err[-600:]]
    tree = tr.repo.class_tree()
    ident = {translate_exc.lean_ident(k): k for k in tree}
    fident = {translate_exc.lean_ident("fn:" + s["id"]): s["id"] for s in tr.specs}

    def below(c, d, seen=()):
        return c == d or any(below(b, d) for b in tree.get(c, []))
    out = []
    only, can = parse_specs(lean_dir)
    for lst, specs in sorted(only.items()):
        if lst.endswith("IO"):
            continue            # evaluated with another table; not diagnosed here
        never = lst.endswith("Never")
        for f, allowed in specs:
            fid = fident.get(f)
            if fid is None or fid not in summ:
                out.append("%s: function %s is not translated any more" % (lst, f))
                continue
            missing = [a for a in allowed if a not in ident]
            if missing:
                out.append("%s: %s names unknown classes %s" % (lst, f, missing))
                continue
            if never:
                bad = [c for c in summ[fid] if any(below(c, ident[a]) for a in allowed)]
                if bad:
                    out.append("%s|%s: %s can now leave %s (stated: never %s)" % (
                        lst, f, ", ".join(sorted(set(bad))), fid, ", ".join(ident[a] for a in allowed)))
                continue
            bad = [c for c in summ[fid] if not any(below(c, ident[a]) for a in allowed)]
            if bad:
                out.append("%s|%s: %s can now leave %s (allowed: %s)" % (lst, f, ", ".join(sorted(set(bad))), fid,
                                                                        ", ".join(ident[a] for a in allowed) or "nothing"))
    for lst, specs in sorted(can.items()):
        for f, c in specs:
            fid = fident.get(f)
            if fid is None or fid not in summ:
                out.append("%s: function %s is not translated any more" % (lst, f))
            elif c not in ident:
                out.append("%s: unknown class %s" % (lst, c))
            elif ident[c] not in summ[fid]:
                out.append("%s|%s: %s can no longer leave %s (witness / finding statement is stale)" % (lst, f, ident[c], fid))
    return out


def broken_theorems(diag, lean_dir=None):
    """theorem names whose *statement* is about a function named in a diagnosis (the `<list>_ok` theorem of the
    list breaks as well, and with it - at the level of the Lean build - every theorem of that module)"""
    hits = []
    for d in diag:
        tag = d.split(":", 1)[0]
        if "|" in tag:
            hits.append(tuple(tag.split("|")))
    text = "\n".join(open(f).read() for f in props_files(lean_dir))
    names = []
    for m in re.finditer(r"theorem (\w+)\b(.*?):=", text, re.S):
        stmt = m.group(2)
        for lst, f in hits:
            kind_ok = ("Can " in stmt) if lst.endswith("Can") else ("NeverEscapes" in stmt) if lst.endswith("Never") \
                else ("Only" in stmt)
            direct = kind_ok and re.search(r"\bSite\.%s\b" % re.escape(f), stmt)
            via_list = re.search(r"∈ %s(Fns)?\b" % re.escape(lst), stmt)
            if (direct or via_list) and m.group(1) not in names:
                names.append(m.group(1))
    return names


def run(ck, *groups):
    """regenerate, rebuild, audit; returns True when every theorem of the groups checks"""
    import common
    groups = list(groups) or list(BY_PROPERTY.get(ck.pid, []))
    import shutil
    import tempfile
    tmp = tempfile.mkdtemp(prefix="exc-")     # the shared Gen/ files are rewritten by common.regen_all() under the
    try:                                       # lake lock; here only the translator's report is needed
        tr = regenerate(common.REPO, tmp)
    finally:
        shutil.rmtree(tmp, ignore_errors=True)
    ck.trusted.append("harness/translate_exc.py (ast: src/nfc -> Gen/ClassTree.lean, Gen/ExcFlow.lean) with its "
                      "assumption table (docs/exc_flow.md), Python's ast module")
    ck.assumptions.append(
        "exception flow (excflow groups %s): an exception can only come from a `raise` statement, from a call site of "
        "the assumption table (Gen.ExcFlow.table: what each primitive site may raise) or from an untranslated "
        "statement; implicit raises of data operations (IndexError, struct.error ...) are outside this analysis; "
        "branch conditions and loop counts are abstracted (over-approximation)" % ", ".join(groups))
    n_other = sum(len(ft.others) for _, ft in tr.results.values() if ft)
    n_unknown = sum(len(ft.unknown) for _, ft in tr.results.values() if ft)
    ck.notes.append("excflow: %d functions translated (%d untranslatable statements, %d unknown call sites, %d missing), "
                    "%d exception classes" % (len(tr.specs), n_other, n_unknown, len(tr.missing),
                                              len(tr.repo.class_tree())))
    ok = ck.lean_many(list(theorems_of(groups).items()), gen_dependent=True)
    if not ok:
        try:
            diag = diagnose(tr)
        except Exception as e:      # the diagnosis is a convenience, never the verdict
            diag = ["diagnosis failed: %r" % e]
        if diag:
            ck.lean_errors.append((MODULE + " (diagnosis)", diag[:12]))
    return ok


def doc_tables(tr, lean_dir=None):
    """markdown: assumption table, translated functions (source line, sites, links), theorems per function"""
    summ, _ = summaries(lean_dir=lean_dir)
    text = "\n".join(open(f).read() for f in props_files())
    only_lists, can_lists = parse_specs()
    L = []
    L.append("### Primitive call sites and what they are assumed to raise\n")
    L.append("| site (function / expression) | assumed to raise (classes and their subclasses) |")
    L.append("|---|---|")
    for n in sorted(tr.site_kinds):
        if tr.site_kinds[n] == "prim":
            L.append("| `%s` | %s |" % (n, ", ".join("`%s`" % c for c in tr.site_asm[n]) or "nothing"))
    L.append("")
    L.append("### Translated functions\n")
    L.append("| id | function | source | call sites (p = primitive, f = translated callee) | assumed not to raise | "
             "can leave the function (computed) | theorems |")
    L.append("|---|---|---|---|---|---|---|")
    for spec in tr.specs:
        term, ft = tr.results[spec["id"]]
        if ft is None:
            continue
        sites = sorted({("f " if k == "fn" else "p " if k == "prim" else "? ") + n.replace("fn:", "") for _, k, n in ft.used_sites})
        ident = translate_exc.lean_ident("fn:" + spec["id"])
        lists = [l for l, rows in list(only_lists.items()) + list(can_lists.items()) if any(r[0] == ident for r in rows)]
        thms = sorted({m.group(1) for m in re.finditer(r"theorem (\w+)\b(.*?):=", text, re.S)
                       if re.search(r"\bSite\.%s\b" % re.escape(ident), m.group(2)) or
                       any(re.search(r"∈ %s(Fns)?\b" % re.escape(l), m.group(2)) for l in lists)})
        when = "; cut: " + ", ".join("`%s` is %s" % kv for kv in spec.get("when", {}).items()) if spec.get("when") else ""
        L.append("| `%s` | `%s.%s`%s | %s:%d | %s | %s | %s | %s |" % (
            spec["id"], spec["module"], spec["qual"], when, os.path.relpath(spec["_mod"].path, tr.root), spec["_fn"].lineno,
            "<br>".join("`%s`" % x for x in sites) or "-", ", ".join("`%s`" % b for b in sorted(set(ft.benign))) or "-",
            " ".join((summ or {}).get(spec["id"], [])) or "nothing", ", ".join(thms) or "-"))
    return "\n".join(L) + "\n"


def private_workspace(work=None):
    """a private Lean workspace with only the ExcFlow files (copied from this tree): the command line tools and the
    self-test regenerate and evaluate there, never in the shared workspace that running checks rebuild"""
    import shutil
    work = work or os.environ.get("EXCFLOW_SELFTEST_DIR", "/tmp/w2-selftest")
    ws = os.path.join(work, "lean")
    os.makedirs(os.path.join(ws, "NfcVerif", "Gen"), exist_ok=True)
    with open(os.path.join(ws, "lakefile.toml"), "w") as f:
        f.write('name = "NfcVerif"\nversion = "0.1.0"\ndefaultTargets = ["NfcVerif"]\n\n[[lean_lib]]\nname = "NfcVerif"\n'
                'globs = ["NfcVerif.+"]\n')
    shutil.copy(os.path.join(LEAN, "lean-toolchain"), os.path.join(ws, "lean-toolchain"))
    for sub in ("Model", "Lemmas", "Props"):
        os.makedirs(os.path.join(ws, "NfcVerif", sub), exist_ok=True)
        keep = set()
        for name in sorted(os.listdir(os.path.join(LEAN, "NfcVerif", sub))):
            if not (name.startswith("ExcFlow") and name.endswith(".lean")):
                continue
            keep.add(name)
            src = os.path.join(LEAN, "NfcVerif", sub, name)
            dst = os.path.join(ws, "NfcVerif", sub, name)
            if not os.path.exists(dst) or open(src).read() != open(dst).read():
                shutil.copy(src, dst)
        for name in os.listdir(os.path.join(ws, "NfcVerif", sub)):
            if name not in keep:
                os.remove(os.path.join(ws, "NfcVerif", sub, name))
    return ws


if __name__ == "__main__":
    repo = os.environ.get("NFCPY_REPO", "/repo")
    args = [a for a in sys.argv[1:] if not a.startswith("-")]
    if args:
        repo = args[0]
    # regenerate and evaluate in a private workspace: checks running in parallel rewrite the shared Gen/ files
    ws = private_workspace(os.environ.get("EXCFLOW_CLI_DIR", "/tmp/excflow-cli-%d" % os.getuid()))
    tr = regenerate(repo, os.path.join(ws, "NfcVerif", "Gen"))
    print("translated %d functions, %d classes, missing %s" % (len(tr.specs), len(tr.repo.class_tree()), tr.missing))
    if "--doc" in sys.argv:
        path = os.path.join(VERIF, "docs", "exc_flow.md")
        doc = open(path).read()
        a, b = "<!-- BEGIN GENERATED (harness/excflow.py --doc) -->", "<!-- END GENERATED -->"
        doc = doc[:doc.index(a) + len(a)] + "\n" + doc_tables(tr, ws) + doc[doc.index(b):]
        open(path, "w").write(doc)
        print("docs/exc_flow.md tables regenerated")
    if "--summaries" in sys.argv:
        s, err = summaries(lean_dir=ws)
        for k in sorted(s or {}):
            print("%-46s %s" % (k, " ".join(s[k])))
        print(err)
    d = diagnose(tr, lean_dir=ws)
    print("\n".join(d) if d else "all statements of Props/ExcFlow*.lean hold on %s" % repo)
