"""setup_cmd: build every Lean target the registered checks need (offline, from files on disk)."""
import importlib
import json
import os
import sys

sys.path.insert(0, os.path.dirname(os.path.abspath(__file__)))
import common  # noqa: E402

man = json.load(open(os.path.join(common.VERIF, "MANIFEST.json")))
targets = ["NfcVerif.Py"]
for c in man["checks"]:
    mod = importlib.import_module("props." + c["property_id"].lower())
    mods = [mod] + [importlib.import_module("props.%s_%s" % (c["property_id"].lower(), p)) for p in getattr(mod, "PARTS", [])]
    for m in mods:
        for t in getattr(m, "LEAN_TARGETS", []):
            if t not in targets:
                targets.append(t)
# T-tie modules regenerated from the source (harness/released.json): function bridges and exception flow
for m in common.fn_spec_modules():
    if m.BRIDGE["module"] not in targets:
        targets.append(m.BRIDGE["module"])
if common.released().get("excflow"):
    import excflow
    for t in [excflow.MODULE] + sorted(excflow.MODULES.values()):
        if t not in targets:
            targets.append(t)
if common.released().get("monitor"):
    import monitor
    for t in getattr(monitor, "MODULES", None) or [monitor.MODULE]:
        if t not in targets:
            targets.append(t)
rc, out = common.lake(["build"] + targets, timeout=7200)
print(out[-3000:])
print("setup: built %d lake targets, rc=%d" % (len(targets), rc))
sys.exit(0 if rc == 0 else 2)
