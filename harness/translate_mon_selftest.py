"""Self-test of the monitor-discipline translator (harness/translate_mon.py).

    /venv/bin/python harness/translate_mon_selftest.py [--runs N] [--seed S] [--no-lean] [--only validate|mutate]

Part 1 - validation against CPython.  The REAL classes of nfc/llcp/tco.py and llc.py run under recording doubles
of threading.RLock / threading.Condition and with recording containers (deque, list, dict) and `__setattr__`
hooks; 2-3 threads execute random sequences of API calls on one shared object under a deterministic (seeded)
scheduler in which exactly one thread runs at a time.  For every call the observed event sequence

    acq / rel (the object's lock), waitB cv / wake, ntf cv / ntfAll cv, wr attr

must be a trace of the translated method (`Runs` of Model/Monitor.lean, re-implemented below as a small
NFA simulation over the translator's IR): same event kinds in the same order, same condition and attribute names,
condition operations inside acq/rel.  A call that has not finished when the run ends (blocked for ever) must be a
prefix of a trace.  Anything else is a CONTRADICTION; the self-test fails unless there are zero.

Part 2 - mutations.  >= 15 source mutations on copies of the tree under /tmp/w3/mut/ are translated and checked
in a private Lean workspace (/tmp/w3/lean): the table says which instance theorems of Props/Monitor.lean break.
"""
import _thread
import collections
import importlib
import os
import random
import re
import shutil
import subprocess
import sys
import threading as _real_threading
import time
import types

HERE = os.path.dirname(os.path.abspath(__file__))
sys.path.insert(0, HERE)
import translate_mon  # noqa: E402
import monitor  # noqa: E402

REPO = os.environ.get("NFCPY_REPO", "/repo")
WORK = os.environ.get("MON_SELFTEST_DIR", "/tmp/w3")


# ================================================================================================
# part 1a: deterministic scheduler and recording doubles
# ================================================================================================
class _Sem:
    def __init__(self):
        self.l = _thread.allocate_lock()
        self.l.acquire()

    def acquire(self, timeout=30.0):
        if not self.l.acquire(True, timeout):
            raise RuntimeError("scheduler: a thread blocked outside the doubles")

    def release(self):
        self.l.release()


class Abort(BaseException):
    pass


class World:
    """one execution: threads, doubles, event log"""

    def __init__(self, rng):
        self.rng = rng
        self.threads = []
        self.current = None
        self.baton = _Sem()
        self.recording = False
        self.owner = {}          # id(helper object / container) -> (object, attribute)   (keeps them alive)
        self.keep = []
        self.classes = ()        # classes whose instances are recorded
        self.helpers = ()
        self.live = set()        # ids of objects whose constructor has returned (a new object is not shared yet)

    # ---- events
    def emit(self, kind, detail=None, obj=None):
        t = self.current
        if self.recording and t is not None and t.call is not None:
            t.call["trace"].append((kind, detail, id(obj) if obj is not None else None))

    # ---- scheduling
    def spawn(self, name, ops):
        t = SThread(self, name, ops)
        self.threads.append(t)
        return t

    def run(self, max_steps=4000, script=None, teardown=True):
        steps = 0
        while steps < max_steps:
            en = [t for t in self.threads if t.enabled()]
            if not en or (script is not None and not script):
                break
            if script is not None:
                # a script entry runs the named thread until it parks in a wait() or finishes
                t = [x for x in self.threads if x.name == script[0]][0]
                if not t.enabled():
                    if t.state in ("wait", "done") and getattr(t, "_ran", False):
                        t._ran = False
                        script.pop(0)
                        continue
                    raise RuntimeError("scripted schedule: thread %s is not enabled (%s)" % (t.name, t.state))
                if t.state == "wait" and getattr(t, "_ran", False):
                    t._ran = False
                    script.pop(0)
                    continue
                t._ran = True
            else:
                t = self.rng.choice(en)
            self.current = t
            t.sem.release()
            self.baton.acquire()
            self.current = None
            steps += 1
        stuck = [t for t in self.threads if t.state != "done"]
        if not teardown:
            return steps, stuck
        for t in stuck:                       # tear down
            t.abort = True
            self.current = t
            t.sem.release()
            self.baton.acquire()
            self.current = None
        return steps, stuck


class SThread:
    def __init__(self, world, name, ops):
        self.w, self.name, self.ops = world, name, ops
        self.sem = _Sem()
        self.state = "new"
        self.want = None
        self.cv = None
        self.timed = False
        self.notified = False
        self.abort = False
        self.call = None
        self.calls = []
        self.thread = _real_threading.Thread(target=self._body, daemon=True)
        self.thread.start()

    def _body(self):
        self.sem.acquire()
        try:
            if not self.abort:
                self.state = "run"
                for op in self.ops:
                    obj, entry, fn = op
                    self.call = {"entry": entry, "obj": obj, "trace": [], "done": None}
                    self.calls.append(self.call)
                    try:
                        self.call["done"] = ("ret", fn())
                    except Abort:
                        raise
                    except BaseException as e:  # noqa
                        if self.abort:
                            raise Abort()
                        self.call["done"] = ("exc", type(e).__name__)
                    self.call = None
        except Abort:
            pass
        self.state = "done"
        self.w.baton.release()

    def yield_(self, state):
        self.state = state
        self.w.baton.release()
        self.sem.acquire()
        self.state = "run"
        if self.abort:
            raise Abort()

    def enabled(self):
        if self.state == "new":
            return True
        if self.state == "lock":
            return self.want.owner is None
        if self.state == "wait":
            return (self.notified or self.timed) and self.want.owner is None
        return False


class RecLock:
    """threading.RLock double"""

    def __init__(self, world):
        self.w = world
        self.owner = None
        self.depth = 0
        self.name = None
        self.obj = None

    def acquire(self, blocking=True, timeout=-1):
        t = self.w.current
        if t is None:                      # set-up code on the main thread
            self.depth += 1
            return True
        if self.owner is not t:
            t.want = self
            t.yield_("lock")               # scheduling point; resumed only when the lock is free
            assert self.owner is None
            self.owner = t
        self.depth += 1
        self.w.emit("acq", None, self)
        return True

    def release(self):
        t = self.w.current
        if t is None:
            self.depth -= 1
            return
        if t.abort:
            return                         # tear-down of a thread that was blocked for ever
        if self.owner is not t:
            raise RuntimeError("cannot release un-acquired lock")
        self.w.emit("rel", None, self)
        self.depth -= 1
        if self.depth == 0:
            self.owner = None

    __enter__ = acquire

    def __exit__(self, *a):
        self.release()


class RecCond:
    """threading.Condition double (FIFO notify like CPython)"""

    def __init__(self, world, lock=None):
        self.w = world
        self.lock = lock if lock is not None else RecLock(world)
        self.waiters = []
        self.name = None
        self.obj = None

    def __enter__(self):
        return self.lock.acquire()

    def __exit__(self, *a):
        self.lock.release()

    def acquire(self, *a):
        return self.lock.acquire()

    def release(self):
        self.lock.release()

    def wait(self, timeout=None):
        t = self.w.current
        if t is None:
            raise RuntimeError("set-up code would block in wait()")
        if self.lock.owner is not t:
            self.w.emit("waitB!", self.name, self)          # CPython: RuntimeError
            raise RuntimeError("cannot wait on un-acquired lock")
        self.w.emit("waitB", self.name, self)
        depth, self.lock.depth, self.lock.owner = self.lock.depth, 0, None
        t.cv, t.timed, t.notified, t.want = self, timeout is not None, False, self.lock
        self.waiters.append(t)
        try:
            t.yield_("wait")
        finally:
            if t in self.waiters:
                self.waiters.remove(t)
        self.lock.owner, self.lock.depth = t, depth
        self.w.emit("wake", None, self)
        return t.notified

    def notify(self, n=1):
        t = self.w.current
        if t is not None and self.lock.owner is not t:
            self.w.emit("ntf!", self.name, self)
            raise RuntimeError("cannot notify on un-acquired lock")
        self.w.emit("ntf", self.name, self)
        for x in [x for x in self.waiters if not x.notified][:n]:
            x.notified = True
            self.waiters.remove(x)

    def notify_all(self):
        t = self.w.current
        if t is not None and self.lock.owner is not t:
            self.w.emit("ntfAll!", self.name, self)
            raise RuntimeError("cannot notify on un-acquired lock")
        self.w.emit("ntfAll", self.name, self)
        for x in list(self.waiters):
            x.notified = True
        self.waiters[:] = []

    notifyAll = notify_all


def fake_threading(world):
    m = types.ModuleType("threading_double")
    m.RLock = lambda: RecLock(world)
    m.Lock = lambda: RecLock(world)
    m.Condition = lambda lock=None: RecCond(world, lock)
    m.current_thread = _real_threading.current_thread
    m.Thread = _real_threading.Thread
    m.Timer = _real_threading.Timer
    return m


# ---- recording containers
def _rec(self):
    w = self._w3_world
    o = w.owner.get(id(self))
    if o is not None and id(o[0]) in w.live:
        w.emit("wr", attr_name(o[0], o[1]), o[0])


def _mk(base, mutators):
    ns = {"_w3_world": None}
    for name in mutators:
        if hasattr(base, name):
            def f(self, *a, __name=name, **k):
                _rec(self)
                return getattr(base, __name)(self, *a, **k)
            ns[name] = f
    return type("Rec" + base.__name__, (base,), ns)


_MUT = ["append", "appendleft", "popleft", "pop", "clear", "extend", "extendleft", "rotate", "remove", "insert", "update",
        "setdefault", "sort", "reverse", "popitem", "__setitem__", "__delitem__", "__iadd__", "__imul__"]
RecDeque = _mk(collections.deque, _MUT)
RecList = _mk(list, _MUT)
RecDict = _mk(dict, _MUT)
RecDefaultDict = _mk(collections.defaultdict, _MUT)
_WRAP = {collections.deque: RecDeque, list: RecList, dict: RecDict, collections.defaultdict: RecDefaultDict}

SHORT = translate_mon.SHORT
QUALIFY = {}


def attr_name(obj, attr):
    c = type(obj).__name__
    return "%s.%s" % (SHORT[c], attr) if QUALIFY.get(c) else attr


def adopt(world, value, obj, attr):
    """make `value` (stored in obj.attr, possibly nested) report its mutations as writes of obj.attr"""
    cls = _WRAP.get(type(value))
    if cls is not None:
        if cls is RecDefaultDict:
            new = cls(value.default_factory, value)
        else:
            new = cls(value)
        new._w3_world = world
        world.owner[id(new)] = (obj, attr)
        world.keep.append(new)
        return new
    if isinstance(value, (RecCond, RecLock)):
        if value.name is None:
            value.name, value.obj = attr_name(obj, attr), obj
        return value
    if isinstance(value, world.helpers):
        if id(value) not in world.owner:
            world.owner[id(value)] = (obj, attr)
            world.keep.append(value)
            for k, v in list(vars(value).items()):
                nv = adopt(world, v, obj, attr)
                if nv is not v:
                    object.__setattr__(value, k, nv)
    return value


def install_hooks(world, classes, helpers):
    """class-level __setattr__ hooks (restored by the returned function)"""
    world.classes, world.helpers = tuple(classes), tuple(helpers)
    saved = []
    for c in classes:
        orig = c.__dict__.get("__setattr__")
        base = c.__setattr__

        def hook(self, name, value, __base=base):
            value = adopt(world, value, self, name)
            if not isinstance(value, (RecCond, RecLock)) and id(self) in world.live:
                world.emit("wr", attr_name(self, name), self)
            __base(self, name, value)
        c.__setattr__ = hook
        saved.append((c, "__setattr__", orig))
        if "__init__" in c.__dict__:
            oinit = c.__dict__["__init__"]

            def init(self, *a, __oinit=oinit, **k):
                __oinit(self, *a, **k)
                world.live.add(id(self))
                world.keep.append(self)
            c.__init__ = init
            saved.append((c, "__init__", oinit))
    for c in helpers:
        orig = c.__dict__.get("__setattr__")
        base = c.__setattr__

        def hook(self, name, value, __base=base):
            o = world.owner.get(id(self))
            if o is not None:
                value = adopt(world, value, o[0], o[1])
                if id(o[0]) in world.live:
                    world.emit("wr", attr_name(o[0], o[1]), o[0])
            __base(self, name, value)
        c.__setattr__ = hook
        saved.append((c, "__setattr__", orig))

    def restore():
        for c, what, orig in reversed(saved):
            if orig is None:
                delattr(c, what)
            else:
                setattr(c, what, orig)
    return restore


def adopt_object(world, obj):
    """after construction: wrap the containers / helper objects the constructor stored"""
    for k, v in list(vars(obj).items()):
        nv = adopt(world, v, obj, k)
        if nv is not v:
            object.__setattr__(obj, k, nv)


# ================================================================================================
# part 1b: is an observed event sequence a trace of the translated method?
# ================================================================================================
class Acceptor:
    """NFA simulation of `Runs` over the translator's IR; method labels of events are ignored, a predicted `write a`
    matches one or more consecutive observed writes of `a` (one Python statement can store twice)"""

    def __init__(self, res):
        self.res = res

    def accepts(self, entry, trace):
        self.tr = trace
        self.n = len(trace)
        self.memo = {}
        self.prefix = False
        self.deepest = 0
        nrm, ab = self.sim(("call", entry), 0, 0)
        return (self.n in nrm) or (self.n in ab), self.prefix

    def sim(self, t, i, depth):
        """-> (positions after normal completion, positions after an abort)"""
        if i == self.n:
            self.prefix = True
        self.deepest = max(self.deepest, i)
        key = (id(t), i)
        if key in self.memo:
            return self.memo[key]
        self.memo[key] = (frozenset(), frozenset())      # cut cycles (recursion without progress)
        r = self._sim(t, i, depth)
        self.memo[key] = r
        return r

    def ev(self, i):
        return self.tr[i][:2] if i < self.n else None

    def _sim(self, t, i, depth):
        k = t[0]
        E = frozenset()
        if k == "skip":
            return frozenset([i]), E
        if k == "exit":
            return E, frozenset([i])
        if k == "other":
            return E, E
        if k == "write":
            out = set()
            j = i
            while self.ev(j) == ("wr", t[2]):
                j += 1
                out.add(j)
                if j == self.n:
                    self.prefix = True
            return frozenset(out), E
        if k == "notify":
            return (frozenset([i + 1]) if self.ev(i) == ("ntf", t[2]) else E), E
        if k == "notifyAll":
            return (frozenset([i + 1]) if self.ev(i) == ("ntfAll", t[2]) else E), E
        if k == "wait":
            if self.ev(i) == ("waitB", t[2]):
                if i + 1 == self.n:
                    self.prefix = True
                if self.ev(i + 1) == ("wake", None):
                    if i + 2 == self.n:
                        self.prefix = True
                    return frozenset([i + 2]), E
            return E, E
        if k == "withLock":
            if self.ev(i) != ("acq", None):
                return E, E
            n1, a1 = self.sim(t[2], i + 1, depth)
            nrm = frozenset(j + 1 for j in n1 if self.ev(j) == ("rel", None))
            ab = frozenset(j + 1 for j in a1 if self.ev(j) == ("rel", None))
            if any(j + 1 == self.n for j in nrm | ab):
                self.prefix = True
            return nrm, ab
        if k == "seq":
            cur, ab = {i}, set()
            for x in t[1]:
                nxt = set()
                for j in cur:
                    n1, a1 = self.sim(x, j, depth)
                    nxt |= n1
                    ab |= a1
                cur = nxt
                if not cur:
                    break
            return frozenset(cur), frozenset(ab)
        if k == "branch":
            n1, a1 = self.sim(t[1], i, depth)
            n2, a2 = self.sim(t[2], i, depth)
            return n1 | n2, a1 | a2
        if k == "tryc":
            n1, a1 = self.sim(t[1], i, depth)
            nrm, ab = set(n1), set(a1)
            for j in a1:
                n2, a2 = self.sim(t[2], j, depth)
                nrm |= n2
                ab |= a2
            return frozenset(nrm), frozenset(ab)
        if k == "loop":
            seen, todo, ab = {i}, [i], set()
            while todo:
                j = todo.pop()
                n1, a1 = self.sim(t[1], j, depth)
                ab |= a1
                for x in n1:
                    if x not in seen:
                        seen.add(x)
                        todo.append(x)
            return frozenset(seen), frozenset(ab)
        if k in ("call", "reenter"):
            if depth > 12:
                return E, E
            return self.sim(self.res[t[1]], i, depth + 1)
        raise ValueError(k)


# ================================================================================================
# part 1c: worlds and random drivers
# ================================================================================================
def load_modules(repo):
    """fresh copies of nfc.llcp.tco / llc from `repo` (the doubles are patched into their namespaces)"""
    src = os.path.join(repo, "src")
    if src not in sys.path:
        sys.path.insert(0, src)
    import nfc.llcp
    import nfc.llcp.pdu as pdu
    import nfc.llcp.tco as tco
    import nfc.llcp.llc as llc
    return nfc.llcp, pdu, tco, llc


def tco_world(rng, mods, kind):
    llcp, pdu, tco, llc = mods
    w = World(rng)
    tco.threading = fake_threading(w)
    QUALIFY.clear()
    T = tco.TransmissionControlObject
    restore = install_hooks(w, [T], [T.State, T.Mode])
    if kind == "dlc":
        s = tco.DataLinkConnection(128, rng.choice([1, 2, 3]))
        s.addr, s.peer, s.send_miu, s.send_win = 32, 33, 128, rng.choice([1, 2])
        s.state.ESTABLISHED = True
    elif kind == "listen":
        s = tco.DataLinkConnection(128, 1)
        s.addr = 16
        s.listen(rng.choice([0, 1, 2]))
    elif kind == "closed":
        s = tco.DataLinkConnection(128, 1)
        s.addr = 32
    elif kind == "raw":
        s = tco.RawAccessPoint(128)
        s.addr = 20
    else:
        s = tco.LogicalDataLink(128)
        s.addr, s.peer = 21, rng.choice([None, 22])
    adopt_object(w, s)
    return w, s, restore


def tco_ops(rng, mods, kind, s, n):
    """n random API calls on socket `s` as (object, entry key, thunk)"""
    llcp, pdu, tco, llc = mods
    C = type(s).__name__
    DW = llcp.MSG_DONTWAIT
    ops = []

    def add(name, *a, **k):
        ops.append((s, name, lambda: getattr(s, name)(*a, **k)))
    for _ in range(n):
        to = rng.choice([None, 0.1])
        if kind in ("dlc", "listen", "closed"):
            r = rng.random()
            pdus = [pdu.Information(32, 33, ns=rng.choice([s.recv_cnt, s.recv_cnt, (s.recv_cnt + 1) % 16]),
                                    nr=rng.choice([s.send_ack, s.send_cnt, (s.send_ack + 1) % 16]), data=b"abc"),
                    pdu.ReceiveReady(32, 33, nr=rng.choice([s.send_cnt, (s.send_ack + 1) % 16])),
                    pdu.ReceiveNotReady(32, 33, nr=s.send_cnt), pdu.Disconnect(32, 33),
                    pdu.DisconnectedMode(32, 33, reason=rng.choice([0, 1])), pdu.ConnectionComplete(32, 33, 128, 2),
                    pdu.Connect(16, 40, 128, 1), pdu.FrameReject(32, 33, 1, 12), pdu.UnnumberedInformation(32, 33, b"x")]
            if r < 0.16:
                add("send", b"m" * rng.choice([1, 3, 200]), rng.choice([0, 0, DW]))
            elif r < 0.30:
                add("recv")
            elif r < 0.42:
                add("poll", rng.choice(["recv", "send", "acks", "bogus"]), to)
            elif r < 0.50:
                add("close")
            elif r < 0.72:
                add("enqueue", rng.choice(pdus))
            elif r < 0.86:
                add("dequeue", rng.choice([128, 2]), rng.choice([0, 4]))
            elif r < 0.90:
                add("sendack")
            elif r < 0.93:
                add("setsockopt", rng.choice([llcp.SO_RCVBSY, llcp.SO_RCVBUF, llcp.SO_RCVMIU, llcp.SO_SNDBUF, 99]),
                    rng.choice([0, 1, 2]))
            elif r < 0.95:
                add("getsockopt", rng.choice([llcp.SO_RCVBUF, llcp.SO_SNDBSY, llcp.SO_RCVBSY, llcp.SO_SNDMIU]))
            elif r < 0.97:
                add("accept") if kind == "listen" else add("connect", rng.choice([33, b"urn:nfc:sn:x", "urn:nfc:sn:y"]))
            elif r < 0.985:
                add("listen", 1)
            else:
                add("bind", rng.choice([32, None]))
        elif kind == "raw":
            r = rng.random()
            if r < 0.25:
                add("send", pdu.UnnumberedInformation(1, 20, b"x"), rng.choice([0, DW]))
            elif r < 0.45:
                add("recv")
            elif r < 0.6:
                add("poll", rng.choice(["recv", "send", "bogus"]), to)
            elif r < 0.75:
                add("enqueue", pdu.UnnumberedInformation(20, 1, b"y"))
            elif r < 0.9:
                add("dequeue", 128, 0)
            elif r < 0.95:
                add("close")
            else:
                add("setsockopt", rng.choice([llcp.SO_RCVBUF, 99]), 2)
        else:
            r = rng.random()
            if r < 0.22:
                add("sendto", b"m" * rng.choice([1, 200]), rng.choice([22, 23]), rng.choice([0, DW]))
            elif r < 0.42:
                add("recvfrom")
            elif r < 0.55:
                add("poll", rng.choice(["recv", "send"]), to)
            elif r < 0.72:
                add("enqueue", rng.choice([pdu.UnnumberedInformation(21, 22, b"y"), pdu.Symmetry()]))
            elif r < 0.86:
                add("dequeue", rng.choice([128, 0]), 0)
            elif r < 0.92:
                add("close")
            elif r < 0.96:
                add("connect", 22)
            else:
                add("getsockopt", llcp.SO_RCVBUF)
    return ops


def entry_key(prog, obj, name):
    p, res = prog
    return p.find_method(type(obj).__name__, name)


def llc_world(rng, mods):
    llcp, pdu, tco, llc = mods
    w = World(rng)
    th = fake_threading(w)
    tco.threading = th
    llc.threading = th
    QUALIFY.clear()
    for c in ("ServiceAccessPoint", "ServiceDiscovery", "LogicalLinkController"):
        QUALIFY[c] = True
    L = llc.LogicalLinkController
    restore = install_hooks(w, [L, llc.ServiceAccessPoint, llc.ServiceDiscovery], [L.LinkState, L.Counter])
    llc.random.seed(rng.random())
    c = L(miu=128)
    c.cfg.update({"send-miu": 128, "recv-lto": 100, "send-lto": 100, "send-lsc": 3, "recv-lsc": 3, "send-wks": 0x13,
                  "recv-wks": 0x13, "llcp-dpu": 0, "llcp-dpc": 0})
    c.mac = None
    adopt_object(w, c)
    for x in c.sap:
        if x is not None:
            adopt_object(w, x)
    return w, c, restore


def llc_ops(rng, mods, c, n, socks):
    llcp, pdu, tco, llc = mods
    ops = []

    def add(name, fn):
        ops.append((c, name, fn))
    names = [b"urn:nfc:sn:a", b"urn:nfc:sn:b", "urn:nfc:sn:c"]
    for _ in range(n):
        r = rng.random()
        s = rng.choice(socks)
        if r < 0.14:
            nm = rng.choice(names)
            add("resolve", lambda nm=nm: c.resolve(nm))
        elif r < 0.30:
            add("collect", lambda: c.collect())
        elif r < 0.46:
            def disp():
                sd = c.sap[1]
                sent = list(getattr(sd, "sent", {}).items()) if sd is not None else []
                choices = [pdu.ServiceNameLookup(1, 1, sdreq=[(7, b"urn:nfc:sn:sdp")]),
                           pdu.Connect(rng.choice([1, 16, 32]), 40, 128, 1, sn=rng.choice([None, b"urn:nfc:sn:svc"])),
                           pdu.UnnumberedInformation(32, 33, b"u"), pdu.Symmetry(),
                           pdu.AggregatedFrame(0, 0, [pdu.UnnumberedInformation(33, 32, b"v"), pdu.Symmetry()])]
                if sent:
                    tid, nm = rng.choice(sent)
                    choices += 3 * [pdu.ServiceNameLookup(1, 1, sdres=[(tid, rng.choice([0, 17, 0x41]))])]
                c.dispatch(rng.choice(choices))
            add("dispatch", disp)
        elif r < 0.52:
            add("terminate", lambda: c.terminate("selftest"))
        elif r < 0.60:
            a = rng.choice([None, 33, 20, b"urn:nfc:sn:svc", "urn:nfc:sn:snep"])
            add("bind", lambda s=s, a=a: c.bind(s, a))
        elif r < 0.66:
            add("close", lambda s=s: c.close(s))
        elif r < 0.72:
            add("sendto", lambda s=s: c.sendto(s, b"data", 33, llcp.MSG_DONTWAIT))
        elif r < 0.76:
            add("poll", lambda s=s: c.poll(s, "recv", 0.1))
        elif r < 0.80:
            add("listen", lambda s=s: c.listen(s, 1))
        elif r < 0.84:
            add("getsockopt", lambda s=s: c.getsockopt(s, llcp.SO_RCVBUF))
        elif r < 0.88:
            add("setsockopt", lambda s=s: c.setsockopt(s, llcp.SO_RCVMIU, 64))
        elif r < 0.92:
            add("getsockname", lambda s=s: c.getsockname(s))
        elif r < 0.96:
            add("recvfrom", lambda s=s: c.recvfrom(s))
        else:
            add("socket", lambda: c.socket(rng.choice([0, 1, 2])))
    return ops


def project(trace, keep_obj, lock):
    """events of `trace` that belong to the program under validation"""
    out = []
    for kind, detail, oid in trace:
        if kind in ("acq", "rel"):
            if oid == id(lock):
                out.append((kind, None))
        elif kind == "wake":
            if oid in keep_obj["cv"]:
                out.append((kind, None))
        elif kind in ("waitB", "ntf", "ntfAll", "waitB!", "ntf!", "ntfAll!"):
            if oid in keep_obj["cv"]:
                out.append((kind, detail))
        elif kind == "wr":
            if oid in keep_obj["obj"]:
                out.append((kind, detail))
    return out


def validate(repo, runs, seed, verbose=False):
    progs, _, _ = translate_mon.translate(repo)
    mods = load_modules(repo)
    llcp, pdu, tco, llc = mods
    stats = collections.Counter()
    kinds_seen = collections.Counter()
    contradictions = []
    covered = set()
    real_threading = tco.threading
    t0 = time.time()
    try:
        for run in range(runs):
            rng = random.Random(seed * 100003 + run)
            which = rng.choice(["dlc", "dlc", "dlc", "listen", "closed", "raw", "ldl", "llc", "llc"])
            if which == "llc":
                prog = progs["Llc"]
                w, c, restore = llc_world(rng, mods)
                socks = [c.socket(k) for k in (0, 1, 2, 2)]
                try:
                    c.bind(socks[1], 33)
                    c.bind(socks[2], b"urn:nfc:sn:svc")
                    c.listen(socks[2], 1)
                except Exception:
                    pass
                for x in c.sap:
                    if x is not None:
                        adopt_object(w, x)
                nthreads = rng.choice([2, 3])
                for i in range(nthreads):
                    w.spawn("t%d" % i, llc_ops(rng, mods, c, rng.choice([2, 3, 4]), socks))
                lock = c.lock

                def keep():
                    objs = {id(c)} | {id(x) for x in w.keep} | {id(x) for x in gc_instances(w, llc)}
                    cvs = {id(v) for o in gc_instances(w, llc) for v in vars(o).values() if isinstance(v, RecCond)}
                    return {"obj": objs, "cv": cvs}
            else:
                prog = progs["Tco"]
                w, s, restore = tco_world(rng, mods, which)
                nthreads = rng.choice([2, 3])
                for i in range(nthreads):
                    w.spawn("t%d" % i, tco_ops(rng, mods, which, s, rng.choice([2, 3, 4, 5])))
                lock = s.lock

                def keep(s=s):
                    return {"obj": {id(s)}, "cv": {id(v) for v in vars(s).values() if isinstance(v, RecCond)}}
            w.recording = True
            try:
                steps, stuck = w.run()
            finally:
                w.recording = False
                restore()
            k = keep()
            acc = Acceptor(prog[1])
            stats["runs"] += 1
            stats["runs_" + ("llc" if which == "llc" else "tco")] += 1
            if stuck:
                stats["runs_with_blocked_threads"] += 1
            for t in w.threads:
                for call in t.calls:
                    entry = entry_key(prog, call["obj"], call["entry"])
                    tr = project(call["trace"], k, lock)
                    stats["calls"] += 1
                    stats["events"] += len(tr)
                    for e in tr:
                        kinds_seen[e[0]] += 1
                    if entry is None:
                        contradictions.append((run, which, call["entry"], "no translated method", tr))
                        continue
                    bad = [e for e in tr if e[0].endswith("!")]
                    ok, prefix = acc.accepts(entry, tr)
                    if call["done"] is None:
                        stats["calls_unfinished"] += 1
                        ok = prefix
                    elif not ok and prefix and call["done"][0] == "exc" and call["done"][1] not in ("Error", "ConnectRefused"):
                        # an exception of the interpreter (TypeError, AttributeError ...) at a point where the translation
                        # has no `exit`: outside the model by the stated assumption, counted separately
                        stats["calls_aborted_at_unmodelled_point"] += 1
                        stats["unmodelled:%s.%s:%s" % (entry[0][:3], entry[1], call["done"][1])] += 1
                        ok = True
                    if bad or not ok:
                        contradictions.append((run, which, "%s.%s" % entry, call["done"], tr, acc.deepest))
                    else:
                        stats["calls_accepted"] += 1
                        for e in tr:
                            if e[0] in ("waitB", "ntf", "ntfAll", "wr"):
                                covered.add(e)
                        # negative control: a perturbed trace of a finished call must be rejected
                        if call["done"] is not None and len(tr) >= 2 and stats["neg_controls"] < 3000:
                            j = rng.randrange(len(tr))
                            how = rng.choice(["drop", "rename", "dup"])
                            if how == "drop":
                                bad_tr = tr[:j] + tr[j + 1:]
                            elif how == "rename":
                                bad_tr = tr[:j] + [(tr[j][0], "no_such_name")] + tr[j + 1:]
                            else:
                                bad_tr = tr[:j] + [tr[j]] + tr[j:]
                            if how == "dup" and tr[j][0] == "wr":
                                pass            # a repeated write is accepted by design
                            else:
                                stats["neg_controls"] += 1
                                ok2, _ = acc.accepts(entry, bad_tr)
                                if not ok2:
                                    stats["neg_rejected"] += 1
    finally:
        tco.threading = real_threading
        llc.threading = real_threading
    stats["seconds"] = round(time.time() - t0, 1)
    # which predicted condition operations were exercised at all
    pred = set()
    for p, res in progs.values():
        for t in res.values():
            for x in translate_mon.walk(t):
                if x[0] == "wait":
                    pred.add(("waitB", x[2]))
                elif x[0] == "notify":
                    pred.add(("ntf", x[2]))
                elif x[0] == "notifyAll":
                    pred.add(("ntfAll", x[2]))
                elif x[0] == "write":
                    pred.add(("wr", x[2]))
    stats["predicted_kinds_covered"] = "%d of %d" % (len(pred & covered), len(pred))
    stats["not_covered"] = sorted(pred - covered)
    return stats, kinds_seen, contradictions


def gc_instances(w, llc):
    """the controller-side objects alive in this world (owners registered by the hooks)"""
    out = {}
    for o, _ in w.owner.values():
        out[id(o)] = o
    return list(out.values())


# ================================================================================================
# part 3: what the exemptions hide - interleavings on the REAL code (deterministic, scripted schedules)
# ================================================================================================
def witness(repo):
    """three scripted schedules on a real DataLinkConnection; returns a list of (title, lines, holds)"""
    mods = load_modules(repo)
    llcp, pdu, tco, llc = mods
    real = tco.threading
    out = []

    def world(recv_win=1, send_win=2):
        w = World(random.Random(0))
        tco.threading = fake_threading(w)
        QUALIFY.clear()
        T = tco.TransmissionControlObject
        restore = install_hooks(w, [T], [T.State, T.Mode])
        s = tco.DataLinkConnection(128, recv_win)
        s.addr, s.peer, s.send_miu, s.send_win = 32, 33, 128, send_win
        s.state.ESTABLISHED = True
        adopt_object(w, s)
        return w, s, restore

    def where(w, s):
        return ", ".join("%s: %s" % (t.name, "returned %r" % (t.calls[-1]["done"][1],) if t.state == "done" else
                                     ("blocked in %s.wait()" % t.cv.name if t.state == "wait" else t.state))
                         for t in w.threads)
    try:
        # ---- A: `if`/except-guarded single-shot wait in recv(): a second receiver steals the PDU
        w, s, restore = world()
        try:
            w.spawn("A", [(s, "recv", lambda: s.recv())])
            w.spawn("link", [(s, "enqueue", lambda: s.enqueue(pdu.Information(32, 33, ns=0, nr=0, data=b"hello")))])
            w.spawn("B", [(s, "recv", lambda: s.recv())])
            w.recording = True
            w.run(script=["A", "link", "B", "A"], teardown=False)
            a, b = w.threads[0].calls[0]["done"], w.threads[2].calls[0]["done"]
            holds = a == ("ret", None) and b == ("ret", b"hello") and bool(s.state.ESTABLISHED)
            out.append(("recv() is woken once and does not re-check: a wake-up that finds the queue empty reports "
                        "'connection closed' on a live connection",
                        ["DataLinkConnection ESTABLISHED, recv_queue empty",
                         "A: recv() -> TransmissionControlObject.recv: popleft raises IndexError -> recv_ready.wait()  [blocked]",
                         "link: enqueue(I PDU 'hello') -> recv_queue.append, recv_ready.notify()  [A notified, not yet running]",
                         "B: recv() takes the lock first -> popleft -> returns %r" % (b[1],),
                         "A: re-acquires the lock -> popleft raises IndexError -> DataLinkConnection.recv returns %r "
                         "although state is %s" % (a[1], s.state),
                         "final: " + where(w, s)], holds))
        finally:
            w.recording = False
            w.run(max_steps=0)
            restore()
        # ---- B: plain notify() with two waiters on recv_ready (a poller and a receiver)
        w, s, restore = world()
        try:
            w.spawn("P", [(s, "poll", lambda: s.poll("recv", None))])
            w.spawn("R", [(s, "recv", lambda: s.recv())])
            w.spawn("link", [(s, "enqueue", lambda: s.enqueue(pdu.Information(32, 33, ns=0, nr=0, data=b"hello")))])
            w.recording = True
            steps, stuck = w.run(script=["P", "R", "link", "P"], teardown=False)
            en = [t.name for t in w.threads if t.enabled()]
            r = w.threads[1]
            holds = r.state == "wait" and not r.notified and len(s.recv_queue) == 1 and s.lock.owner is None and not en
            out.append(("plain notify() in enqueue() with two threads waiting on recv_ready: the receiver stays blocked "
                        "although a message is queued (lost wake-up)",
                        ["DataLinkConnection ESTABLISHED, RW(local)=1, recv_queue empty",
                         "P: poll('recv', timeout=None) -> recv_ready.wait()  [blocked, first waiter]",
                         "R: recv() -> recv_ready.wait()  [blocked, second waiter]",
                         "link: enqueue(I PDU 'hello') -> recv_queue.append, recv_ready.notify()  [wakes ONE: P]",
                         "P: returns %r" % (w.threads[0].calls[0]["done"][1],),
                         "now: lock free, len(recv_queue) = %d, R still in recv_ready.wait(), not notified; enabled threads: %s"
                         % (len(s.recv_queue), en or "none"),
                         "the window (RW=1) is full, so the peer cannot send another I PDU: nothing will ever notify R",
                         "final: " + where(w, s)], holds))
        finally:
            w.recording = False
            w.run(max_steps=0)
            restore()
        # ---- C: plain notify() on send_token with two senders blocked on a closed window
        w, s, restore = world(send_win=2)
        try:
            s.send_cnt, s.send_ack = 2, 0          # two I PDUs outstanding: window closed
            w.spawn("S1", [(s, "send", lambda: s.send(b"one", 0))])
            w.spawn("S2", [(s, "send", lambda: s.send(b"two", 0))])
            w.spawn("link", [(s, "enqueue", lambda: s.enqueue(pdu.ReceiveReady(32, 33, nr=2)))])
            w.recording = True
            w.run(script=["S1", "S2", "link", "S1"], teardown=False)
            s2 = w.threads[1]
            en = [t.name for t in w.threads if t.enabled()]
            holds = s2.state == "wait" and not s2.notified and s.send_window_slots == 1 and s.lock.owner is None and not en
            out.append(("plain notify() on send_token with two senders: an acknowledgement that opens two window slots "
                        "wakes one sender, the other stays blocked with the window open",
                        ["DataLinkConnection ESTABLISHED, RW(remote)=2, V(S)=2, V(SA)=0 (window closed)",
                         "S1: send('one') -> while send_window_slots == 0: send_token.wait()  [blocked]",
                         "S2: send('two') -> send_token.wait()  [blocked]",
                         "link: enqueue(RR N(R)=2) -> acks_recvd += 2, acks_ready.notify_all(), send_token.notify(), V(SA) := 2",
                         "S1: wakes, window has 2 slots, queues its I PDU (V(S)=3) and waits for the dequeue",
                         "now: lock free, send_window_slots = %d, S2 still in send_token.wait(), not notified; enabled threads: %s"
                         % (s.send_window_slots, en or "none"),
                         "S2 is released only by the NEXT acknowledgement (or close)",
                         "final: " + where(w, s)], holds))
        finally:
            w.recording = False
            w.run(max_steps=0)
            restore()
    finally:
        tco.threading = real
    return out


# ================================================================================================
# part 2: mutations
# ================================================================================================
def private_workspace():
    ws = os.path.join(WORK, "lean")
    for sub in ("Model", "Lemmas", "Props", "Gen"):
        os.makedirs(os.path.join(ws, "NfcVerif", sub), exist_ok=True)
    with open(os.path.join(ws, "lakefile.toml"), "w") as f:
        f.write('name = "NfcVerif"\nversion = "0.1.0"\ndefaultTargets = ["NfcVerif"]\n\n[[lean_lib]]\nname = "NfcVerif"\n'
                'globs = ["NfcVerif.+"]\n')
    shutil.copy(os.path.join(monitor.LEAN, "lean-toolchain"), os.path.join(ws, "lean-toolchain"))
    for sub in ("Model", "Lemmas", "Props"):
        src = os.path.join(monitor.LEAN, "NfcVerif", sub, "Monitor.lean")
        dst = os.path.join(ws, "NfcVerif", sub, "Monitor.lean")
        if not os.path.exists(dst) or open(src).read() != open(dst).read():
            shutil.copy(src, dst)
    return ws


def lean_check(ws, repo):
    """translate `repo` into the private workspace, compile Props/Monitor.lean; returns (rc, broken theorem names)"""
    translate_mon.emit(repo, os.path.join(ws, "NfcVerif", "Gen", "Monitor.lean"))
    p = subprocess.run(["lake", "build", "NfcVerif.Lemmas.Monitor", "NfcVerif.Gen.Monitor"], cwd=ws, stdout=subprocess.PIPE,
                       stderr=subprocess.STDOUT, text=True, timeout=1800)
    if p.returncode != 0:
        return p.returncode, ["Gen/Monitor.lean does not compile: " + p.stdout[-300:]]
    props = os.path.join(ws, "NfcVerif", "Props", "Monitor.lean")
    p = subprocess.run(["lake", "env", "lean", props], cwd=ws, stdout=subprocess.PIPE, stderr=subprocess.STDOUT,
                       text=True, timeout=1800)
    lines = open(props).read().split("\n")
    broken = []
    for m in re.finditer(r"Monitor\.lean:(\d+):\d+: error", p.stdout):
        ln = int(m.group(1))
        name = "?"
        for i in range(ln - 1, -1, -1):
            mm = re.match(r"\s*(?:theorem|def)\s+(\w+)", lines[i])
            if mm:
                name = mm.group(1)
                break
        if name not in broken:
            broken.append(name)
    return p.returncode, broken


def sub_once(text, old, new, count=1):
    assert text.count(old) >= 1, "mutation anchor not found: %r" % old
    return text.replace(old, new, count)


TCO = "src/nfc/llcp/tco.py"
LLC = "src/nfc/llcp/llc.py"
MUTATIONS = [
    # (name, file, old, new, what it is, theorem expected to break)
    ("dlc-send-while-to-if", TCO, "while self.send_window_slots == 0 and self.state.ESTABLISHED:",
     "if self.send_window_slots == 0 and self.state.ESTABLISHED:", "`if` instead of `while` around the window wait",
     "dlc_discipline_ok"),
    ("resolve-while-to-if", LLC, "while self.snl is not None and name not in self.snl:",
     "if self.snl is not None and name not in self.snl:", "`if` instead of `while` in resolve()", "llc_discipline_ok"),
    ("dlc-close-notify-token", TCO, "            self.acks_ready.notify_all()\n            self.send_token.notify_all()\n\n    #",
     "            self.acks_ready.notify_all()\n            self.send_token.notify()\n\n    #",
     "notify() instead of notify_all() on send_token in close()", "dlc_discipline_ok"),
    ("tco-close-drop-recv-notify", TCO, "            self.send_ready.notify_all()\n            self.recv_ready.notify_all()\n",
     "            self.send_ready.notify_all()\n", "recv_ready.notify_all() removed from close()", "raw_discipline_ok"),
    ("tco-close-drop-send-notify", TCO, "            self.send_ready.notify_all()\n            self.recv_ready.notify_all()\n",
     "            self.recv_ready.notify_all()\n", "send_ready.notify_all() removed from close()", "raw_discipline_ok"),
    ("dlc-close-drop-token-notify", TCO,
     "            super(DataLinkConnection, self).close()\n            self.acks_ready.notify_all()\n            self.send_token.notify_all()\n",
     "            super(DataLinkConnection, self).close()\n            self.acks_ready.notify_all()\n",
     "send_token.notify_all() removed from the end of DataLinkConnection.close()", "dlc_discipline_ok"),
    ("sd-shutdown-drop-notify", LLC, "            self.snl = None\n            self.resp.notify_all()\n",
     "            self.snl = None\n", "resp.notify_all() removed from ServiceDiscovery.shutdown()", "llc_discipline_ok"),
    ("sd-shutdown-notify-one", LLC, "            self.snl = None\n            self.resp.notify_all()\n",
     "            self.snl = None\n            self.resp.notify()\n", "notify() instead of notify_all() in shutdown()",
     "llc_discipline_ok"),
    ("sd-enqueue-drop-notify", LLC, "                    self.tids.append(tid)\n                    self.resp.notify_all()\n",
     "                    self.tids.append(tid)\n", "resp.notify_all() removed after a name was resolved", "llc_discipline_ok"),
    ("sd-shutdown-write-outside", LLC, "        with self.llc.lock:\n            self.snl = None\n            self.resp.notify_all()\n",
     "        self.snl = None\n        with self.llc.lock:\n            self.resp.notify_all()\n",
     "the write of snl moved out of the `with`", "llc_discipline_ok"),
    ("dlc-acks-write-outside", TCO, "            with self.lock:\n                # acks = N(R) - V(SA) mod 16\n                acks = (rcvd_pdu.nr - self.send_ack) % 16\n",
     "            self.send_ack = self.send_ack\n            with self.lock:\n                # acks = N(R) - V(SA) mod 16\n                acks = (rcvd_pdu.nr - self.send_ack) % 16\n",
     "a write of send_ack added outside the lock", "dlc_discipline_ok"),
    ("dlc-send-guard-reads-more", TCO, "while self.send_window_slots == 0 and self.state.ESTABLISHED:",
     "while self.send_window_slots == 0 and self.state.ESTABLISHED and not self.recv_confs:",
     "a new attribute (recv_confs) read by the window guard, nobody notifies send_token for it", "dlc_discipline_ok"),
    ("resolve-guard-reads-more", LLC, "while self.snl is not None and name not in self.snl:",
     "while self.snl is not None and name not in self.snl and len(self.sdres) < 99:",
     "a new attribute (sdres) read by the resolve guard without notifications", "llc_discipline_ok"),
    ("dlc-send-wait-other-cv", TCO, "                self.send_token.wait()", "                self.acks_ready.wait()",
     "the window wait waits on another condition", "tco_wait_sites"),
    ("resolve-wait-unlocked", LLC, "        with self.resp:\n            if self.snl is None:\n                return None\n",
     "        if True:\n            if self.snl is None:\n                return None\n", "resolve() waits without taking the lock",
     "llc_discipline_ok"),
    ("dlc-enqueue-drop-acks-notify", TCO, "                    self.acks_ready.notify_all()\n                    self.send_token.notify()\n",
     "                    self.send_token.notify()\n", "acks_ready.notify_all() removed from the acknowledgement handling",
     "dlc_discipline_ok"),
    ("dlc-enqueue-drop-token-notify", TCO, "                    self.acks_ready.notify_all()\n                    self.send_token.notify()\n",
     "                    self.acks_ready.notify_all()\n", "send_token.notify() removed from the acknowledgement handling",
     "dlc_discipline_ok"),
    ("tco-enqueue-drop-notify", TCO, "                self.recv_queue.append(rcvd_pdu)\n                self.recv_ready.notify()\n                return True",
     "                self.recv_queue.append(rcvd_pdu)\n                return True", "recv_ready.notify() removed from enqueue()",
     "raw_discipline_ok"),
    ("poll-recv-wait-no-test", TCO, "                if len(self.recv_queue) == 0:\n                    self.recv_ready.wait(timeout)\n",
     "                self.recv_ready.wait(timeout)\n", "poll('recv') waits without looking at the queue", "raw_discipline_ok"),
    ("condition-on-own-lock", TCO, "        self.send_token = threading.Condition(self.lock)", "        self.send_token = threading.Condition()",
     "send_token built on a private lock", "tco_facts"),
    ("lock-not-reentrant", TCO, "        self.lock = threading.RLock()", "        self.lock = threading.Lock()",
     "plain Lock instead of RLock (nested `with` dead-locks)", "dlc_discipline_ok"),
    ("manual-release", TCO, "    def sendack(self):\n        if self.state.ESTABLISHED:\n            with self.lock:\n",
     "    def sendack(self):\n        if self.state.ESTABLISHED:\n            self.lock.acquire()\n            if True:\n",
     "lock taken by hand", "dlc_discipline_ok"),
    ("condition-aliased", TCO, "                self.send_token.wait()", "                cv = self.send_token\n                cv.wait()",
     "the condition is reached through a local alias (the translator refuses)", "dlc_discipline_ok"),
    ("harmless-log-line", TCO, "            self.log(\"close()\")", "            self.log(\"close() called\")",
     "CONTROL: a change that must NOT break anything", "-"),
]


def mutate(no_lean=False, only=None):
    ws = private_workspace()
    root = os.path.join(WORK, "mut")
    rows = []
    # baseline
    if not no_lean:
        rc, broken = lean_check(ws, REPO)
        print("baseline: lean rc=%d broken=%s" % (rc, broken))
        if rc != 0:
            return [("baseline", "-", "-", [], broken, False)]
    tables = monitor.parse_tables()
    for name, rel, old, new, what, expect in MUTATIONS:
        if only and name not in only:
            continue
        shutil.rmtree(root, ignore_errors=True)
        os.makedirs(os.path.join(root, "src", "nfc", "llcp"))
        for f in ("tco.py", "llc.py"):
            shutil.copy(os.path.join(REPO, "src", "nfc", "llcp", f), os.path.join(root, "src", "nfc", "llcp", f))
        path = os.path.join(root, rel)
        text = open(path, encoding="latin-1").read()
        open(path, "w", encoding="latin-1").write(sub_once(text, old, new))
        diag = monitor.diagnose(root, tables=tables)
        broken = None
        if not no_lean:
            rc, broken = lean_check(ws, root)
        caught = bool(broken) if broken is not None else bool(diag)
        ok = (caught and (broken is None or expect in broken)) if expect != "-" else not caught
        rows.append((name, what, expect, sorted({d[2][:90] for d in diag})[:2], broken, ok))
        print("%-30s %-5s expected %-20s lean-broken=%s" % (name, "ok" if ok else "MISS", expect, broken))
        sys.stdout.flush()
    shutil.rmtree(root, ignore_errors=True)
    return rows


def main():
    args = sys.argv[1:]
    runs = int(args[args.index("--runs") + 1]) if "--runs" in args else 400
    seed = int(args[args.index("--seed") + 1]) if "--seed" in args else 1
    only = args[args.index("--only") + 1] if "--only" in args else None
    rc = 0
    if only in (None, "validate"):
        stats, kinds, contra = validate(REPO, runs, seed)
        print("validation against CPython: %s" % dict(stats))
        print("  observed event kinds: %s" % dict(kinds))
        print("  contradictions: %d" % len(contra))
        for c in contra[:10]:
            print("   ", c)
        if contra or kinds.get("waitB", 0) == 0 or kinds.get("ntf", 0) == 0 or kinds.get("ntfAll", 0) == 0:
            rc = 1
    if only in (None, "witness"):
        for title, lines, holds in witness(REPO):
            print("witness [%s]: %s" % ("reproduced" if holds else "NOT reproduced", title))
            for l in lines:
                print("    " + l)
    if only in (None, "mutate"):
        names = args[args.index("--names") + 1].split(",") if "--names" in args else None
        rows = mutate(no_lean="--no-lean" in args, only=names)
        print("| mutation | what | expected to break | theorems that break (Lean) | diagnosis (first reasons) |")
        print("|---|---|---|---|---|")
        for name, what, expect, diag, broken, ok in rows:
            print("| %s | %s | %s | %s | %s |" % (name, what, expect, ", ".join(broken) if broken is not None else "(not run)",
                                                "; ".join(diag) or "-"))
        missed = [r for r in rows if not r[5]]
        print("mutations: %d, as expected: %d, not as expected: %d" % (len(rows), len(rows) - len(missed), len(missed)))
        if missed:
            rc = 1
    return rc


if __name__ == "__main__":
    sys.exit(main())
