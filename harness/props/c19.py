"""C19 - peer-to-peer activation negotiates limits both sides then obey.

L1: theorems of NfcVerif.Props.C19 about the executable model Model/Activate.lean (option clamping,
    ATR_REQ/ATR_RES/PSL_REQ bytes, PAX TLVs in the general bytes, parameter take-over): for every
    option combination the parameters held by the two devices agree as the property says.
L2: two REAL stacks (ContactlessFrontend.connect()/_llcp_connect() or LogicalLinkController.activate()
    with real nfc.dep.Initiator/Target on both sides) are activated against each other over the
    in-memory air of sims/act_air.py; every parameter held by both stacks and the activation frames on
    the air are compared with the Lean model driver.  A second tie drives the real
    LogicalLinkController.activate() with a stub MAC over the LLC option grid and over mutated peer
    general bytes.
L3: oracle on the real code, independent of the model: the two cfg dictionaries / MAC objects agree
    as the property says; after activation maximal UI PDUs are exchanged and every NFC-DEP frame on the
    air is checked against the receiver's announced length reduction and the negotiated bit rate.
"""
import logging
import threading

from common import Model

logging.disable(logging.CRITICAL)

LEAN_TARGETS = ["NfcVerif.Props.C19", "drv_c19", "NfcVerif.Props.TablesDep"]
THEOREMS = [
    "NfcVerif.C19.negotiated_limits",
    "NfcVerif.C19.negotiated_llc",
    "NfcVerif.C19.negotiated_dep",
    "NfcVerif.C19.bitrate_selected",
    "NfcVerif.C19.found_technology",
    "NfcVerif.C19.pax_roundtrip",
    "NfcVerif.C19.gb_never_truncated",
    "NfcVerif.C19.atr_roundtrip",
    "NfcVerif.C19.clamp_range",
    "NfcVerif.C19.later_traffic_within",
    "NfcVerif.C19.llc_decode_documented",
    "NfcVerif.C19.miu_below_128_counterexample",
    "NfcVerif.C19.lto_granularity_counterexample",
    "NfcVerif.C19.did_zero_counterexample",
    "NfcVerif.C19.did_agreement_partial",
]

BRTY = ("106A", "212F", "424F")
LR = (64, 128, 192, 254)
DEFAULTS = dict(brs=2, lri=3, lrt=3, rwt=8, acm=True, miu=248, lto=500, lsc=3, agf=True, sec=True)
DEP_KEYS = ("brs", "lri", "lrt", "rwt", "acm")
LLC_KEYS = ("miu", "lto", "lsc", "agf", "sec")

MIU_VALID = [128, 129, 248, 1000, 2174, 2175]
MIU_INVALID = [0, 100, 127, 2176, 2303, 4224, 65663, 65664]
LTO_VALID = [0, 10, 100, 500, 1000, 2550]
LTO_INVALID = [5, 105, 2555, 2560, 99999, -10]
LSC_VALID = [0, 1, 2, 3]
LSC_INVALID = [4, 7, -1]


def clamp(lo, hi, v):
    return min(max(lo, v), hi)


class FakeOs(object):
    """replaces the `os` module as seen from nfc.dep: deterministic urandom per thread"""

    def __init__(self, main_bytes, worker_bytes):
        self.main, self.worker = bytearray(main_bytes), bytearray(worker_bytes)
        self.main_thread = threading.current_thread()

    def urandom(self, n):
        src = self.main if threading.current_thread() is self.main_thread else self.worker
        out = bytes(src[:n])
        del src[:n]
        if len(out) < n:
            out += bytes(n - len(out))
        return out


def opts_of(side):
    """the option dictionary a user would pass (omitted options are absent)"""
    return {k: v for k, v in side.items() if k in DEP_KEYS + LLC_KEYS and v is not None}


def full(side, sec_avail):
    """options with the documented defaults filled in (what the model gets)"""
    d = {k: (DEFAULTS[k] if side.get(k) is None else side[k]) for k in DEP_KEYS + LLC_KEYS}
    d["sec"] = bool(d["sec"]) and sec_avail
    d["saps"] = [1, 4] if side.get("snep") else [1]
    return d


def tok(v):
    if v is None:
        return "N"
    if v is True:
        return "1"
    if v is False:
        return "0"
    return str(v)


def side_tokens(side, sec_avail, did=None, nad=None):
    f = full(side, sec_avail)
    return [tok(f["brs"]), tok(f["lri"]), tok(f["lrt"]), tok(f["rwt"]), tok(bool(f["acm"])), tok(did), tok(nad),
            tok(f["miu"]), tok(f["lto"]), tok(f["lsc"]), tok(bool(f["agf"])), tok(f["sec"]),
            ",".join(str(s) for s in f["saps"])]


def llc_fields(llc):
    c = llc.cfg
    return "%d,%d,%s,%s,%d.%d,%d,%d,%d,%d,%d" % (
        c["recv-miu"], c["send-lto"], tok(bool(c["send-agf"])), tok(bool(c["llcp-sec"])), c["rcvd-ver"][0],
        c["rcvd-ver"][1], c["send-miu"], c["recv-lto"], c["send-wks"], c["send-lsc"], c["llcp-dpc"])


def wt_of(rwt):
    """index k with rwt == 4096/13.56E6 * 2**k, or -1"""
    for k in range(0, 16):
        if rwt == 4096 / 13.56E6 * 2 ** k or rwt == 4096 / 13.56E6 * pow(2, k):
            return k
    return -1


def unframe(brty, hexframe):
    f = bytes.fromhex(hexframe)
    if brty == "106A":
        f = f[1:]
    return f[1:]


class CaseRun(object):
    """one activation of two real stacks"""

    def __init__(self, case, exc_name):
        self.case, self.exc_name = case, exc_name
        self.i = self.t = None          # canonical strings
        self.llc_i = self.llc_t = None
        self.mac_i = self.mac_t = None
        self.traffic = {}
        self.notes = []


def run_case(case, exc_name, traffic):
    """-> CaseRun; raises act_air.Stall on a rendezvous stall"""
    import nfc
    import nfc.clf
    import nfc.dep
    import nfc.llcp
    import nfc.llcp.llc as llcmod
    import nfc.llcp.pdu as pdu
    from sims import act_air

    res = CaseRun(case, exc_name)
    tech = tuple(b for b, on in zip(BRTY, case["tech"]) if on == "1")
    pair = act_air.Pair(tech, case["active"])
    nfc.dep.os = FakeOs(bytes.fromhex(case["nfcid3"]), bytes.fromhex(case["rnd6"]) + b"\x11\x22\x33")
    saved_ssl = llcmod.sec.OpenSSL
    llcmod.sec.OpenSSL = object() if case["sec_avail"] else None
    rounds = 3

    def startup(side):
        def on_startup(llc):
            if side.get("snep"):
                s = nfc.llcp.Socket(llc, nfc.llcp.DATA_LINK_CONNECTION)
                s.bind("urn:nfc:sn:snep")
            return llc
        return on_startup

    def app(llc, addr, peer, initiator, out):
        s = nfc.llcp.Socket(llc, nfc.llcp.LOGICAL_DATA_LINK)
        s.bind(addr)
        n = llc.cfg["send-miu"]
        try:
            s.sendto(bytes(n + 1), peer, nfc.llcp.MSG_DONTWAIT)
            out["over"] = "accepted"
        except nfc.llcp.Error:
            out["over"] = "refused"
        s.sendto(bytes([addr]) * n, peer, nfc.llcp.MSG_DONTWAIT)
        out["sent"] = n
        got = []
        if initiator:
            for _ in range(rounds):
                send = llc.collect() or pdu.Symmetry()
                rcvd = llc.exchange(send, 1.0)
                if rcvd is None:
                    break
                llc.dispatch(rcvd)
        else:
            rcvd = llc.exchange(None, 1.0)
            while rcvd is not None:
                llc.dispatch(rcvd)
                send = llc.collect() or pdu.Symmetry()
                rcvd = llc.exchange(send, 1.0)
        while s.poll("recv", 0):
            d, a = s.recvfrom()
            got.append((len(d), a, bytes(d) == bytes([a]) * len(d)))
        out["got"] = got

    def first_symm(llc):
        # the Target's activation completes with the first DEP_REQ
        return llc.exchange(pdu.Symmetry(), 1.0)

    def ini(clf):
        side = case["I"]
        o = opts_of(side)
        try:
            if case["entry"] == "connect":
                o.update({"role": "initiator", "on-connect": lambda llc: False, "on-startup": startup(side)})
                calls = []

                def terminate():
                    calls.append(1)
                    return len(calls) > 1
                llc = clf.connect(llcp=o, terminate=terminate)
                mac = llc.mac if llc else None
            else:
                lo = {k: o.pop(k) for k in LLC_KEYS if k in o}
                llc = llcmod.LogicalLinkController(**lo)
                startup(side)(llc)
                mac = nfc.dep.Initiator(clf=clf)
                if case["given"] is not None:
                    b = BRTY[case["given"]]
                    tg = nfc.clf.RemoteTarget(b)
                    tg = clf.sense(tg)
                    if tg is None:
                        res.i = "none"
                        return
                    o["target"] = tg
                if case["did"] is not None:
                    o["did"] = case["did"]
                if case["nad"] is not None:
                    o["nad"] = case["nad"]
                ok = llc.activate(mac=mac, **o)
                if not ok:
                    llc = llc if mac.miu is not None else None
        except act_air.Stall:
            raise
        except Exception as e:  # noqa
            res.i = "exc:" + exc_name(e)
            return
        if not llc:
            res.i = "none"
            return
        res.llc_i, res.mac_i = llc, mac
        dep = "%d,%d,%d,%s,%s,%s,%d,%d" % (mac.miu, wt_of(mac.rwt), BRTY.index(mac.target.brty), tok(mac.did),
                                           tok(mac.nad), tok(mac.acm), mac.brs, mac.lri)
        if llc.mac is None:
            res.i = dep + ";nolink"
            return
        res.i = dep + ";" + llc_fields(llc)
        if traffic:
            app(llc, 32, 33, True, res.traffic.setdefault("i", {}))
        elif first_symm(llc) is None:
            res.notes.append("no answer to the first SYMM")

    def tgt(clf):
        side = case["T"]
        o = opts_of(side)
        try:
            if case["entry"] == "connect":
                o.update({"role": "target", "on-connect": lambda llc: False, "on-startup": startup(side)})
                llc = clf.connect(llcp=o, terminate=lambda: pair.stopped)
                mac = llc.mac if llc else None
            else:
                lo = {k: o.pop(k) for k in LLC_KEYS if k in o}
                llc = llcmod.LogicalLinkController(**lo)
                startup(side)(llc)
                mac = nfc.dep.Target(clf=clf)
                ok = llc.activate(mac=mac, **o)
                if not ok:
                    llc = llc if mac.miu is not None else None
        except act_air.Stall:
            raise
        except Exception as e:  # noqa
            res.t = "exc:" + exc_name(e)
            return
        if not llc:
            res.t = "none"
            return
        res.llc_t, res.mac_t = llc, mac
        dep = "%d,%d,%d,%s,%s,%d" % (mac.miu, wt_of(mac.rwt), BRTY.index(mac.target.brty), tok(mac.did), tok(mac.acm),
                                     mac.lrt)
        if llc.mac is None:
            res.t = dep + ";nolink"
            return
        res.t = dep + ";" + llc_fields(llc)
        out = res.traffic.setdefault("t", {})
        if traffic:
            app(llc, 33, 32, False, out)
        else:
            rcvd = llc.exchange(None, 1.0)
            while rcvd is not None:
                rcvd = llc.exchange(pdu.Symmetry(), 1.0)

    try:
        _, _, terr = pair.run(ini, tgt)
    finally:
        llcmod.sec.OpenSSL = saved_ssl
    if terr is not None and res.t is None:
        res.t = "exc:" + exc_name(terr)
    if res.i is None:
        res.i = "none"
    if res.t is None:
        res.t = "none"
    res.air = pair.air
    # activation frames: everything before the first DEP_REQ
    act = []
    res.first_dep = len(pair.air.wire)
    for k, (d, b, h) in enumerate(pair.air.wire):
        body = unframe(b, h)
        if body[:2] == b"\xd4\x06":
            res.first_dep = k
            break
        act.append("%d:%s" % (BRTY.index(b), body.hex()))
    res.w = ",".join(act) if act else "-"
    return res


def request_line(case):
    return " ".join(["act", case["tech"], tok(case["active"]), tok(case["given"])]
                    + side_tokens(case["I"], case["sec_avail"], case["did"], case["nad"])
                    + side_tokens(case["T"], case["sec_avail"])
                    + [case["nfcid3"], case["rnd6"]])


def llc_valid(f):
    return (128 <= f["miu"] <= 2175 and 0 <= f["lto"] <= 2550 and f["lto"] % 10 == 0 and 0 <= f["lsc"] <= 3)


def oracle(ck, case, r):
    """the property stated on the two real stacks (no model involved)"""
    fi, ft = full(case["I"], case["sec_avail"]), full(case["T"], case["sec_avail"])
    replay = {"case": case}
    tech_ok = (case["given"] is not None and case["tech"][case["given"]] == "1") or (
        case["given"] is None and ((clamp(0, 2, fi["brs"]) > 0 and case["tech"][1] == "1") or case["tech"][0] == "1"
                                   or (bool(fi["acm"]) and case["active"])))
    did_ok = case["did"] is None or 0 <= case["did"] <= 255
    nad_ok = case["nad"] is None or 0 <= case["nad"] <= 255
    enc_ok = fi["miu"] - 128 <= 65535 and ft["miu"] - 128 <= 65535
    if not (tech_ok and did_ok and nad_ok and enc_ok):
        return "unreachable"
    if r.llc_i is None or r.llc_t is None or r.llc_i.mac is None or r.llc_t.mac is None:
        ck.fail("activation-failed", "a reachable peer was not activated: I=%s T=%s" % (r.i, r.t), replay)
        return "failed"
    ci, ct, mi, mt = r.llc_i.cfg, r.llc_t.cfg, r.mac_i, r.mac_t

    def wks(llc):
        return 1 + sum(1 << s for s in set(llc.snl.values()) if s < 15)
    for (a, ca, la, fa, b, cb, lb, fb) in (("initiator", ci, r.llc_i, fi, "target", ct, r.llc_t, ft),
                                           ("target", ct, r.llc_t, ft, "initiator", ci, r.llc_i, fi)):
        if llc_valid(fb):
            if ca["send-miu"] != cb["recv-miu"] or cb["recv-miu"] != fb["miu"]:
                ck.fail("llc-miu-mismatch", "%s send-miu %s, %s announced recv-miu %s (option %s)"
                        % (a, ca["send-miu"], b, cb["recv-miu"], fb["miu"]), replay)
            if ca["recv-lto"] != cb["send-lto"] or cb["send-lto"] != fb["lto"]:
                ck.fail("llc-lto-mismatch", "%s recv-lto %s, %s send-lto %s" % (a, ca["recv-lto"], b, cb["send-lto"]), replay)
            if ca["send-lsc"] != fb["lsc"]:
                ck.fail("llc-lsc-mismatch", "%s holds peer lsc %s, %s option %s" % (a, ca["send-lsc"], b, fb["lsc"]), replay)
        if ca["send-wks"] != wks(lb):
            ck.fail("llc-wks-mismatch", "%s send-wks %s, %s services %s" % (a, ca["send-wks"], b, wks(lb)), replay)
        if ca["rcvd-ver"] != (1, 3):
            ck.fail("llc-version-mismatch", "%s rcvd-ver %s" % (a, ca["rcvd-ver"]), replay)
    both_sec = int(fi["sec"] and ft["sec"])
    if ci["llcp-dpc"] != both_sec or ct["llcp-dpc"] != both_sec:
        ck.fail("llc-dpc-mismatch", "dpc %s/%s with sec %s/%s" % (ci["llcp-dpc"], ct["llcp-dpc"], fi["sec"], ft["sec"]), replay)
    lri, lrt = clamp(0, 3, fi["lri"]), clamp(0, 3, ft["lrt"])
    want_i = LR[lrt] - 3 - int(case["did"] is not None) - int(case["nad"] is not None)
    if mi.miu != want_i:
        ck.fail("dep-initiator-miu", "Initiator miu %s, want LR(lrt=%d)-3-did-nad = %d" % (mi.miu, lrt, want_i), replay)
    want_t = LR[lri] - 3 - int(bool(case["did"]))
    if mt.miu != want_t:
        ck.fail("dep-target-miu", "Target miu %s, want LR(lri=%d)-3-did = %d" % (mt.miu, lri, want_t), replay)
    want_rwt = 4096 / 13.56E6 * 2 ** clamp(0, 14, ft["rwt"])
    if mi.rwt != want_rwt or mt.rwt != want_rwt:
        ck.fail("dep-rwt-mismatch", "rwt initiator %r target %r, option %s" % (mi.rwt, mt.rwt, ft["rwt"]), replay)
    if mt.did != (case["did"] if case["did"] else None):
        ck.fail("dep-did-mismatch", "Target did %r, Initiator did %r" % (mt.did, case["did"]), replay)
    found = r.air.wire[0][1] if r.air.wire else None
    want_b = BRTY[max(BRTY.index(found), clamp(0, 2, fi["brs"]))] if found else None
    if not (mi.target.brty == mt.target.brty == want_b):
        ck.fail("bitrate-mismatch", "bit rate initiator %s target %s, found at %s, brs %s"
                % (mi.target.brty, mt.target.brty, found, fi["brs"]), replay)
    # all later traffic
    for d, b, h in r.air.wire[r.first_dep:]:
        n = len(unframe(b, h))
        lim = LR[lrt] if d == ">" else LR[lri]
        if n > lim:
            ck.fail("frame-exceeds-lr", "%s frame with %d transport octets, receiver announced %d" % (d, n, lim), replay)
        if b != want_b:
            ck.fail("frame-wrong-bitrate", "%s frame at %s after negotiating %s" % (d, b, want_b), replay)
    dead_key = "did0-no-exchange-after-activation" if case["did"] == 0 else "no-exchange-after-activation"
    if r.notes:
        ck.fail(dead_key, "did=%r: %s" % (case["did"], "; ".join(r.notes)), replay)
    if r.traffic.get("i", {}).get("sent") is not None:
        ti, tt = r.traffic["i"], r.traffic.get("t", {})
        for a, x, y, peer_addr, fpeer in (("initiator", ti, tt, 32, ft), ("target", tt, ti, 33, fi)):
            if not llc_valid(fpeer):
                continue
            if x.get("over") != "refused":
                ck.fail("oversize-ui-accepted", "%s accepted a UI of send-miu+1 octets" % a, replay)
            if x.get("sent") is not None and (x["sent"], peer_addr, True) not in y.get("got", []):
                ck.fail(dead_key if case["did"] == 0 else "max-ui-not-delivered", "%s sent a UI of %s octets (= send-miu), peer received %s"
                        % (a, x.get("sent"), y.get("got")), replay)
    return "ok"


# ---------------------------------------------------------------------------------- LLC-only tie
def llc_only(ck, model, exc_name, rng):
    """real LogicalLinkController.activate with a stub MAC: option grid and mutated peer general bytes"""
    import nfc.dep
    import nfc.llcp.llc as llcmod

    class StubMac(nfc.dep.Initiator):
        def __init__(self, peer_gb):
            nfc.dep.Initiator.__init__(self, None)
            self.peer_gb, self.sent = peer_gb, None

        def activate(self, target=None, **options):
            self.sent = bytes(options["gbi"])
            self.rwt = 0.01
            return bytearray(self.peer_gb)

    good = bytes.fromhex("46666d010113020203680302000304011e070103")
    lines, reals, descr = [], [], []

    def one(o, sec_avail, snep, peer_gb):
        saved = llcmod.sec.OpenSSL
        llcmod.sec.OpenSSL = object() if sec_avail else None
        try:
            llc = llcmod.LogicalLinkController(**{k: v for k, v in o.items() if v is not None})
        finally:
            llcmod.sec.OpenSSL = saved
        if snep:
            llc.snl[b"urn:nfc:sn:snep"] = 4
        mac = StubMac(peer_gb)
        f = full(dict(o, snep=snep), sec_avail)
        try:
            ok = llc.activate(mac=mac)
            link = llc_fields(llc) if ok else "nolink"
        except Exception as e:  # noqa
            link = "exc:" + exc_name(e)
        sent = ("ok " + mac.sent.hex()) if mac.sent is not None else "exc EncodeError"
        if mac.sent is None and not link.startswith("exc:EncodeError"):
            sent = "exc ?"
        line = " ".join(["llc", tok(f["miu"]), tok(f["lto"]), tok(f["lsc"]), tok(bool(f["agf"])), tok(f["sec"]),
                         ",".join(map(str, f["saps"])), peer_gb.hex() or "-"])
        real = sent + " " + link
        if mac.sent is None:
            real = "exc EncodeError"     # nothing else observable
        lines.append(line)
        reals.append(real)
        descr.append((o, sec_avail, snep, peer_gb.hex()))
        return f, llc, link

    # option grid (exhaustive in the thorough tier)
    mius = MIU_VALID + MIU_INVALID
    ltos = LTO_VALID + LTO_INVALID
    lscs = LSC_VALID + LSC_INVALID + [None]
    grid = [(m, l, s, sec, sa, sn) for m in mius + [None] for l in ltos + [None] for s in lscs
            for sec in (True, False, None) for sa in (True, False) for sn in (True, False)]
    if not ck.thorough:
        grid = rng.sample(grid, 4000)
    ngrid = 0
    for m, l, s, sec, sa, sn in grid:
        f, llc, link = one(dict(miu=m, lto=l, lsc=s, sec=sec, agf=rng.choice([True, False, None])), sa, sn, good)
        ngrid += 1
        ck.case(("llc-grid", m, l, s, sec, sa, sn), True, "llc:grid")
    # mutated peer general bytes
    nmut = 20000 if ck.thorough else 4000
    for k in range(nmut):
        r = rng.random()
        if r < 0.35:
            g = bytearray(good)
            for _ in range(rng.randrange(1, 4)):
                g[rng.randrange(len(g))] = rng.choice([0, 1, 2, 3, 4, 5, 6, 7, 8, 9, 10, 11, 255, rng.randrange(256)])
        elif r < 0.5:
            g = bytearray(good[:rng.randrange(0, len(good) + 1)])
        elif r < 0.85:
            g = bytearray(b"Ffm")
            for _ in range(rng.randrange(0, 7)):
                t = rng.choice([1, 2, 3, 4, 5, 6, 7, 8, 9, 10, 11, 12, 0, 255])
                ln = rng.choice([0, 1, 1, 2, 2, 3])
                g += bytes([t, ln]) + bytes(rng.randrange(256) for _ in range(ln))
            if rng.random() < 0.2:
                g += bytes([rng.randrange(12)])
            if rng.random() < 0.1:
                g += bytes([rng.randrange(12), rng.randrange(1, 6)])
        else:
            g = bytearray(rng.randrange(256) for _ in range(rng.randrange(0, 12)))
        one(dict(sec=rng.choice([True, False])), rng.choice([True, False]), False, bytes(g[:47]))
        ck.case(("llc-gb", bytes(g)), bytes(g[:47]) != good, "llc:gb")
    replies = model.ask_many(lines)
    dis = 0
    for line, real, rep, d in zip(lines, reals, replies, descr):
        if real == "exc EncodeError":
            ok = rep.startswith("exc EncodeError")
        else:
            ok = rep == real
        if not ok:
            dis += 1
            ck.fail("tie:llc-activate", "LogicalLinkController.activate: impl %r, model %r" % (real, rep),
                    {"request": line, "options": str(d)})
        # llc.activate never raises on peer general bytes (malformed parameters -> returns False);
        # only an unencodable local MIU raises EncodeError
        if "exc:" in real and real.split("exc:")[1] not in ("EncodeError",):
            ck.fail("llc-activate-internal-error", "llc.activate raised %s on peer general bytes %s" % (real, d[3]),
                    {"request": line})
    ck.tie("llc-activate", len(lines), dis, exhaustive=False)
    ck.notes.append("llc-only tie: %d option grid points (%s), %d mutated peer general bytes"
                    % (ngrid, "full grid" if ck.thorough else "sample", nmut))


# ---------------------------------------------------------------------------------- case generators
def gen_llc(rng, valid=True):
    if valid:
        return dict(miu=rng.choice(MIU_VALID + [None]), lto=rng.choice(LTO_VALID + [None]),
                    lsc=rng.choice(LSC_VALID + [None]), agf=rng.choice([True, False, None]),
                    sec=rng.choice([True, False, None]), snep=rng.random() < 0.4)
    return dict(miu=rng.choice(MIU_VALID + MIU_INVALID[:-1]), lto=rng.choice(LTO_VALID + LTO_INVALID),
                lsc=rng.choice(LSC_VALID + LSC_INVALID), agf=rng.choice([True, False, None]),
                sec=rng.choice([True, False, None]), snep=rng.random() < 0.4)


def gen_dep(rng, wild=False):
    if wild:
        return dict(brs=rng.choice([-1, 0, 1, 2, 3, 7, None]), lri=rng.choice([-2, 0, 1, 2, 3, 4, 9, None]),
                    lrt=rng.choice([-1, 0, 1, 2, 3, 4, 100, None]), rwt=rng.choice([-1, 0, 1, 7, 8, 13, 14, 15, 16, 99, None]),
                    acm=rng.choice([True, False, None]))
    return dict(brs=rng.randrange(3), lri=rng.randrange(4), lrt=rng.randrange(4), rwt=rng.randrange(15),
                acm=rng.choice([True, False, None]))


def new_case(rng, entry, I, T, tech="111", active=False, given=None, did=None, nad=None, sec_avail=None):
    return dict(entry=entry, tech=tech, active=active, given=given, did=did, nad=nad,
                sec_avail=rng.random() < 0.5 if sec_avail is None else sec_avail, I=I, T=T,
                nfcid3=bytes(rng.randrange(256) for _ in range(10)).hex(),
                rnd6=bytes(rng.randrange(256) for _ in range(6)).hex())


def cases(ck):
    rng = ck.rng
    out = []
    # A. NFC-DEP option grid, direct llc.activate(mac, **options) entry (did/nad/target can be given)
    grid = [(brs, lri, lrt, rwt, g) for brs in range(3) for lri in range(4) for lrt in range(4) for rwt in range(15)
            for g in (None, 0, 1, 2)]
    if not ck.thorough:
        grid = rng.sample(grid, 900)
    else:
        grid = grid * 4          # every grid point with four different LLC / DID / NAD / acm draws
    for brs, lri, lrt, rwt, g in grid:
        I, T = gen_llc(rng), gen_llc(rng)
        I.update(gen_dep(rng))
        T.update(gen_dep(rng))
        I.update(brs=brs, lri=lri)
        T.update(lrt=lrt, rwt=rwt)
        if g is None:
            I["acm"] = False
        did = rng.choice([None, None, 1, 7, 14, 255])
        nad = rng.choice([None, None, None, 1, 0, 255])
        out.append(("dep-grid", new_case(rng, "direct", I, T, given=g, did=did, nad=nad)))
    # B. connect() entry: option pass-through, search order, clamping of out-of-range values, defaults
    nb = 8000 if ck.thorough else 600
    for k in range(nb):
        I, T = gen_llc(rng, valid=k % 3 != 0), gen_llc(rng, valid=k % 3 != 1)
        I.update(gen_dep(rng, wild=k % 2 == 0))
        T.update(gen_dep(rng, wild=k % 2 == 0))
        tech = rng.choice(["111", "111", "111", "100", "011", "010", "001", "110", "000"])
        out.append(("connect", new_case(rng, "connect", I, T, tech=tech, active=rng.random() < 0.3)))
    # C. LLC option grid: every valid (miu, lto, lsc, sec, snep) once on each side
    lgrid = [(m, l, s, sec, sn) for m in MIU_VALID for l in LTO_VALID for s in LSC_VALID for sec in (True, False)
             for sn in (True, False)]
    if not ck.thorough:
        lgrid = rng.sample(lgrid, 250)
    for side in ("I", "T"):
        for m, l, s, sec, sn in lgrid:
            X = dict(miu=m, lto=l, lsc=s, sec=sec, snep=sn, agf=rng.choice([True, False]))
            Y = gen_llc(rng)
            X.update(gen_dep(rng))
            Y.update(gen_dep(rng))
            I, T = (X, Y) if side == "I" else (Y, X)
            out.append(("llc-grid", new_case(rng, rng.choice(["connect", "direct"]), I, T, sec_avail=True)))
    # D. edge cases of the direct entry
    for did, nad in [(0, None), (None, 0), (256, None), (None, 256), (-1, None), (255, 255)]:
        I, T = gen_llc(rng), gen_llc(rng)
        I.update(gen_dep(rng))
        T.update(gen_dep(rng))
        out.append(("edge", new_case(rng, "direct", I, T, did=did, nad=nad, given=rng.choice([None, 0, 1, 2]))))
    for miu in (65663, 65664, 70000):
        for side in ("I", "T"):
            I, T = gen_llc(rng), gen_llc(rng)
            I.update(gen_dep(rng))
            T.update(gen_dep(rng))
            (I if side == "I" else T)["miu"] = miu
            out.append(("edge", new_case(rng, rng.choice(["connect", "direct"]), I, T, active=rng.random() < 0.5)))
    return out


def run(ck):
    ck.tables("TablesDep")   # T-tie for constants: source tables re-extracted, bridge theorems re-proved
    from common import exc_name
    from sims import act_air
    rng = ck.rng
    ck.rule = ("activation cases: (entry connect()/llc.activate(), air technologies, active mode, given target, "
               "NFC-DEP options brs/lri/lrt/rwt/acm/did/nad and LLC options miu/lto/lsc/agf/sec/services of BOTH devices); "
               "non-trivial = both stacks activated; llc cases: (LLC options, peer general bytes) against a stub MAC; "
               "non-trivial = option grid point or peer general bytes differing from the pristine ones; "
               "distinct by hash of the canonical case")
    ck.assumptions += [
        "chipset driver and air are replaced by harness/sims/act_air.py (written after nfc/clf/udp.py): the listening "
        "driver answers ATR_REQ with the ATR_RES prepared by Target.activate, acknowledges PSL_REQ and follows its bit "
        "rate; the per-driver listen_dep/sense code is not covered here",
        "valid LLC options: 128 <= miu <= 2175, lto a multiple of 10 in 0..2550, lsc in 0..3 (outside this range the "
        "model is still tied to the code, but equality of the announced and the held values is not claimed - see the "
        "counter-example theorems)",
        "the model functions equal the Python functions outside the compared inputs (the D-tie is a sample of the "
        "option space, exhaustive only where stated)",
        "OpenSSL availability (nfc.llcp.sec.OpenSSL) is a case parameter patched by the harness; the DPS key agreement "
        "that follows activation when both sides announce DPC is not exercised",
    ]
    ck.trusted += ["hand-written Lean model NfcVerif.Model.Activate, tied by differential runs",
                   "harness/sims/act_air.py (in-memory air and driver), harness/props/c19.py (oracle)"]
    ck.lean("NfcVerif.Props.C19", THEOREMS)
    if ck.thorough:
        ck.leanchecker(["NfcVerif.Props.C19"])
    model = Model("drv_c19")

    llc_only(ck, model, exc_name, rng)

    todo = cases(ck)
    lines, runs = [], []
    stalls = 0
    for k, (bucket, case) in enumerate(todo):
        traffic = ck.thorough or k % 3 != 1 or bucket == "edge"
        try:
            r = run_case(case, exc_name, traffic)
        except act_air.Stall as e:
            stalls += 1
            ck.fail("activation-stall", "rendezvous stalled: %s" % e, {"case": case})
            continue
        verdict = oracle(ck, case, r)
        both = r.llc_i is not None and r.llc_t is not None
        ck.case(("act", repr(sorted(case.items(), key=lambda kv: kv[0]))), both, "act:%s:%s" % (bucket, verdict),
                sample={"request": request_line(case), "impl": "I=%s T=%s W=%s" % (r.i, r.t, r.w)}
                if len(ck.samples) < 3 and both else None)
        if both:
            ck.count("found:" + r.air.wire[0][1] + "->" + r.mac_i.target.brty)
            ck.count("mode:" + ("active" if r.mac_t.acm else "passive") + ":" + case["entry"])
        if r.air.anomalies:
            ck.fail("air-anomaly", "; ".join(r.air.anomalies[:3]), {"case": case})
        lines.append(request_line(case))
        runs.append((case, r))
    replies = model.ask_many(lines)
    dis = 0
    for line, (case, r), rep in zip(lines, runs, replies):
        real = "I=%s T=%s W=%s" % (r.i, r.t, r.w)
        if real != rep:
            dis += 1
            ck.fail("tie:activate", "two real stacks: %s ; model: %s" % (real, rep), {"request": line, "case": case})
    ck.tie("activate", len(lines), dis, exhaustive=False)
    ngrid = len(set((c["I"]["brs"], c["I"]["lri"], c["T"]["lrt"], c["T"]["rwt"], c["given"]) for b, c in todo if b == "dep-grid"))
    ck.notes.append("pair activations: %d (dep-grid %d distinct points of 2880 = brs 0..2 x lri 0..3 x lrt 0..3 x rwt 0..14 x start "
                    "technology {search,106A,212F,424F}; connect %d; llc-grid %d of 1152 = 2 sides x miu(6) x lto(6) x "
                    "lsc(4) x sec(2) x services(2); edge %d); stalls %d"
                    % (len(todo), ngrid, sum(1 for b, _ in todo if b == "connect"),
                       sum(1 for b, _ in todo if b == "llc-grid"), sum(1 for b, _ in todo if b == "edge"), stalls))
