"""C01, part t34 - NDEF write then read round-trips on Type 3, Type 4 and the emulated Type 3 Tag.

L1: theorems of NfcVerif.Props.C01T34 about the executable models
    Model/T3.lean, Model/T4.lean, Model/T3Emu.lean, and of NfcVerif.Props.C01Emu about the reader model
    running against the emulation model frame by frame (Model/T3LinkC01.lean): end-to-end round trip for
    every block list element format.
L2: real `tag.ndef.octets = data` on simulated tags (harness/sims/t34_sims.py)
    versus the Lean model driver `drv_t34`: outcome, ordered state-changing
    commands, resulting memory, what a fresh activation reports.
    The real reader over the real emulation versus the link model (driver `drv_c01`): outcome, write
    frames delivered, block store, fresh read.
L3: write -> fresh activation -> same octets; capacity really available;
    oversize data refused with zero commands.  Emulated tag: every Nbr 1..15 and Nbw 1..13, stores below
    and above 255 blocks, lengths around block / batch multiples and the 255/256 block boundary.
    Type 4: NDEF files of 65535 / 65536 / 65537.. octets (16 bit offset limit), MLe/MLc extremes.
"""
from common import Model, hx, exc_name
from sims import t34_lib as T
from sims.t34_sims import EmuLink, t3_attr

LEAN_TARGETS = ["NfcVerif.Props.C01T34", "drv_t34", "NfcVerif.Props.C01Emu", "drv_c01"]
HAVE_EMU_MODEL = True

THEOREMS = [
    "NfcVerif.C01T34.t3_attr_roundtrip",
    "NfcVerif.C01T34.t3_roundtrip",
    "NfcVerif.C01T34.t3_capacity",
    "NfcVerif.C01T34.t3_batches_within_limits",
    "NfcVerif.C01T34.t3_oversize_no_command",
    "NfcVerif.C01T34.t3_nbw13_counterexample",
    "NfcVerif.C01T34.t4_roundtrip",
    "NfcVerif.C01T34.t4_capacity",
    "NfcVerif.C01T34.t4_commands_within_limits",
    "NfcVerif.C01T34.t4_oversize_no_command",
    "NfcVerif.C01T34.t4_wf_cc4",
    "NfcVerif.C01T34.t4_wf_cc6",
    "NfcVerif.C01T34.t4_asFound_nlen_counterexample",
    "NfcVerif.C01T34.t3emu_roundtrip",
    "NfcVerif.C01T34.t3emu_process_command_total",
]


def oracle_roundtrip(ck, lay, run, data, fresh_sim, real_cap):
    """the property itself, on the real code; returns the list of (key, what)"""
    out = []
    kind = lay.kind
    n = len(data)
    if run.res is None:
        if kind == "t4" and run.line == "exc ValueError" and lay.mle > 256:
            out.append(("t4-read-le-over-256-valueerror", "activation (reading the previous %d octet message) raises "
                        "ValueError" % len(lay.old)))
            return out
        out.append((kind + "-wellformed-layout-not-ndef", "well-formed layout not recognised: %s" % run.line[:80]))
        return out
    cap = run.capacity
    if cap > real_cap:
        out.append((kind + "-capacity-exceeds-layout", "capacity %d > %d octets really available" % (cap, real_cap)))
    if n > cap:
        if run.res != "exc ValueError":
            out.append((kind + "-oversize-not-rejected", "len %d > capacity %d ended %s" % (n, cap, run.res)))
        if run.cmds_during:
            out.append((kind + "-oversize-commands-sent", "%d commands sent for oversize data" % run.cmds_during))
        return out
    if run.res != "ok":
        key = kind + "-write-raises"
        if kind == "t3" and run.res == "exc ValueError" and lay.nbw == 13 and lay.nmaxb > 255:
            key = "t3-nbw13-3byte-blocklist-valueerror"
        elif kind == "t4" and run.res == "exc ValueError" and lay.mlc > 255:
            key = "t4-update-lc-over-255-valueerror"
        elif kind == "t4" and run.res == "exc struct.error" and lay.mfs > 65535:
            key = "t4-offset-over-65535-struct-error"
        out.append((key, "write of %d octets (capacity %d) ended %s" % (n, cap, run.res)))
        return out
    line, nd = T.see(fresh_sim)
    want = "ok cap=%d r=1 w=1 data=%s" % (cap, hx(data))
    if line != want:
        key = kind + "-roundtrip-differs"
        if kind == "t4" and lay.mlc < lay.nl:
            key = "t4-nlen-truncated-mlc-below-nlen-size"
        elif kind == "t4" and line == "exc ValueError" and lay.mle > 256:
            key = "t4-read-le-over-256-valueerror"
        out.append((key, "wrote %d octets, fresh activation reads %s" % (n, line[:100])))
    elif nd is not None and nd.length > nd.capacity:
        out.append((kind + "-length-exceeds-capacity", "length %d > capacity %d" % (nd.length, nd.capacity)))
    return out


def run_part(ck):
    rng = ck.rng
    ck.rule += (" | t34: cases = (layout, message length, contents); Type 3 layout = (Nbr 1..15, Nbw 1..13, Nmaxb, "
                "previous message + random previous block contents), Type 4 layout = (mapping version, control TLV 4/6, "
                "MLe, MLc, file size, previous NLEN/message/file contents); lengths {0..8, 253..256, cap-1, cap, cap+1} "
                "+ random; non-trivial = message non-empty and not oversize")
    ck.assumptions += [
        "t34: a Type 3 / Type 4 tag is plain memory: it stores what a Write Without Encryption / UPDATE BINARY "
        "carries and returns what is stored; one command is atomic",
        "t34: Type 3 well-formed layout: Ver 1.x, 1 <= Nbr <= 15, 1 <= Nbw <= 13, RWFlag 1, RFU octets 0, "
        "Ln <= 16*Nmaxb, memory of Nmaxb+1 blocks; Type 4: CC of 15/17 octets with one NDEF file control TLV "
        "(T=4 L=6 or T=6 L=8), MLe >= 15, MLc >= 1, file size = declared maximum, offsets fit P1-P2",
        "t34: ISO-DEP framing of the Type 4 simulator is trivial (no faults); block protocol is C12's subject",
    ]
    ck.trusted += ["hand-written Lean models NfcVerif.Model.T3 / T4 / T3Emu, tied by differential runs (drv_t34)",
                   "harness/sims/t34_sims.py (tag simulators), harness/sims/t34_lib.py"]
    ck.lean("NfcVerif.Props.C01T34", THEOREMS)
    if ck.thorough:
        ck.leanchecker(["NfcVerif.Props.C01T34"])
    model = Model("drv_t34")
    var = T.probe_variant()
    ck.notes.append("t34: tree under test has repairs (NLEN loop, short APDU limits) = %s" % var)

    jobs = []
    nl3, nl4 = (150, 220) if ck.thorough else (26, 40)
    lays = T.gen_t3(rng, nl3, ck.thorough) + T.gen_t4(rng, nl4, ck.thorough)
    # files around the 64 KiB limit of the 16 bit offset in P1-P2: extended control TLV (4 octet NLEN) with 65535,
    # 65536, 65537.. octets, ordinary control TLV with the largest sizes its 2 octet field can announce
    edge = [(6, 65536), (6, 70000), (4, 65535), (6, 65535), (6, 65537), (6, 65540), (4, 65534), (6, 131072)]
    if not ck.thorough:
        edge = [edge[0], edge[2], rng.choice(edge[1:2] + edge[3:])]
    for tag, mfs in edge:
        ver = 0x30 if tag == 6 or rng.random() < 0.5 else 0x20
        mle, mlc = rng.choice([(255, 255), (256, 255), (255, 254), (256, 253)])
        oldlen = rng.choice([0, 300, min(mfs, 65536) - (tag - 2)])
        lays.append(T.L4(ver, tag, mle, mlc, mfs, T.rbytes(rng, oldlen, 1), b""))
    for lay in lays:
        ls = T.lengths(rng, lay.cap, 4 if ck.thorough else 2)
        if lay.kind == "t4" and lay.cap > 5000:
            rc = min(lay.mfs, 65536) - lay.nl     # what the 16 bit offset can reach
            ls = sorted(set([0, rc, rc + 1] + ([5, rc - 1, lay.cap, lay.cap + 1, 66000] if ck.thorough else [])))
            ck.count("t4: NDEF file of %s 65536 octets" % ("less than" if lay.mfs < 65536 else "exactly" if lay.mfs == 65536 else "more than"))
        for n in ls:
            data = T.rbytes(rng, n, 1) if rng.random() < 0.9 else bytes(n)
            sim = lay.sim()
            run = T.SetRun(sim, data)
            if lay.kind == "t3":
                req = T.t3_req("set", lay.mem, data)
                fresh = lay.sim(mem=bytes(sim.mem))
                real_cap = len(lay.mem) - 16
            else:
                req = T.t4_req("set", var, lay, lay.file, data)
                fresh = lay.sim(file=bytes(sim.file))
                real_cap = min(len(lay.file), lay.mfs) - lay.nl
            replay = {"layout": lay.descr(), "data": data.hex()}
            jobs.append((req, run.line, replay))
            if getattr(sim, "limit_violation", None):
                ck.fail("t3-batch-exceeds-nbr-nbw", "%s of %d blocks" % sim.limit_violation, replay)
            for key, what in oracle_roundtrip(ck, lay, run, data, fresh, real_cap):
                ck.fail(key, what + " on %s" % (lay.key(),), replay)
            # what the fresh reader reports is compared with the model as well
            line, _ = T.see(lay.sim(mem=bytes(sim.mem)) if lay.kind == "t3" else lay.sim(file=bytes(sim.file)))
            jobs.append((T.t3_req("see", bytes(sim.mem)) if lay.kind == "t3" else T.t4_req("see", var, lay, bytes(sim.file)),
                         line, replay))
            ck.case((lay.key(), len(lay.old), data), 0 < n <= lay.cap,
                    "%s:len%s" % (lay.kind, "0" if n == 0 else "cap+1" if n > lay.cap else "cap" if n == lay.cap
                                  else "<256" if n < 256 else ">=256"),
                    sample={"layout": {k: v for k, v in lay.descr().items() if k not in ("mem", "file_head")},
                            "len": n, "impl": run.line[:120]} if len(ck.samples) < 3 else None)
    T.compare(ck, model, jobs, "t34-set-octets-model-vs-nfcpy")

    emu_part(ck, model)


EMU_THEOREMS = [
    "NfcVerif.C01Emu.t3emu_link_roundtrip",
    "NfcVerif.C01Emu.t3emu_write_is_plain_memory",
    "NfcVerif.C01Emu.t3emu_read_is_plain_memory",
]


def emu_layouts(rng, thorough):
    """(Nbr, Nbw, Nmaxb): every Nbr 1..15 and every Nbw 1..13 at least once (thorough: every pair), block stores
    below and above 255 data blocks (2- and 3-octet block list elements, the boundary 255/256/257)"""
    sizes = [1, 2, 5, 13, 40, 255, 256, 257, 300]
    out = []
    if thorough:
        k = 0
        for nbr in range(1, 16):
            for nbw in range(1, 14):
                out.append((nbr, nbw, sizes[k % len(sizes)] if k % 3 else rng.choice(sizes)))
                k += 1
    else:
        nbrs = list(range(1, 16))
        nbws = list(range(1, 14)) + [12, 13]
        rng.shuffle(nbrs)
        rng.shuffle(nbws)
        big = [256, 257, 300, 255, 300, 256]
        for k, (nbr, nbw) in enumerate(zip(nbrs, nbws)):
            nmaxb = big[k] if k < len(big) else rng.choice(sizes[:6])
            if nbr >= 13 or nbw >= 12:
                nmaxb = max(nmaxb, 40)      # room for a command with the largest block counts
            out.append((nbr, nbw, nmaxb))
    return out


def emu_lengths(rng, cap, nbr, nbw, thorough):
    ls = {0, 1, 15, 16, 17, 16 * nbw - 1, 16 * nbw, 16 * nbw + 1, 16 * nbr, 16 * nbr + 1, 254, 255, 256,
          4079, 4080, 4081, 4096, 4097, cap - 17, cap - 16, cap - 15, cap - 1, cap, cap + 1}
    ls.add(rng.randrange(cap + 2))
    ls = sorted(n for n in ls if 0 <= n <= cap + 1)
    if not thorough and len(ls) > 9:
        keep = {0, cap, cap + 1, ls[len(ls) // 2]}
        keep |= {n for n in (16 * nbr, 16 * nbw + 1) if n <= cap}     # one full read / write batch
        keep |= {n for n in ls if 4079 <= n <= 4097 and n % 16 <= 1}
        ls = sorted(keep | set(rng.sample(ls, 3)))
    return ls


def emu_part(ck, model):
    """real Type3Tag <-> in-memory exchange <-> real Type3TagEmulation.process_command, and the same composition
    in the model (NfcVerif.T3Link, driver drv_c01)"""
    rng = ck.rng
    from sims.t34_sims import IDM, PMM
    ck.lean("NfcVerif.Props.C01Emu", EMU_THEOREMS)
    if ck.thorough:
        ck.leanchecker(["NfcVerif.Props.C01Emu"])
    link_model = Model("drv_c01")
    ids = hx(IDM + PMM + b"\x12\xFC")
    jobs = []
    for nbr, nbw, nmaxb in emu_layouts(rng, ck.thorough):
        try:
            emu_layout(ck, nbr, nbw, nmaxb, ids, jobs)
        except Exception as e:  # noqa
            ck.fail("t3emu-unexpected-behaviour", "emulated tag (Nbr %d, Nbw %d, Nmaxb %d): the exploration ended with %s"
                    % (nbr, nbw, nmaxb, T.xname(e)), {"emulated": True, "nbr": nbr, "nbw": nbw, "nmaxb": nmaxb, "exception": repr(e)})
    T.compare(ck, link_model, jobs, "t3emu-reader-over-emulation-model-vs-nfcpy")
    if HAVE_EMU_MODEL:
        emu_tie(ck, model)


def emu_layout(ck, nbr, nbw, nmaxb, ids, jobs):
    rng = ck.rng
    if True:
        cap = nmaxb * 16
        old = T.rbytes(rng, rng.choice([0, cap, rng.randrange(cap + 1), min(cap, 16 * nbr)]), 1)
        store = bytearray(T.rbytes(rng, 16 * (nmaxb + 1), 1))
        store[0:16] = t3_attr(0x10, nbr, nbw, nmaxb, 0, 1, len(old))
        store[16:16 + len(old)] = old
        f37 = nbw == 13 and nmaxb > 255
        for n in emu_lengths(rng, cap, nbr, nbw, ck.thorough):
            data = T.rbytes(rng, n, 1)
            link = EmuLink(store)
            replay = {"emulated": True, "nbr": nbr, "nbw": nbw, "nmaxb": nmaxb, "old_len": len(old), "data": data.hex()}
            ck.case(("emu", nbr, nbw, nmaxb, len(old), data), 0 < n <= cap, "t3emu:%s" % ("3-octet-elements" if nmaxb > 255 else "2-octet-elements"))
            try:
                nd = link.activate().ndef
                seen = None if nd is None else (bytes(nd.octets), nd.capacity)
            except Exception as e:  # noqa
                ck.fail("t3emu-activation-raises", T.xname(e), replay)
                continue
            if seen != (old, cap):
                ck.fail("t3emu-wellformed-layout-not-ndef", "emulated tag not read correctly: %s" % (seen and (len(seen[0]), seen[1]),), replay)
                continue
            nframes = len(link.frames)
            try:
                nd.octets = data
                res = "ok"
            except Exception as e:  # noqa
                res = "exc " + T.xname(e)
            nwrites = len(link.writes)
            after = bytes(link.store)
            jobs.append(("lnk.set %s %s %s" % (ids, hx(store), hx(data)),
                         "%s frames=%d store=%s" % ("fail" if res.startswith("exc TagCommandError") else res, nwrites, hx(after)),
                         replay))
            if n > cap:
                if res != "exc ValueError" or len(link.frames) != nframes:
                    ck.fail("t3emu-oversize-not-rejected", "%s, %d commands" % (res, len(link.frames) - nframes), replay)
                continue
            if res != "ok":
                key = "t3-nbw13-3byte-blocklist-valueerror" if (f37 and res == "exc ValueError") else "t3emu-write-raises"
                ck.fail(key, "write of %d octets (capacity %d) ended %s on emulated ('t3', %d, %d, %d)" % (n, cap, res, nbr, nbw, nmaxb), replay)
                continue
            line, _ = T.see(EmuLink(after))
            jobs.append(("lnk.see %s %s" % (ids, hx(after)), line, replay))
            if line != "ok cap=%d r=1 w=1 data=%s" % (cap, hx(data)):
                ck.fail("t3emu-roundtrip-differs", "wrote %d octets, fresh reader sees %s" % (n, line[:100]), replay)
            keep_from = 16 + 16 * ((n + 15) // 16)
            if len(after) != len(store) or after[keep_from:] != bytes(store[keep_from:]):
                ck.fail("t3emu-store-damaged", "block store changed outside the written blocks", replay)


def emu_tie(ck, model):
    """frames built by the real reader vs. T3Emu.encRead/encWrite, and the real
    Type3TagEmulation.process_command vs. T3Emu.processCommand on those frames and on mutated ones"""
    rng = ck.rng
    jobs = []
    import nfc.tag.tt3 as tt3
    from sims.t34_sims import IDM, PMM
    ids = hx(IDM + PMM + b"\x12\xFC")
    n_cases = 3000 if ck.thorough else 400
    try:   # does the tree ignore truncated commands (repair of F23, property C07)?
        f23 = "1" if EmuLink(bytes(16)).emu.process_command(bytearray()) is None else "0"
    except IndexError:
        f23 = "0"

    def raw_job(store, cmd, why):
        link = EmuLink(store)
        try:
            rsp = link.emu.process_command(bytearray(cmd))
            real = "ok %s store=%s calls=%s" % ("none" if rsp is None else hx(rsp), hx(link.store), ",".join(link.calls) or "-")
        except Exception as e:  # noqa
            real = "exc " + exc_name(e)
        jobs.append(("t3e.raw %s %s %s %s" % (f23, ids, hx(store), hx(cmd)), real, {"emu-frame": bytes(cmd).hex()[:400], "kind": why}))
        ck.case(("emuraw", bytes(store), bytes(cmd)), True, "t3emu-frame:" + why)

    for k in range(n_cases):
        nblocks = rng.choice([1, 2, 4, 17, 300])
        store = T.rbytes(rng, 16 * nblocks)
        link = EmuLink(store)
        tag = link.activate()
        cnt = rng.randrange(1, 16) if rng.random() < 0.9 else rng.choice([0, 16, 20])
        bl = [rng.randrange(0, nblocks + 1) if rng.random() < 0.8 else rng.randrange(0, 70000 if k % 50 == 0 else 600)
              for _ in range(cnt)]
        write = rng.random() < 0.5
        data = T.rbytes(rng, 16 * len(bl)) if rng.random() < 0.9 else T.rbytes(rng, rng.randrange(0, 16 * len(bl) + 20))
        svc = rng.choice([0x0009, 0x000B]) if rng.random() < 0.9 else rng.choice([0x0049, 0x000F, 0x1009])
        sc = tt3.ServiceCode(svc >> 6, svc & 0x3f)
        bcs = [tt3.BlockCode(b) for b in bl]
        try:
            if write:
                tag.write_without_encryption([sc], bcs, data)
            else:
                tag.read_without_encryption([sc], bcs)
            err = None
        except Exception as e:  # noqa
            err = exc_name(e)
        sent = [c for c in link.sent_cmds if c[1] in (6, 8)]
        real = ("ok " + hx(sent[-1])) if sent else "exc " + str(err)
        jobs.append(("t3e.enc %s %s %d %s %s" % ("w" if write else "r", hx(IDM), svc, ",".join(map(str, bl)) or "-",
                                                 hx(data) if write else "-"), real, {"emu-encode": (svc, bl)}))
        ck.case(("emuenc", write, svc, tuple(bl), data), True, "t3emu-encode")
        if sent:
            cmd = sent[-1]
            raw_job(store, cmd, "reader-built")
            m = bytearray(cmd)
            r = rng.random()
            if r < 0.3 and len(m) > 11:       # several services / other service list
                pos = rng.randrange(10, len(m))
                m[pos] = rng.randrange(256)
                raw_job(store, m, "byte-changed")
            elif r < 0.45:
                m = m[:rng.randrange(0, len(m))]
                if m:
                    m[0] = len(m)
                raw_job(store, m, "truncated")
            elif r < 0.6:
                # two services, elements naming both
                body = bytearray([2, 0x09, 0x00, 0x0B, 0x00, len(bl)])
                for b in bl:
                    body += bytes([0x80 | rng.randrange(0, 3), b & 255]) if b < 256 else bytes([rng.randrange(0, 3), b & 255, b >> 8])
                if cmd[1] == 8:
                    body += data
                m = bytearray([0, cmd[1]]) + IDM + body
                if len(m) < 256:
                    m[0] = len(m)
                    raw_job(store, m, "two-services")
    for cmd in (bytes([6, 0, 255, 255, 0, 0]), bytes([6, 0, 0x12, 0xFC, 1, 0]), bytes([6, 0, 0x12, 0xFD, 1, 0]),
                bytes([10, 4]) + IDM, bytes([10, 0x0C]) + IDM, bytes([10, 0x0A]) + IDM, bytes([1]), bytes([2, 6])):
        raw_job(T.rbytes(rng, 32), cmd, "other-command")
    T.compare(ck, model, jobs, "t3emu-process-command-model-vs-nfcpy")
