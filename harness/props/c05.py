"""C05 - LLCP connections deliver in order, exactly once, within the window.

L1: theorems of NfcVerif.Props.C05 about the executable two-endpoint model
    NfcVerif.Model.Dlc (every finite sequence of the atomic steps send / recv /
    setBusy / poll / dequeue / sendack / deliver / close / closeFin on both
    sides, any RW in 0..15 on both sides, any MIU): delivered is a prefix of
    accepted, nothing is lost while both ends are established, window,
    sequence consistency through the modulo-16 wrap (no FRMR, no discarded I
    PDU, no recv_confs overrun), EMSGSIZE, progress; collect() is a composition
    of atomic steps.
L2: two REAL LogicalLinkControllers (harness/sims/dlc_pair.py), each with a real
    DataLinkConnection, walk through the same step sequences as the compiled
    model driver drv_c05; compared after every step: result / errno, every PDU
    put on the wire (type, N(S), N(R), data) and the complete visible state of
    both sockets (state, V(S), V(SA), V(R), V(RA), recv_confs, acks_recvd, busy
    modes, send/recv queue contents, PDUs in flight).
L3: oracle on the real objects only: prefix / conservation / window / wire
    numbering / acknowledgement sanity / no FRMR / EMSGSIZE / only documented
    errnos, plus the real CONNECT-CC handshake giving consistent parameters.

Routing layer (props/c05_net.py, sims/dlc_net.py, Model/DlcSap.lean, Props/C05Sap.lean):
L1: an inbound I / RR / RNR PDU reaches the socket of its own connection although the
    access point holds several sockets (stale sockets of earlier connections from the
    same source SAP included) - one controller under a disciplined inbound stream,
    every client-only controller emits such a stream, both composed over FIFO wires.
L2: two real controllers with any number of sockets (listen / accept / connect by
    address and by name / re-connect from the same SAP / close) against the compiled
    model, every socket and every sock_list compared after every step.
L3: per connection the oracle above, plus: every I / RR / RNR PDU is handed to the
    partner socket of the socket that sent it (object identity), no established
    socket takes a PDU of another connection.
"""
import itertools
import logging

from common import Model, hx, exc_name, Infra
from props.c05_net import run_net, KNOWN_CLOSE

logging.disable(logging.CRITICAL)

LEAN_TARGETS = ["NfcVerif.Props.C05", "NfcVerif.Props.C05Sap", "drv_c05", "NfcVerif.Props.TablesPdu"]

THEOREMS = [
    "NfcVerif.C05.dlc_prefix",
    "NfcVerif.C05.dlc_conservation",
    "NfcVerif.C05.dlc_window",
    "NfcVerif.C05.dlc_seq_consistent",
    "NfcVerif.C05.dlc_emsgsize",
    "NfcVerif.C05.dlc_close_sends_disc",
    "NfcVerif.C05.dlc_collect_covered",
    "NfcVerif.C05.dlc_no_stuck",
    "NfcVerif.C05.dlc_wakeup_rechecks",
]
THEOREMS_SAP = [
    "NfcVerif.C05.sap_route_first_match",
    "NfcVerif.C05.sap_route_reaches_connection",
    "NfcVerif.C05.client_stream_disciplined",
    "NfcVerif.C05.net_route_reaches_connection",
    "NfcVerif.C05.net_early_data_counterexample",
    "NfcVerif.C05.net_close_unread_repaired",
]

OTHER = {"A": "B", "B": "A"}
EXPECTED_ERRNO = {"exc llcp.Error(11)", "exc llcp.Error(90)", "exc llcp.Error(32)", "exc llcp.Error(107)",
                  "exc llcp.Error(9)", "exc llcp.Error(108)"}


class Walk:
    """one history on a fresh pair of real controllers, with the real-code oracle"""

    def __init__(self, ck, cfg, label):
        from sims.dlc_pair import Pair
        self.ck, self.cfg, self.label = ck, cfg, label
        rwA, rwB, miuA, miuB, link, agf = cfg
        self.rw = {"A": rwA, "B": rwB}
        self.real = [None]
        self.failed = set()
        try:
            self.pair = Pair(rwA, rwB, miuA, miuB, link, agf)
            self.lines = [self.pair.init_line()]
        except Infra:
            raise
        except Exception as e:  # noqa  - the connection cannot even be set up: a failing input, not a crash
            self.pair, self.dead = None, True
            self.lines = ["init 128 128 1 1 128 128 1 1 128 0"]
            self.acc, self.got, self.stats, self.cnt = {"A": [], "B": []}, {"A": [], "B": []}, {}, 0
            self.fail("dlc-handshake-failed", "CONNECT / CC between two controllers does not establish a connection: %s %r"
                      % (exc_name(e), e))
            return
        self.acc = {"A": [], "B": []}
        self.got = {"A": [], "B": []}
        self.seen = {"A": 0, "B": 0}       # PDUs of wirelog already judged
        self.iseen = {"A": 0, "B": 0}      # I PDUs seen on the wire per direction
        self.ackt = {"A": 0, "B": 0}       # unwrapped total acknowledged by x (from N(R) on the wire)
        self.lastnr = {"A": 0, "B": 0}
        self.cnt = 0
        self.dead = False
        self.stats = {}
        p = self.pair
        for x in "AB":
            s, o = p.s[x], p.s[OTHER[x]]
            if s.send_win != o.recv_win or s.send_miu > o.recv_miu or o.recv_win != self.rw[OTHER[x]]:
                self.fail("dlc-handshake-parameters", "after CONNECT/CC: %s has RW(R)=%s MIU=%s, peer announced RW=%s MIU=%s"
                          % (x, s.send_win, s.send_miu, o.recv_win, o.recv_miu))

    def stat(self, k, n=1):
        self.stats[k] = self.stats.get(k, 0) + n

    def fail(self, key, what):
        if key in self.failed:
            return
        self.failed.add(key)
        self.ck.fail(key, "%s [%s cfg rwA=%d rwB=%d miuA=%d miuB=%d link=%d agf=%s, step %d]"
                     % ((what, self.label) + tuple(self.cfg) + (len(self.lines) - 1,)),
                     {"cfg": list(self.cfg), "ops": self.lines[1:]})

    def msg(self, n):
        self.cnt += 1
        head = bytes([self.cnt & 255, (self.cnt >> 8) & 255])
        return (head * (n // 2 + 1))[:n]

    # -------------------------------------------------------------- one step
    def do(self, line):
        if self.dead:
            return None
        p = self.pair
        before = p.digest() if line.startswith("send") else None
        pre = (str(p.s[line.split(" ")[1]].state), len(p.s[line.split(" ")[1]].recv_queue)) if line.startswith("close ") else None
        try:
            res = p.op(line)
        except Infra:
            raise
        except Exception as e:  # noqa  - whatever nfcpy throws through the simulator glue is a failing input, not a crash
            res = "exc " + exc_name(e)
            self.lines.append(line)
            self.real.append(res + " | ?")
            self.fail("dlc-unexpected-exception", "%s raised %r outside a socket call" % (line, e))
            self.dead = True
            return res
        self.lines.append(line)
        if pre is not None and res == "done" and pre[0] == "ESTABLISHED" and pre[1] > 0:
            self.fail(KNOWN_CLOSE, "close() of an established socket with %d unread PDUs in its receive queue took one of them "
                      "for the DM: it returned at once, DISC was never sent and the peer stays ESTABLISHED" % pre[1])
        self.real.append(res + " | " + p.digest())
        self.judge(line, res, before)
        if p.link_down:
            self.dead = True
            return res
        for x in p.runnable_closers():
            self.do("closefin " + x)
        return res

    def judge(self, line, res, before):
        p = self.pair
        f = line.split(" ")
        kind, x = f[0], f[1]
        y = OTHER[x]
        self.stat("op:" + kind)
        if res.startswith("exc ") or res.startswith("ret "):
            self.stat("res:" + res)
            if p.link_down:
                if "None" in p.link_down:
                    self.fail("dlc-close-unsent-i-pdu-breaks-link",
                              "close() left an I PDU without N(R) in the send queue; the link loop cannot encode it "
                              "and the whole LLCP link goes down: " + p.link_down)
                else:
                    self.fail("dlc-frame-codec", p.link_down)
            elif res not in EXPECTED_ERRNO:
                self.fail("dlc-unexpected-exception", "%s -> %s" % (line, res))
        if kind == "send":
            m = bytes.fromhex(f[2]) if f[2] != "-" else b""
            s = p.s[x]
            if res == "ok":
                self.acc[x].append(m)
                if len(m) > s.send_miu:
                    self.fail("dlc-oversize-message-accepted", "send() accepted %d octets, connection MIU %d" % (len(m), s.send_miu))
            elif len(m) > s.send_miu and s.state.ESTABLISHED:
                self.stat("emsgsize")
                if res != "exc llcp.Error(90)" or p.digest() != before:
                    self.fail("dlc-oversize-message-not-refused", "send() of %d octets (MIU %d) -> %s" % (len(m), s.send_miu, res))
            if res == "exc llcp.Error(11)":
                self.stat("window-full")
        elif kind == "recv" and res.startswith("ok "):
            self.got[x].append(bytes.fromhex(res[3:]) if res[3:] != "-" else b"")
        # ---- every PDU newly put on the wire
        for d in "AB":
            log = p.wirelog[d]
            while self.seen[d] < len(log):
                q = log[self.seen[d]]
                self.seen[d] += 1
                self.stat("pdu:" + q.name)
                if q.name == "FRMR":
                    self.fail("dlc-frmr-generated", "%s sent %s" % (d, q))
                if q.name == "I":
                    k = self.iseen[d]
                    self.iseen[d] += 1
                    if k >= 16:
                        self.stat("wrapped")
                    if q.ns != k % 16 or k >= len(self.acc[d]) or q.data != self.acc[d][k]:
                        self.fail("dlc-wire-sequence", "%s: I PDU number %d on the wire has N(S)=%d data %s" % (d, k, q.ns, hx(q.data)))
                if q.name in ("I", "RR", "RNR"):
                    self.ackt[d] += (q.nr - self.lastnr[d]) % 16
                    self.lastnr[d] = q.nr
                    if self.ackt[d] > len(self.got[d]):
                        self.fail("dlc-ack-beyond-consumed", "%s acknowledged %d messages, its application received %d"
                                  % (d, self.ackt[d], len(self.got[d])))
        # ---- state of the world
        for d in "AB":
            e = OTHER[d]
            s, o = p.s[d], p.s[e]
            if self.got[e] != self.acc[d][:len(self.got[e])]:
                self.fail("dlc-delivery-not-prefix", "%s received %d messages that are not a prefix of what %s sent"
                          % (e, len(self.got[e]), d))
            if len(self.acc[d]) - len(self.got[e]) > self.rw[e]:
                self.fail("dlc-window-exceeded", "%s has %d messages accepted and not received by the peer application, RW=%d"
                          % (d, len(self.acc[d]) - len(self.got[e]), self.rw[e]))
            if s.state.ESTABLISHED and (s.send_cnt - s.send_ack) % 16 > self.rw[e]:
                self.fail("dlc-window-exceeded", "%s: V(S)-V(SA) = %d > RW %d" % (d, (s.send_cnt - s.send_ack) % 16, self.rw[e]))
            if s.state.ESTABLISHED and o.state.ESTABLISHED and not p.closed[d] and not p.closed[e]:
                inflight = [m for _, _, ms in p.wire[d] for m in ms]
                total = (self.got[e] + [q.data for q in o.recv_queue if q.name == "I"] + inflight
                         + [q.data for q in s.send_queue if q.name == "I"])
                if total != self.acc[d]:
                    self.fail("dlc-message-lost", "%s->%s: accepted %d messages, delivered+queued+wire+unsent = %d"
                              % (d, e, len(self.acc[d]), len(total)))

    # -------------------------------------------------------------- drain
    def drain(self):
        """quiescence: move everything, read everything; then nothing may be missing"""
        p = self.pair
        if self.dead or p.closed["A"] or p.closed["B"]:
            return
        for _ in range(200):
            moved = False
            for x in "AB":
                r = self.do("collect " + x)
                moved |= r is not None and r != "none"
                while True:
                    r = self.do("deliver " + OTHER[x])
                    if r is None or not r.startswith("ok"):
                        break
                    moved = True
                while True:
                    r = self.do("recv " + OTHER[x])
                    if r is None or not r.startswith("ok"):
                        break
                    moved = True
            if not moved or self.dead:
                break
        for d in "AB":
            if p.s[d].state.ESTABLISHED and p.s[OTHER[d]].state.ESTABLISHED and self.got[OTHER[d]] != self.acc[d]:
                self.fail("dlc-message-lost", "after draining: %s accepted %d, peer received %d"
                          % (d, len(self.acc[d]), len(self.got[OTHER[d]])))

    def settle(self):
        """after a close(): keep the links running so that DISC / DM are exchanged and read"""
        if self.dead:
            return
        for _ in range(4):
            for x in "AB":
                self.do("collect " + x)
                self.do("deliver " + OTHER[x])
                self.do("recv " + OTHER[x])
                self.do("send %s %s" % (x, hx(self.msg(2))))

    def finish(self):
        if self.pair is not None:
            self.pair.cleanup()
        return self


def random_cfg(rng, rwA=None, rwB=None):
    link = rng.choice([128, 128, 131, 140, 200, 248, 1000, 2175])
    miuA = rng.choice([128, 128, link, rng.randrange(128, link + 1)])
    miuB = rng.choice([128, 128, link, rng.randrange(128, link + 1)])
    return (rng.choice([0] + list(range(1, 16)) * 2) if rwA is None else rwA,
            rng.choice([0] + list(range(1, 16)) * 2) if rwB is None else rwB, miuA, miuB, link, rng.random() < 0.5)


def random_walk(ck, cfg, steps, label, micro=False, close_at=None):
    rng = ck.rng
    w = Walk(ck, cfg, label)
    kinds = ["send", "recv", "collect", "deliver", "busy", "poll"]
    base = {"send": 5, "recv": 4, "collect": 4, "deliver": 4, "busy": 0.4, "poll": 0.6}
    wt = None
    for i in range(steps):
        if w.dead:
            break
        if i % 60 == 0:   # change the regime: bursts, lazy readers, slow links
            wt = [base[k] * rng.choice([0.2, 0.6, 1, 1, 2, 4]) for k in kinds]
        k = rng.choices(kinds, wt)[0]
        x = rng.choice("AB")
        if close_at is not None and i >= close_at and rng.random() < 0.05:
            w.do("close " + x)
            continue
        if k == "send":
            s = w.pair.s[x]
            r = rng.random()
            n = rng.randrange(1, 9) if r < 0.8 else 0 if r < 0.83 else max(0, s.send_miu + rng.choice([-1, 0, 0, 1, 2, 40]))
            w.do("send %s %s" % (x, hx(w.msg(n))))
        elif k == "busy":
            w.do("busy %s %d" % (x, rng.randrange(2)))
        elif k == "poll":
            w.do("poll %s %s" % (x, rng.choice(["recv", "send", "acks"])))
        elif k == "collect" and micro:
            if rng.random() < 0.3:
                w.do("ack " + x)
            else:
                link = cfg[4]
                b = rng.choice([link, link, rng.randrange(0, 20), rng.randrange(-4, 5), rng.randrange(0, link + 1)])
                w.do("deq %s %d" % (x, b))
        else:
            w.do("%s %s" % (k, x))
    w.drain()
    if close_at is not None:
        w.settle()
    return w.finish()


def prelude(w, n):
    """move n messages each way so that the counters are about to wrap"""
    for i in range(n):
        for x in "AB":
            w.do("send %s %s" % (x, hx(w.msg(2))))
            w.do("collect " + x)
            w.do("deliver " + OTHER[x])
            w.do("recv " + OTHER[x])
    for x in "AB":
        w.do("collect " + x)
        w.do("deliver " + OTHER[x])


ALPHABET = ["send A", "send B", "recv A", "recv B", "collect A", "collect B", "deliver A", "deliver B",
            "busy A 1", "close B"]


def exhaustive(ck, cfg, depth, warm, label, alphabet=ALPHABET):
    out = []
    for hist in itertools.product(alphabet, repeat=depth):
        w = Walk(ck, cfg, label)
        if warm:
            prelude(w, warm)
        for op in hist:
            if op.startswith("send"):
                op = "%s %s" % (op, hx(w.msg(2)))
            w.do(op)
        w.drain()
        out.append(w.finish())
    return out


class SchedExec:
    """one deterministic schedule of application threads blocked in send() / recv() on real sockets.

    scenario = (kind, k, rwA, rwB, spurious): kind "send": k threads each call the blocking
    send(socket A, one message); the scheduler decides after every step who continues: a thread that
    has not started, a parked thread that was notified (or, `spurious` times, one that was not), or the
    link (everything A -> B, B's application reads everything, everything B -> A).
    kind "recv": k threads call the blocking recv(socket B); every link step first lets A's application
    send its next message (k in total, non-blocking).
    The decisions are taken from `prefix`, then always the first option; `self.width` records how many
    options there were at every decision so that the caller can enumerate all schedules."""

    def __init__(self, ck, scen, prefix, rng=None):
        import nfc.llcp
        from sims.dlc_pair import Pair
        from sims.dlc_sched import Sched
        self.ck, self.scen, self.cfg, self.label = ck, scen, (scen[2], scen[3], 128, 128, 128, False), "sched-" + scen[0]
        kind, k, rwA, rwB, spurious = scen
        self.pair = p = Pair(rwA, rwB, 128, 128, 128, False)
        self.sched = sch = Sched()
        for x in "AB":
            sch.instrument(p.s[x], x)
        self.lines, self.real = [p.init_line()], [None]
        self.stats, self.failed = {}, set()
        self.got = {"A": [], "B": []}
        self.accepted, self.trace, self.width, self.choice = [], [], [], []
        sa, sb, A, B = p.s["A"], p.s["B"], p.L["A"], p.L["B"]
        msgs = [bytes([0xA0 + i, i]) for i in range(k)]
        if kind == "send":
            for i in range(k):
                sch.spawn("S%d" % i, (lambda m: lambda: A.send(sa, m, 0))(msgs[i]))
        else:
            for i in range(k):
                sch.spawn("R%d" % i, lambda: B.recv(sb))
        fed, spur, last_vs, seen = 0, 0, 0, 0
        noop = set()
        try:
            for depth in range(80):
                opts = []
                new = [t for t in sch.threads if t.state == "new"]
                if new:
                    opts.append(("run", sch.threads.index(new[0])))
                for i, t in enumerate(sch.threads):
                    if t.state == "parked" and t.notified:
                        opts.append(("run", i))
                    elif t.state == "parked" and spur < spurious and ("spur", i) not in noop:
                        opts.append(("spur", i))
                if ("link",) not in noop:
                    opts.append(("link",))
                if not opts:
                    break
                # a sender woken on send_ready only returns from send(): independent of everything else,
                # so it runs at once and is not a decision
                forced = [o for o in opts if o[0] == "run" and sch.threads[o[1]].cv is not None
                          and sch.threads[o[1]].cv.name.endswith("send_ready")]
                if forced:
                    act = forced[0]
                else:
                    di = len(self.choice)
                    c = prefix[di] if di < len(prefix) else (rng.randrange(len(opts)) if rng else 0)
                    self.width.append(len(opts))
                    self.choice.append(c)
                    act = opts[c]
                self.trace.append(act[0] if len(act) == 1 else "%s %s" % (act[0], sch.threads[act[1]].name))
                before = p.digest()
                if act[0] in ("run", "spur"):
                    spur += act[0] == "spur"
                    sch.run(sch.threads[act[1]])
                    delta = (sa.send_cnt - last_vs) % 16
                    last_vs = sa.send_cnt
                    if delta:
                        newp = [q for q in sa.send_queue if q.name == "I"][-delta:]
                        for j, q in enumerate(newp):
                            self.accepted.append(bytes(q.data))
                            self.lines.append("send A " + hx(q.data))
                            self.real.append("ok | " + p.digest() if j == len(newp) - 1 else None)
                    for t in sch.threads:
                        if t.state == "done" and not t.reported:
                            t.reported = True
                            self.stat("thread-returned")
                            if t.result[0] == "exc":
                                self.fail("dlc-blocking-call-raised", "%s raised %r" % (t.name, t.result[1]))
                            elif kind == "recv" and t.result[1] is not None:
                                self.got["B"].append(bytes(t.result[1]))
                                self.lines.append("recv B")
                                self.real.append("ok %s | %s" % (hx(t.result[1]), p.digest()))
                            elif kind == "send" and t.result[1] is not True:
                                self.fail("dlc-blocking-call-raised", "%s returned %r" % (t.name, t.result[1]))
                elif act[0] == "link":
                    if kind == "recv" and fed < k:          # the sending application offers its next message
                        if self.do("send A " + hx(msgs[fed])) == "ok":
                            self.accepted.append(msgs[fed])
                            fed += 1
                            last_vs = sa.send_cnt
                    for _ in range(20):
                        if self.do("collect A") == "none":
                            break
                    while self.do("deliver B").startswith("ok"):
                        pass
                    if kind == "send":
                        while True:
                            r = self.do("recv B")
                            if not r.startswith("ok "):
                                break
                            self.got["B"].append(bytes.fromhex(r[3:]))
                    for _ in range(20):
                        if self.do("collect B") == "none":
                            break
                    while self.do("deliver A").startswith("ok"):
                        pass
                if p.digest() == before and act[0] != "run":
                    noop.add(act)
                elif p.digest() != before:
                    noop.clear()
                self.judge()
                if p.link_down:
                    self.fail("dlc-frame-codec", p.link_down)
                    break
            self.final(kind, k)
        finally:
            sch.teardown()

    def stat(self, key, n=1):
        self.stats[key] = self.stats.get(key, 0) + n

    def do(self, line):
        r = self.pair.op(line)
        self.lines.append(line)
        self.real.append(r + " | " + self.pair.digest())
        return r

    def fail(self, key, what):
        if key in self.failed:
            return
        self.failed.add(key)
        self.ck.fail(key, "%s [schedule %s: %s]" % (what, list(self.scen), ", ".join(self.trace)),
                     {"scenario": list(self.scen), "decisions": list(self.choice), "schedule": list(self.trace)})

    def judge(self):
        p = self.pair
        sa, rw = p.s["A"], self.scen[3]
        out = (sa.send_cnt - sa.send_ack) % 16
        if sa.state.ESTABLISHED and out > rw:
            self.fail("dlc-window-exceeded", "blocking send(): V(S)-V(SA) = %d unacknowledged I PDUs, peer announced RW=%d" % (out, rw))
        if len(self.accepted) - len(self.got["B"]) > rw:
            self.fail("dlc-window-exceeded", "blocking send(): %d messages numbered and not received by the peer application, RW=%d"
                      % (len(self.accepted) - len(self.got["B"]), rw))
        for d in "AB":
            for q in p.wirelog[d]:
                if q.name == "FRMR":
                    self.fail("dlc-frmr-generated", "%s sent %s" % (d, q))
        if self.got["B"] != self.accepted[:len(self.got["B"])]:
            self.fail("dlc-delivery-not-prefix", "B's application received %s, A numbered %s"
                      % ([hx(m) for m in self.got["B"]], [hx(m) for m in self.accepted]))

    def final(self, kind, k):
        """quiescence: nothing is enabled any more"""
        p, sch = self.pair, self.sched
        left = [bytes(q.data) for q in p.s["B"].recv_queue if q.name == "I"]
        stuck = [t.name for t in sch.threads if t.state == "parked"]
        if kind == "send":
            if stuck:
                self.fail("dlc-blocked-send-never-resumed", "threads %s still wait although the link is idle" % stuck)
            elif self.got["B"] + left != self.accepted or len(self.accepted) != k:
                self.fail("dlc-message-lost", "%d threads sent, A numbered %d, B received %d (+%d queued)"
                          % (k, len(self.accepted), len(self.got["B"]), len(left)))
        else:
            if sorted(self.got["B"] + left) != sorted(self.accepted) or (len(self.accepted) == k and self.got["B"] + left != self.accepted):
                self.fail("dlc-message-lost", "A sent %s, blocked recv() calls returned %s, still queued %s"
                          % ([hx(m) for m in self.accepted], [hx(m) for m in self.got["B"]], [hx(m) for m in left]))
            if stuck and left:
                self.fail("dlc-blocked-recv-never-resumed", "threads %s wait although %d messages are queued" % (stuck, len(left)))
        self.stat("schedules")
        self.stat("decisions", len(self.choice))


def schedules(ck, scen, budget):
    """all schedules of `scen` in depth-first order (stateless: every schedule is a fresh execution);
    beyond `budget` executions the rest of the tree is sampled at random"""
    out, prefix, n = [], [], 0
    complete = True
    while True:
        e = SchedExec(ck, scen, prefix)
        out.append(e)
        n += 1
        ch, wd = e.choice, e.width
        i = len(ch) - 1
        while i >= 0 and ch[i] + 1 >= wd[i]:
            i -= 1
        if i < 0:
            break
        if n >= budget:
            complete = False
            break
        prefix = ch[:i] + [ch[i] + 1]
    if not complete:
        for _ in range(budget // 2):
            out.append(SchedExec(ck, scen, [], rng=ck.rng))
    return out, complete


LOCKS = {"lock", "send_ready", "recv_ready", "send_token", "acks_ready"}
WHOLE_BODY_LOCKED = {"TransmissionControlObject": ["send", "recv", "close", "enqueue", "dequeue"],
                     "DataLinkConnection": ["send", "recv", "close", "dequeue", "setsockopt"]}
ASSIGN_LOCKED = {"DataLinkConnection": ["sendack", "_enqueue_state_established", "poll"]}


def lock_regions(ck):
    """The theorems treat send / recv / dequeue / sendack / close and the state updates of enqueue as
    atomic steps.  Re-read tco.py of the tree under test: these bodies must be one `with self.<lock>`
    region (all condition variables built on self.lock), and every assignment to a connection state
    variable in sendack / _enqueue_state_established / poll must sit inside such a region."""
    import ast
    import nfc.llcp.tco as tco
    tree = ast.parse(open(tco.__file__.replace(".pyc", ".py")).read())

    def is_lock_with(st):
        return isinstance(st, ast.With) and any(
            isinstance(i.context_expr, ast.Attribute) and isinstance(i.context_expr.value, ast.Name)
            and i.context_expr.value.id == "self" and i.context_expr.attr in LOCKS for i in st.items)

    def trivial(st):   # docstring / logging call
        if not isinstance(st, ast.Expr):
            return False
        v = st.value
        if isinstance(v, ast.Constant):
            return True
        return (isinstance(v, ast.Call) and isinstance(v.func, ast.Attribute) and isinstance(v.func.value, ast.Name)
                and (v.func.value.id == "log" or (v.func.value.id == "self" and v.func.attr in ("log", "err"))))

    def unlocked_assigns(node, locked, out):
        for ch in ast.iter_child_nodes(node):
            inside = locked or is_lock_with(ch)
            if isinstance(ch, (ast.Assign, ast.AugAssign)) and not locked:
                tg = ch.targets if isinstance(ch, ast.Assign) else [ch.target]
                for g in tg:
                    for a in ast.walk(g):
                        if isinstance(a, ast.Attribute) and isinstance(a.value, ast.Name) and a.value.id == "self":
                            out.append((a.attr, ch.lineno))
                        if (isinstance(a, ast.Attribute) and isinstance(a.value, ast.Attribute)
                                and isinstance(a.value.value, ast.Name) and a.value.value.id == "self"):
                            out.append((a.value.attr + "." + a.attr, ch.lineno))
            unlocked_assigns(ch, inside, out)

    seen, conds = 0, set()
    for cls in tree.body:
        if not isinstance(cls, ast.ClassDef):
            continue
        for fn in cls.body:
            if not isinstance(fn, ast.FunctionDef):
                continue
            if fn.name == "__init__":
                for st in ast.walk(fn):
                    if (isinstance(st, ast.Assign) and isinstance(st.value, ast.Call) and ast.unparse(st.value.func) == "threading.Condition"
                            and [ast.unparse(a) for a in st.value.args] == ["self.lock"]):
                        conds.add(ast.unparse(st.targets[0]).replace("self.", ""))
            if fn.name in WHOLE_BODY_LOCKED.get(cls.name, []):
                seen += 1
                body = [s for s in fn.body if not trivial(s)]
                if not (len(body) == 1 and is_lock_with(body[0])):
                    ck.fail("dlc-critical-section-not-locked", "%s.%s (tco.py:%d) is not a single `with self.<lock>` region"
                            % (cls.name, fn.name, fn.lineno), {"function": "%s.%s" % (cls.name, fn.name)})
            if fn.name in ASSIGN_LOCKED.get(cls.name, []):
                seen += 1
                out = []
                unlocked_assigns(fn, False, out)
                out = [o for o in out if o[0] not in ("log",)]
                if out:
                    ck.fail("dlc-critical-section-not-locked", "%s.%s assigns %s outside a `with self.<lock>` region"
                            % (cls.name, fn.name, out), {"function": "%s.%s" % (cls.name, fn.name)})
    if not {"send_ready", "recv_ready", "send_token", "acks_ready"} <= conds:
        ck.fail("dlc-critical-section-not-locked", "condition variables not all built on self.lock: %s" % sorted(conds),
                {"function": "__init__"})
    if seen != 13:
        ck.fail("tie:c05-lock-regions", "expected 13 functions of tco.py, found %d" % seen, {})
    ck.count("lock-regions-checked", seen)
    ck.notes.append("lock map of tco.py re-read from the tree: %d functions are single lock regions / assign state only "
                    "inside lock regions; conditions on self.lock: %s" % (seen, sorted(conds)))


def run(ck):
    ck.tables("TablesPdu")   # T-tie for constants: source tables re-extracted, bridge theorems re-proved
    rng = ck.rng
    ck.rule = ("(histories of the routing layer: link MIU, aggregation, sequence of steps on two real controllers with any "
               "number of sockets - listeners, connects by address / name, accepts, re-connects from the same SAP, closes; "
               "all reconnect scenarios, bounded-exhaustive from `stale accepted socket + new connection`, random) "
               "(schedules of blocked threads count as histories too: scenario + decision list) a case is one history: (RW_A, RW_B, MIU_A, MIU_B, link MIU, aggregation, sequence of steps on two real "
               "controllers); bounded-exhaustive: every sequence of length d over a 10-letter step alphabet from the "
               "fresh connection and from a state one message before the modulo-16 wrap; random: walks with changing "
               "step weights over the RW grid 0..15 x 0..15; non-trivial = at least one message was delivered or "
               "refused; distinct by hash of configuration + step list")
    ck.assumptions += [
        "each modelled step is atomic in Python: it is one `with self.lock` region of tco.py (send, recv, dequeue, "
        "sendack, the acknowledgement part of enqueue) executed by one thread; preemption inside such a region, "
        "spurious wake-ups other than the modelled closeFin, and CPython's Condition semantics are assumed, not proved",
        "both endpoints run this implementation (behaviour against a peer that sends wrong N(S)/N(R) is C07)",
        "the connection parameters are those of a CONNECT/CC handshake with RW in 0..15 and MIU in 128..2175 "
        "(SO_RCVBUF above 15 is clamped to 15 by setsockopt; SO_RCVMIU below 128 cannot be announced: CONNECT/CC carry "
        "MIUX = MIU - 128, the peer assumes 128 and its 128-octet I PDU is answered with FRMR)",
        "the wires are reliable FIFO (NFC-DEP, property C04); the two-endpoint theorems (Props/C05.lean) speak about one "
        "connection whose PDUs reach its two sockets - that they do when other sockets share the access point is what "
        "Props/C05Sap.lean proves (sap_route_reaches_connection / net_route_reaches_connection)",
        "routing theorems: sap_route_reaches_connection assumes the inbound stream is disciplined (`Disc`: CONNECTs of one "
        "source SAP carry increasing connection numbers, numbered PDUs a number not below the last CONNECT of their SAP); "
        "client_stream_disciplined proves this for every controller on which no socket listens and net_route_reaches_connection "
        "composes both over FIFO wires (side A client-only, side B arbitrary); for a peer with listening sockets on both sides "
        "`Disc` is checked on the real traffic of every generated history (tie:c05-stream-discipline), not proved",
        "an application closes a socket once and not while connect() waits for the answer; listen()/connect() are called on "
        "bound sockets; both directions use the same link MIU; service names are `urn:nfc:sn:s<0..9>`; no PDU is addressed "
        "to SAP 0; receive MIU >= 128",
        "the model equals the Python code outside the compared histories (the D-tie is exhaustive only for the "
        "stated short histories)",
    ]
    ck.trusted += ["hand-written Lean models NfcVerif.Model.Dlc / NfcVerif.Model.DlcLlc / NfcVerif.Model.DlcSap, tied by differential runs",
                   "harness/props/c05_net.py, harness/sims/dlc_net.py (several sockets per side; connect()/close() in application "
                   "threads under the strict baton of dlc_sched, no wall-clock dependence)",
                   "harness/props/c05.py, harness/sims/dlc_pair.py (deterministic single-threaded driver of two real "
                   "controllers; close() in a helper thread with strict rendezvous)"]
    ck.lean("NfcVerif.Props.C05", THEOREMS)
    ck.lean("NfcVerif.Props.C05Sap", THEOREMS_SAP)
    if ck.thorough:
        ck.leanchecker(["NfcVerif.Props.C05", "NfcVerif.Props.C05Sap"])
    model = Model("drv_c05")
    lock_regions(ck)
    from sims.dlc_pair import Pair, HandshakeFailed
    try:
        Pair(1, 1, 128, 128, 128, True).cleanup()
    except Infra:
        raise
    except Exception as e:  # noqa  (HandshakeFailed or whatever the tree under test throws)
        ck.fail("dlc-handshake-failed", "CONNECT / CC between two controllers does not establish a connection: %s" % e,
                {"cfg": [1, 1, 128, 128, 128, True], "ops": []})
        ck.tie("two-endpoint DLC model vs two real controllers (histories)", cases=0, disagreements=0)
        ck.tie("controller model with several sockets per access point vs two real controllers (histories)", cases=0, disagreements=0)
        return

    walks = []
    # ---- bounded exhaustive short histories
    d0 = 4
    if ck.thorough:
        walks += exhaustive(ck, (1, 2, 128, 128, 128, True), d0, 0, "exhaustive-%d" % d0)
    else:   # quick: depth 4 without the busy letter, depth 3 with it
        walks += exhaustive(ck, (1, 2, 128, 128, 128, True), d0, 0, "exhaustive-%d" % d0,
                            alphabet=[a for a in ALPHABET if not a.startswith("busy")])
        walks += exhaustive(ck, (1, 2, 128, 128, 128, True), 3, 0, "exhaustive-3")
    if ck.thorough:
        walks += exhaustive(ck, (2, 1, 128, 130, 140, False), 3, 0, "exhaustive-3")
    walks += exhaustive(ck, (1, 1, 128, 128, 128, True), 3, 15, "exhaustive-3-at-wrap")
    if ck.thorough:
        walks += exhaustive(ck, (2, 1, 128, 128, 2175, True), 5, 0, "exhaustive-5",
                            alphabet=[a for a in ALPHABET if not a.startswith("busy")])
        walks += exhaustive(ck, (2, 3, 128, 128, 128, False), 3, 15, "exhaustive-3-at-wrap")
    nexh = len(walks)
    # ---- RW grid
    steps = 400 if ck.thorough else 120
    for rwA in range(0, 16):
        for rwB in range(0, 16):
            cfg = random_cfg(rng, rwA, rwB)
            walks.append(random_walk(ck, cfg, steps, "grid", micro=(rwA + rwB) % 3 == 0))
    # ---- long walks, walks with close
    for i in range(24 if ck.thorough else 4):
        walks.append(random_walk(ck, random_cfg(rng), 5000, "long", micro=i % 2 == 1))
    for i in range(600 if ck.thorough else 150):
        n = rng.randrange(10, 200)
        walks.append(random_walk(ck, random_cfg(rng), n, "close", micro=i % 3 == 0, close_at=rng.randrange(0, n)))

    # ---- blocking send() / recv(): all schedules of k threads against the link (no real preemption)
    scens = [("send", 2, 1, 1, 0), ("send", 3, 1, 1, 0), ("send", 3, 2, 2, 0), ("send", 2, 1, 1, 1), ("send", 3, 1, 1, 1),
             ("recv", 2, 2, 2, 0), ("recv", 2, 1, 1, 1), ("recv", 3, 1, 1, 0)]
    if ck.thorough:
        scens += [("recv", 3, 3, 3, 0), ("send", 3, 2, 2, 1), ("send", 3, 1, 2, 0), ("recv", 3, 2, 2, 1), ("send", 3, 2, 1, 1)]
    nsched, allc = 0, True
    for scen in scens:
        try:
            out, complete = schedules(ck, scen, 3000 if ck.thorough else 1200)
        except Infra:
            raise
        except Exception as e:  # noqa
            ck.fail("dlc-blocking-call-raised", "schedule exploration %s stopped by %s %r" % (list(scen), exc_name(e), e),
                    {"scenario": list(scen)})
            continue
        walks += out
        nsched += len(out)
        allc = allc and complete
        ck.count("schedules:%s-k%d-rw%d%s" % (scen[0], scen[1], scen[3], "-spurious" if scen[4] else ""), len(out))
    ck.notes.append("blocking send()/recv(): %d schedules of 2..3 application threads against the link on real sockets "
                    "(condition-variable double, strict baton, one decision per wake-up / thread start / link round; %s); "
                    "oracle: window, prefix, nothing lost, nobody left waiting; every schedule is also replayed on the model"
                    % (nsched, "every scenario enumerated completely" if allc else "largest scenarios sampled beyond the budget"))

    # ---- the routing layer: several sockets per access point, re-connects (props/c05_net.py)
    try:
        run_net(ck, model)
    except Infra:
        raise
    except Exception as e:  # noqa
        import traceback
        ck.fail("dlc-unexpected-exception", "histories with several sockets stopped by %s %r\n%s"
                % (exc_name(e), e, traceback.format_exc()[-1500:]), {})

    # ---- compare with the model
    lines = [l for w in walks for l in w.lines]
    replies = model.ask_many(lines)
    pos, dis, nops = 0, 0, 0
    for w in walks:
        n = len(w.lines)
        rep = replies[pos:pos + n]
        pos += n
        bad = None
        for i in range(1, n):
            nops += 1
            if w.real[i] is not None and rep[i] != w.real[i]:
                bad = i
                break
        delivered = len(w.got["A"]) + len(w.got["B"])
        refused = sum(v for k, v in w.stats.items() if k.startswith("res:"))
        ck.case((w.cfg, tuple(w.lines[1:])), delivered + refused > 0, "walk:" + w.label,
                sample={"cfg": list(w.cfg), "steps": len(w.lines) - 1, "first_steps": w.lines[1:9],
                        "delivered": delivered, "last_reply": w.real[-1]} if w.label in ("grid", "close") else None)
        for k, v in w.stats.items():
            ck.count(k, v)
        ck.count("messages-delivered", delivered)
        if bad is not None:
            dis += 1
            ck.fail("tie:c05-model-vs-dlc", "step %d `%s` [%s]: model %r, implementation %r"
                    % (bad, w.lines[bad], w.label, rep[bad], w.real[bad]),
                    {"cfg": list(w.cfg), "ops": w.lines[1:bad + 1], "model": rep[bad], "impl": w.real[bad]})
    ck.tie("two-endpoint DLC model vs two real controllers (histories)", cases=len(walks), disagreements=dis,
           exhaustive=False)
    ck.count("steps-compared", nops)
    ck.notes.append("%d bounded-exhaustive histories (all sequences of the stated length over the 10-step alphabet; quick tier: depth 4 over 9 steps without busy, depth 3 over all 10), "
                    "%d random histories and schedules, %d steps compared with the model after every step" % (nexh, len(walks) - nexh, nops))
    ck.notes.append("thread schedules are explored at the granularity of whole critical sections (switches only at "
                    "Condition.wait() / call return); the theorems cover every interleaving of the atomic steps; atomicity "
                    "of a step rests on the lock regions of tco.py (partial w.r.t. preemption inside critical sections)")
