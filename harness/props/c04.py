"""C04 - NFC-DEP delivers each payload exactly once, intact, or reports failure.

L1: theorems of NfcVerif.Props.C04 about the executable model NfcVerif.Model.NfcDep
    (Initiator and Target state machines of nfc/dep.py composed with a fault script).
L2: two REAL nfc.dep objects (real activate() on both sides) coupled by the faulty
    in-memory air of harness/sims/dep_air.py run the same fault scripts as the Lean
    model; compared: every frame on the air (bytes and fault), the payloads returned
    and the exception classes on both sides.  Second tie: the real Initiator against
    scripted response frames (RTOX, NAK, wrong PNI, foreign PDUs).  Third tie: the
    frame codec of both roles.
L3: oracle on the real code, independent of the model: exactly-once / in order /
    intact or CommunicationError, frame sizes against the announced LR, recovery
    from isolated faults.
"""
import itertools
import logging

from common import Model, hx, exc_name, Infra

logging.disable(logging.CRITICAL)

LEAN_TARGETS = ["NfcVerif.Props.C04", "drv_c04", "NfcVerif.Props.TablesDep"]

THEOREMS = [
    "NfcVerif.C04.dep_exactly_once",
    "NfcVerif.C04.dep_success_complete",
    "NfcVerif.C04.dep_nothing_after_error",
    "NfcVerif.C04.dep_transaction_at_most_once",
    "NfcVerif.C04.dep_foreign_did_silent",
    "NfcVerif.C04.dep_rtox_request_counterexample",
    "NfcVerif.C04.dep_single_fault_recovered",
    "NfcVerif.C04.dep_single_fault_statement_repaired",
    "NfcVerif.C04.dep_frame_bound",
    "NfcVerif.C04.dep_frame_bound_target_counterexample",
    "NfcVerif.C04.dep_error_kind_initiator",
    "NfcVerif.C04.dep_error_kind_initiator_any_peer",
    "NfcVerif.C04.dep_error_kind_target",
    "NfcVerif.C04.dep_error_kind_target_counterexample",
    "NfcVerif.C04.dep_retransmission_idempotent",
    "NfcVerif.C04.dep_codec_roundtrip",
    "NfcVerif.C04.dep_no_recovery_with_did_counterexample",
    "NfcVerif.C04.dep_ack_retransmission_counterexample",
]

LR = (64, 128, 192, 254)
COMM = {"TimeoutError", "TransmissionError", "ProtocolError", "BrokenLinkError", "UnsupportedTargetError",
        "CommunicationError"}


def o(v):
    return "-" if v is None else str(v)


def plist(ps):
    return ",".join((p.hex() or "e") for p in ps) if ps else "-"


def canon_real(r):
    w = ",".join("%s%s:%s" % e for e in r.wire) or "-"
    return "W %s | I %s %s | D %s | T %s %s" % (w, plist(r.got_i), r.err_i, r.err_d, plist(r.got_t), r.status_t)


def tdid_of(did):
    return did if did else None


class Case(dict):
    __getattr__ = dict.__getitem__


def mk(brty, did, nad, lri, lrt, miu_i, miu_t, script, rel, pi, pt, bucket):
    return Case(brty=brty, did=did, nad=nad, lri=lri, lrt=lrt, miu_i=miu_i, miu_t=miu_t, script=script, rel=rel,
                pi=[bytes(p) for p in pi], pt=[bytes(p) for p in pt], bucket=bucket)


def replay_of(c):
    d = dict(c)
    d["pi"] = [p.hex() for p in c.pi]
    d["pt"] = [p.hex() for p in c.pt]
    return d


def run_real(c):
    from sims import dep_air
    return dep_air.run_pair(c.brty, c.did, c.nad, c.lri, c.lrt, c.script, c.rel, c.pi, c.pt,
                            miu_i=c.miu_i, miu_t=c.miu_t, exc_name=exc_name)


def run_rtox(c, t_rtox):
    from sims import dep_air
    return dep_air.run_pair(c.brty, c.did, c.nad, c.lri, c.lrt, c.script, c.rel, c.pi, c.pt,
                            miu_i=c.miu_i, miu_t=c.miu_t, exc_name=exc_name, t_rtox=t_rtox)


def isolated(script, gap=4):
    """no expiry, every two faults at least `gap` delivered frames apart"""
    if "x" in script:
        return False
    pos = [i for i, f in enumerate(script) if f != "d"]
    return all(b - a > gap for a, b in zip(pos, pos[1:]))


def slug(msg):
    m = msg.lower()
    for key, s in (("attention", "attention-request"), ("transmission error", "ack-retransmission"),
                   ("retransmission request", "retransmission-request"), ("packet number", "packet-number"),
                   ("out-of-sequence", "unexpected-ack"), ("chaining", "chaining")):
        if key in m:
            return s
    return "other"


def oracle(ck, c, r, recovery=True):
    """the property stated on the real run; returns list of (key, what)"""
    out = []
    if r.got_t != c.pi[:len(r.got_t)]:
        out.append(("target-payload-wrong-duplicated-or-reordered",
                    "Target.exchange returned %s, Initiator passed %s" % (plist(r.got_t), plist(c.pi))))
    if r.got_i != c.pt[:len(r.got_i)]:
        out.append(("initiator-payload-wrong-duplicated-or-reordered",
                    "Initiator.exchange returned %s, Target passed %s" % (plist(r.got_i), plist(c.pt))))
    empty = any(len(p) == 0 for p in c.pi + c.pt)
    if not empty:
        if r.err_i != "ok" and r.err_i[4:] not in COMM:
            out.append(("initiator-internal-exception-" + r.err_i[4:], "Initiator.exchange raised %s (%s)" % (r.err_i, r.msg_i)))
        if r.err_d != "ok":
            out.append(("deactivate-exception-" + r.err_d[4:], "Initiator.deactivate raised %s" % r.err_d))
        if r.status_t.startswith("exc ") and r.status_t[4:] not in COMM:
            key = "target-internal-exception-" + r.status_t[4:]
            if r.status_t[4:] == "AttributeError" and not r.got_t:
                key = "f40-target-first-exchange-deselect-attributeerror"
            if r.status_t[4:] == "struct.error":
                key = "f20-target-frame-exceeds-lri"
            out.append((key, "Target.exchange raised %s (%s)" % (r.status_t, r.msg_t)))
    if r.anomalies:
        out.append(("target-unsolicited-frame", r.anomalies[0]))
    if c.miu_i is None and c.miu_t is None:
        head = 2 if c.brty == "106A" else 1
        for d, h, f in r.wire:
            n = len(h) // 2 - head
            if d == ">" and n > LR[c.lrt]:
                out.append(("initiator-frame-exceeds-lrt", "%d transport bytes, LRt allows %d: %s" % (n, LR[c.lrt], h[:24])))
                break
            if d == "<" and n > LR[c.lri]:
                out.append(("f20-target-frame-exceeds-lri", "%d transport bytes, LRi allows %d (DID %s): %s.."
                            % (n, LR[c.lri], o(c.did), h[:24])))
                break
    if (recovery and isolated(c.script) and not empty and c.did != 0 and len(c.pi) == len(c.pt)
            and not any(k.startswith("f20") or k.startswith("f40") for k, _ in out)):
        if r.err_i != "ok" or r.got_t != c.pi or r.got_i != c.pt:
            s = slug(r.msg_i)
            hd = 4 if c.brty == "106A" else 2
            atn_no_did = any(d == ">" and h[hd:hd + 6] == "d40680" for d, h, f in r.wire)
            key = {"attention-request": "f26-lost-frame-not-recovered-with-did" if (c.did and atn_no_did)
                   else "isolated-fault-not-recovered-attention",
                   "ack-retransmission": "f27-retransmitted-ack-rejected"}.get(s, "isolated-fault-not-recovered-" + s)
            out.append((key, "script %s with isolated faults: Initiator %s (%s), delivered %d/%d and %d/%d"
                        % (c.script or "-", r.err_i, r.msg_i, len(r.got_t), len(c.pi), len(r.got_i), len(c.pt))))
    return out


# ------------------------------------------------------------------ generators
def sizes_around(rng, miu, big=True):
    ks = [1, miu - 1, miu, miu + 1, 2 * miu, 2 * miu + 1] + ([3 * miu + 2] if big else [])
    return max(1, rng.choice(ks))


def payloads(rng, n, miu, base, big=True):
    out = []
    for i in range(n):
        ln = sizes_around(rng, miu, big)
        out.append(bytes(((base + 17 * i + j) & 255) for j in range(ln)))
    return out


def fault_scripts(length, k, alphabet="lcx"):
    """all scripts of `length` frames with at most k faults"""
    yield "d" * 0
    for n in range(1, k + 1):
        for pos in itertools.combinations(range(length), n):
            for kinds in itertools.product(alphabet, repeat=n):
                s = ["d"] * (pos[-1] + 1)
                for p, f in zip(pos, kinds):
                    s[p] = f
                yield "".join(s)


def short_conversations():
    """conversations of <= 6 protocol steps used for exhaustive fault placement"""
    return [
        # no DID, chaining both ways inside one exchange, release
        mk("106A", None, None, 0, 0, 4, 4, "", 2, [b"\x01\x02\x03\x04\x05\x06"], [b"\x81\x82\x83\x84\x85"], "short:chain-both"),
        # DID in use, 212F, two exchanges
        mk("212F", 3, None, 0, 0, 4, 4, "", 1, [b"\x01\x02", b"\x03\x04\x05"], [b"\x81\x82\x83\x84\x85\x86", b"\x87"], "short:did"),
        # NAD and DID, real information unit sizes (LR 64), payload MIU+1
        mk("106A", 7, 5, 0, 0, None, None, "", 2, [bytes(range(1, 61))], [bytes(range(100, 161))], "short:lr64-did-nad"),
        # one byte each way, no release
        mk("212F", None, None, 1, 2, None, None, "", 0, [b"\x55", b"\x56"], [b"\xAA", b"\xAB"], "short:single"),
        # three-chunk payload from the initiator, DID
        mk("106A", 14, None, 3, 3, 3, 5, "", 2, [bytes(range(1, 10))], [b"\x90"], "short:chain3-did"),
    ]


def random_case(rng, long_conv=False, did0=True):
    brty = rng.choice(["106A", "212F"])
    did = rng.choice([None, None, 1, 3, 14, 255, 0] if rng.random() < 0.1 else [None, None, 3, 9])
    if did == 0 and not did0:
        # as found (F26) an Initiator with DID 0 and a Target without DID exchange ATN PDUs until the
        # deadline (13000 rounds): the abstraction of the clock does not cover that count
        did = None
    nad = rng.choice([None, None, None, 5])
    lri, lrt = rng.randrange(4), rng.randrange(4)
    if rng.random() < 0.7:
        miu_i, miu_t = rng.choice([2, 3, 5, 8, 13]), rng.choice([2, 3, 5, 8, 13])
        mi, mt = miu_i, miu_t
    else:
        miu_i = miu_t = None
        mi = LR[lrt] - 3 - (did is not None) - (nad is not None)
        mt = LR[lri] - 4
    n = rng.randrange(9, 14) if long_conv else rng.randrange(1, 5)
    pi = payloads(rng, n, mi, 1, big=not long_conv)
    pt = payloads(rng, n, mt, 0x80, big=not long_conv)
    if rng.random() < 0.03:
        pt[rng.randrange(n)] = b""
    if rng.random() < 0.02:
        pi[rng.randrange(n)] = b""
    ln = rng.randrange(1, 16 * n)
    s = ["d"] * ln
    nf = rng.choice([0, 1, 1, 2, 3, 4, 6])
    mode = rng.random()
    for _ in range(nf):
        s[rng.randrange(ln)] = rng.choice("lllcccx" if mode < 0.7 else "lc")
    if mode > 0.9:   # bursts
        p = rng.randrange(ln)
        for j in range(p, min(ln, p + rng.randrange(2, 6))):
            s[j] = rng.choice("lc")
    rel = rng.choice([0, 1, 2, 2])
    return mk(brty, did, nad, lri, lrt, miu_i, miu_t, "".join(s).rstrip("d"), rel, pi, pt,
              "random:" + ("wrap" if long_conv else "short") + (":did" if did else ""))


def isolated_case(rng):
    """faults at least 7 frames apart: the recovery oracle applies"""
    c = random_case(rng, long_conv=rng.random() < 0.3)
    if c.did == 0:
        c["did"] = None
    c["pi"] = [p or b"\x01" for p in c.pi]
    c["pt"] = [p or b"\x01" for p in c.pt]
    ln = rng.randrange(8, 60)
    s = ["d"] * ln
    p = rng.randrange(0, 8)
    while p < ln:
        s[p] = rng.choice("lc")
        p += rng.randrange(7, 15)
    c["script"] = "".join(s).rstrip("d")
    c["bucket"] = "isolated" + (":did" if c.did else "")
    return c


# ------------------------------------------------------------------ probes for the known defects
def probe_variant(ck):
    """which of the known defects does this tree have?  (witness inputs of F20, F26, F27, F40)
    returns the variant string for the model: '1' repaired / '0' as found"""
    v = []
    c = mk("106A", 3, None, 0, 0, None, None, "", 2, [b"\x01"], [bytes(range(61))], "probe:f20")
    r = run_real(c)
    v.append("1" if r.tmiu == 60 else "0")
    c = mk("106A", 3, None, 0, 0, 4, 4, "l", 2, [b"\x01\x02"], [b"\x81"], "probe:f26")
    r = run_real(c)
    v.append("1" if r.err_i == "ok" else "0")
    c = mk("106A", None, None, 0, 0, 4, 4, "dc", 2, [b"\x01\x02\x03\x04\x05\x06"], [b"\x81"], "probe:f27")
    r = run_real(c)
    v.append("1" if r.err_i == "ok" else "0")
    c = mk("106A", None, None, 0, 0, 4, 4, "lddx", 2, [b"\x01\x02"], [b"\x81"], "probe:f40")
    r = run_real(c)
    v.append("0" if r.status_t == "exc AttributeError" else "1")
    # F41: Target application asks for a timeout extension, its next INF is lost, the RTOX request is repeated
    r = run_rtox(mk("106A", None, None, 0, 0, 4, 4, "dddl", 0, [b"\x01", b"\x02"], [b"\x81", b"\x82"], "probe:f41"), {0: 2})
    v.append("1" if r.err_i == "ok" else "0")
    return "".join(v)


# ------------------------------------------------------------------ scripted responder / codec
def dep_body(req, fmt, pni, did, nad, data):
    pfb = (fmt << 4) | (8 if nad is not None else 0) | (4 if did is not None else 0) | pni
    b = bytes([0xD4 if req else 0xD5, 6 if req else 7, pfb])
    if did is not None:
        b += bytes([did])
    if nad is not None:
        b += bytes([nad])
    return b + bytes(data)


def frame(brty, body):
    f = bytes([len(body) + 1]) + body
    return (b"\xF0" + f) if brty == "106A" else f


def scripted_case(rng):
    brty = rng.choice(["106A", "212F"])
    did = rng.choice([None, None, 3])
    nad = rng.choice([None, None, 5])
    miu = rng.choice([2, 3, 5])
    payload = bytes(rng.randrange(256) for _ in range(rng.choice([1, miu, miu + 1, 2 * miu + 1])))
    resp = []
    pni = 0
    nreq = (len(payload) + miu - 1) // miu
    for k in range(rng.randrange(1, 10)):
        u = rng.random()
        if u < 0.08:
            resp.append(None)
            continue
        if u < 0.45:     # what a compliant target would send next
            if k < nreq - 1:
                fmt, data = 4, b""
            else:
                fmt, data = rng.choice([0, 0, 1]), bytes(rng.randrange(256) for _ in range(rng.randrange(0, 4)))
            p = pni
            pni = (pni + 1) & 3
        else:
            fmt = rng.choice([0, 1, 4, 5, 8, 9, 9, 9, 2, 15])
            data = bytes(rng.choice([0, 1, 7, 59, 60, 200]) for _ in range(rng.randrange(0, 3)))
            p = rng.choice([pni, pni, rng.randrange(4)])
            if fmt in (0, 1, 4) and p == pni:
                pni = (pni + 1) & 3
        rdid = did if rng.random() < 0.9 else rng.choice([None, 9])
        rnad = nad if rng.random() < 0.9 else rng.choice([None, 6])
        body = dep_body(False, fmt, p, rdid, rnad, data)
        if rng.random() < 0.05:
            body = bytes([0xD5, rng.choice([9, 11])]) + (bytes([did]) if did is not None else b"")
        resp.append(frame(brty, body))
    ln = rng.randrange(0, 14)
    s = ["d"] * ln
    for _ in range(rng.choice([0, 0, 1, 2, 3])):
        if ln:
            s[rng.randrange(ln)] = rng.choice("lcx")
    return brty, did, nad, miu, "".join(s), resp, payload


def recovery_probe_cases(rng, depth):
    """every PDU kind as the answer to the first `depth` delivered frames - which, depending on the fault
    script, are the request itself, an ATN or a NAK - for a chained and a non-chained request"""
    kinds = [("dep", 0, b"\x11"), ("dep", 1, b"\x12"), ("dep", 4, b""), ("dep", 5, b""), ("dep", 8, b""),
             ("dep", 9, b"\x02"), ("dep", 9, b""), ("dep", 2, b""), ("dep", 15, b"\x01"), ("dsl",), ("rls",), None]
    scripts = ["dc", "l", "dl", "dcl", "dcc", "ll", "ldl", "c", "dcdc", "ddc"]
    for chained, tox_first in itertools.product((False, True), (False, True)):
        for script in scripts:
            if tox_first:
                # the request is first answered with a timeout extension request: the outstanding
                # request during the recovery is then the RTOX PDU, not the (chained) information PDU
                script = "dd" + script
            for combo in itertools.product(kinds, repeat=depth):
                brty = rng.choice(["106A", "212F"])
                did = rng.choice([None, 3])
                miu = 3
                payload = bytes([1, 2, 3, 4, 5]) if chained else bytes([1, 2])
                resp = []
                if tox_first:
                    resp.append(frame(brty, dep_body(False, 9, 0, did, None, b"\x02")))
                for k in combo:
                    pni = rng.choice([0, 0, 0, 1])
                    if k is None:
                        resp.append(None)
                    elif k[0] == "dep":
                        resp.append(frame(brty, dep_body(False, k[1], pni, did, None, k[2])))
                    else:
                        resp.append(frame(brty, bytes([0xD5, 9 if k[0] == "dsl" else 11]) + (bytes([did]) if did is not None else b"")))
                # compliant tail so that accepted recoveries run to completion
                resp.append(frame(brty, dep_body(False, 8, 0, did, None, b"")))
                resp.append(frame(brty, dep_body(False, 0, 1 if chained else 0, did, None, b"\x77")))
                yield brty, did, None, miu, script, resp, payload


def target_script_case(rng, exc_name):
    """a real Target driven by a compliant reference initiator whose frames are interleaved, at every
    position, with frames the air may also carry: requests for ANOTHER target (foreign DID, DID-less or
    with DID when the Target has none), NAD variants, repeated requests, ATN, NAK, RTOX requests, PSL/ATR/
    DSL/RLS, corrupted frames.  returns (model line pieces, real canonical, oracle findings)"""
    from sims import dep_air
    brty = rng.choice(["106A", "212F"])
    did = rng.choice([None, 3, 9])
    foreign = [d for d in (None, 3, 7) if d != did]
    miu_t = rng.choice([3, 5])
    miu_i = rng.choice([2, 4])
    n = rng.randrange(1, 5)
    pi = [bytes(((17 * i + j + 1) & 255) for j in range(rng.choice([1, miu_i, miu_i + 1, 2 * miu_i + 1]))) for i in range(n)]
    pt = [bytes(((0x80 + 13 * i + j) & 255) for j in range(rng.choice([1, miu_t, miu_t + 1, 2 * miu_t + 1]))) for i in range(n)]
    H = dep_air.TargetHarness(brty, did, 0, pt, miu_t=miu_t, exc_name=exc_name)
    sent, resps, findings = [], [], []
    own_tox = [False]

    def send(body, is_foreign=False):
        f = H.frame(body)
        r = H.deliver(f)
        sent.append(f.hex())
        resps.append(r.hex() if r is not None else "none")
        if is_foreign and r is not None:
            findings.append(("target-answers-foreign-did", "Target with DID %s answered %s to the frame %s addressed to "
                             "another target" % (o(did), r.hex(), f.hex())))
        return r

    def perturb(next_body, last_body, pni):
        k = rng.randrange(12)
        fd = rng.choice(foreign)
        if k == 0 and next_body is not None:      # the next request, for another target
            pfb = next_body[2]
            data = next_body[3 + (did is not None):]
            send(dep_body(True, pfb >> 4, pfb & 3, fd, None, data), True)
        elif k == 1:
            send(dep_body(True, 8, 0, fd, None, b""), True)
        elif k == 2:
            send(dep_body(True, 5, pni, fd, None, b""), True)
        elif k == 3:
            send(bytes([0xD4, rng.choice([8, 10])]) + (bytes([fd]) if fd is not None else b""), True)
        elif k == 4:
            send(dep_body(True, rng.choice([0, 1, 4]), rng.randrange(4), fd, rng.choice([None, 5]), bytes([0xEE] * rng.randrange(0, 3))), True)
        elif k == 5:
            send(dep_body(True, 8, 0, did, None, b""))
        elif k == 6:
            send(dep_body(True, 5, pni, did, None, b""))
        elif k == 7 and last_body is not None:    # retransmission
            send(last_body)
        elif k == 8:
            own_tox[0] = True
            send(dep_body(True, 9, 0, did, None, bytes([rng.choice([1, 2, 59])])))
        elif k == 9:
            send(bytes([0xD4, 4, did or 0, 0, 0]), did is None or False)   # PSL_REQ (did attribute 0 when unused)
        elif k == 10:
            H.corrupt()
            sent.append("c")
            resps.append("c")
        elif k == 11 and next_body is not None:   # the next request with a NAD (nfcpy ignores the NAD)
            pfb = next_body[2]
            data = next_body[3 + (did is not None):]
            send(dep_body(True, pfb >> 4, pfb & 3, did, 5, data))

    pni, last, silent = 0, None, 0
    done = False
    for p in pi:
        chunks = [p[i:i + miu_i] for i in range(0, len(p), miu_i)]
        for ci, ch in enumerate(chunks):
            body = dep_body(True, 1 if ci < len(chunks) - 1 else 0, pni, did, None, ch)
            while rng.random() < 0.45:
                perturb(body, last, pni)
            r = send(body)
            last = body
            if r is None:
                done = True
                break
            pni = (pni + 1) & 3
        if done:
            break
        # collect the answer, acknowledge chained chunks
        while r is not None and (r[(2 if brty == "106A" else 1) + 2] >> 4) == 1:
            body = dep_body(True, 4, pni, did, None, b"")
            while rng.random() < 0.45:
                perturb(body, last, pni)
            r = send(body)
            last = body
            pni = (pni + 1) & 3
        if r is None:
            break
    for _ in range(rng.randrange(0, 3)):
        perturb(None, last, pni)
    if rng.random() < 0.5:
        send(bytes([0xD4, rng.choice([8, 10])]) + (bytes([did]) if did is not None else b""))
    got, status = H.stop()
    real = "R %s | T %s %s" % (",".join(resps) or "-", plist(got), status)
    if got != pi[:len(got)]:
        key = "f41-repeated-rtox-request-accepted" if own_tox[0] else "target-payload-wrong-duplicated-or-reordered"
        findings.append((key, "Target.exchange returned %s, the initiator sent %s" % (plist(got), plist(pi))))
    if status.startswith("exc ") and status[4:] not in COMM:
        findings.append(("target-internal-exception-" + status[4:], "Target.exchange raised %s (%s)" % (status, H.msg)))
    return (brty, did, miu_t, sent, pt), real, findings


def canon_pdu(obj, raw_body):
    import nfc.dep as D
    if isinstance(obj, (D.DEP_REQ, D.DEP_RES)):
        return "dep %d %d %s %s %s" % (obj.pfb.fmt, obj.pfb.pni, o(obj.did), o(obj.nad), hx(obj.data))
    if isinstance(obj, (D.RLS_REQ, D.RLS_RES)):
        return "rls %s" % o(obj.did)
    if isinstance(obj, (D.DSL_REQ, D.DSL_RES)):
        return "dsl %s" % o(obj.did)
    if isinstance(obj, (D.ATR_REQ, D.ATR_RES)):
        return "atr %s" % hx(raw_body[2:])
    if isinstance(obj, (D.PSL_REQ, D.PSL_RES)):
        return "psl %s" % hx(raw_body[2:])
    return "unknown %r" % (obj,)


def codec_cases(ck, rng):
    """(model line, real outcome, oracle failure or None)"""
    import nfc.clf
    import nfc.dep as D
    out = []
    n = 1500 if ck.thorough else 300
    ini = D.Initiator(None)
    tgt = D.Target(None)
    for i in range(n):
        brty = rng.choice(["106A", "212F"])
        req = rng.random() < 0.5
        ini.target = nfc.clf.RemoteTarget(brty)
        tgt.target = nfc.clf.LocalTarget(brty)
        kind = rng.choice(["dep", "dep", "dep", "dsl", "rls", "psl", "atr", "bad"])
        did = rng.choice([None, 0, 3, 255])
        nad = rng.choice([None, None, 5])
        if kind == "dep":
            fmt = rng.choice([0, 1, 4, 5, 8, 9, 2, 15])
            pni = rng.randrange(4)
            data = bytes(rng.randrange(256) for _ in range(rng.choice([0, 1, 2, 60, 61, 200, 248, 249, 250, 251, 252])))
            body = dep_body(req, fmt, pni, did, nad, data)
            pdu = (D.DEP_REQ if req else D.DEP_RES)(D.DEP_REQ.PFB(fmt, nad is not None, did is not None, pni), did, nad, bytearray(data))
            side = tgt if not req else ini        # encoder: Initiator encodes requests, Target responses
            try:
                real = "ok " + hx(side.encode_frame(pdu))
            except Exception as e:  # noqa
                real = "exc " + exc_name(e)
            orc = None
            if len(body) + 1 <= 255 and real != "ok " + hx(frame(brty, body)):
                orc = ("dep-encode-wrong", "encode_frame gives %s, format says %s" % (real, frame(brty, body).hex()))
            out.append(("encdep %d %d %d %d %s %s %s" % (brty == "106A", req, fmt, pni, o(did), o(nad), hx(data)), real,
                        ("enc", brty, req, body), orc))
        elif kind in ("dsl", "rls"):
            code = (8 if kind == "dsl" else 10) + (0 if req else 1)
            body = bytes([0xD4 if req else 0xD5, code]) + (bytes([did]) if did is not None else b"")
        elif kind == "psl":
            body = bytes([0xD4 if req else 0xD5, 4 if req else 5]) + bytes(rng.randrange(256) for _ in range(rng.choice([0, 1, 2, 3, 3, 4])))
        elif kind == "atr":
            body = bytes([0xD4 if req else 0xD5, 0 if req else 1]) + bytes(rng.randrange(256) for _ in range(rng.choice([0, 1, 13, 14, 15, 16, 20, 40])))
        else:
            body = bytes([rng.choice([0xD4, 0xD5, 0x00]), rng.randrange(16)]) + bytes(rng.randrange(256) for _ in range(rng.randrange(0, 4)))
        if len(body) + 1 > 255:
            continue
        f = frame(brty, body)
        variants = [f]
        m = bytearray(f)
        m[rng.randrange(len(m))] ^= 1 << rng.randrange(8)
        variants.append(bytes(m))
        variants.append(f[:rng.randrange(2 if brty == "106A" else 1, len(f) + 1)])
        variants.append(f + b"\x00")
        variants.append(f[:rng.randrange(0, 3)])      # empty frame, lone start or length byte
        for v in variants:
            b = v[(1 if brty == "106A" else 0):]
            side = tgt if req else ini
            try:
                obj = side.decode_frame(bytearray(v))
                real = "ok " + canon_pdu(obj, b[1:])
            except Exception as e:  # noqa
                real = "exc " + exc_name(e)
            out.append(("dec %d %d %s" % (brty == "106A", req, hx(v)), real, ("dec", brty, req, v), None))
    return out


# ------------------------------------------------------------------ main
def run(ck):
    ck.tables("TablesDep")   # T-tie for constants: source tables re-extracted, bridge theorems re-proved
    from sims import dep_air
    rng = ck.rng
    ck.rule = ("case = (bit rate framing, DID, NAD, LRi, LRt, MIU override, fault script, release mode, payload lists "
               "both ways) run on two real nfc.dep objects and on the Lean model; non-trivial = the script contains at "
               "least one fault or a payload is chained; scripted-responder and codec cases are counted in their own "
               "buckets; distinct by hash of the canonical case")
    ck.assumptions += [
        "the driver below clf.exchange maps a corrupted frame to TransmissionError and a lost one to TimeoutError (C13); "
        "frames are never duplicated, reordered or altered undetected by the air",
        "time.time() is abstracted: a lost frame advances the virtual clock by the timeout passed to clf.exchange, the "
        "fault `x` additionally lets the deadline of the running send_dep_req_recv_dep_res expire; the Target's own "
        "deadline never expires while the Initiator is alive",
        "the Target application answers the k-th received payload with its k-th payload and never requests a timeout "
        "extension; RTOX is modelled on the Initiator side only (tie against a scripted responder)",
        "the state machines work on decoded PDUs; bytes on the air are obtained with the modelled codec, for which "
        "decode(encode(p)) = p is proved (dep_codec_roundtrip)",
        "the model functions equal the Python functions outside the compared inputs (D-tie is exhaustive only for "
        "fault placements of the listed short conversations)",
    ]
    ck.trusted += ["hand-written Lean model NfcVerif.Model.NfcDep, tied by differential runs",
                   "harness/sims/dep_air.py (in-memory air, rendezvous between the two real nfc.dep objects, virtual clock)",
                   "harness/props/c04.py (generators, oracle)"]
    ck.lean("NfcVerif.Props.C04", THEOREMS)
    tie_seen = {}

    def tie_fail(key, what, replay):
        # report few disagreements per tie so that failing inputs of the oracle are never crowded out
        tie_seen[key] = tie_seen.get(key, 0) + 1
        if tie_seen[key] <= 4:
            ck.fail(key, what, replay)
    if ck.thorough:
        ck.leanchecker(["NfcVerif.Props.C04"])
    model = Model("drv_c04")

    # ---------------------------------------------------------- which tree is this? (witnesses of the known defects)
    variant = probe_variant(ck)
    ck.notes.append("variant of the tree under test (F20,F26,F27,F40,F41; 1 = repaired): " + variant)

    # activation table from the model
    combos = [(lri, lrt, did, nad) for lri in range(4) for lrt in range(4) for did in (None, 0, 1, 3, 7, 9, 14, 255) for nad in (None, 5)]
    rep = model.ask_many(["act %d %d %s %s %s" % (a, b, o(d), o(n), variant[0]) for a, b, d, n in combos])
    act = {k: tuple(v.split(" ")) for k, v in zip(combos, rep)}

    # ---------------------------------------------------------- cases
    cases = []
    # witnesses of the known defects (regression corpus)
    cases.append(mk("106A", 3, None, 0, 0, None, None, "", 2, [b"\x01"], [bytes(range(61))], "corpus:f20"))
    cases.append(mk("212F", 3, None, 3, 3, None, None, "", 2, [b"\x01"], [bytes(251)], "corpus:f20-254"))
    cases.append(mk("106A", 3, None, 0, 0, 4, 4, "l", 2, [b"\x01\x02"], [b"\x81"], "corpus:f26"))
    cases.append(mk("106A", None, None, 0, 0, 4, 4, "dc", 2, [b"\x01\x02\x03\x04\x05\x06"], [b"\x81"], "corpus:f27"))
    cases.append(mk("106A", None, None, 0, 0, 4, 4, "lddx", 2, [b"\x01\x02"], [b"\x81"], "corpus:f40"))

    k = 3 if ck.thorough else 2
    convs = short_conversations()
    for ci, conv in enumerate(convs):
        base = run_real(conv)
        length = len(base.wire) + 2
        kk = k if (ck.thorough or ci < 2) else 1
        alphabet = "lcx" if ci < 3 else "lc"
        n0 = len(cases)
        for s in fault_scripts(length, kk, alphabet):
            c = Case(conv)
            c["script"] = s
            c["bucket"] = conv.bucket + ":<=%d-faults" % kk
            cases.append(c)
        ck.notes.append("conversation %s: %d frames fault-free, all scripts with <= %d faults from {%s} over the first %d "
                        "frames: %d scripts" % (conv.bucket, len(base.wire), kk, alphabet, length, len(cases) - n0))
    nrand = 4000 if ck.thorough else 500
    for i in range(nrand):
        cases.append(random_case(rng, long_conv=(i % 5 == 0), did0=variant[1] == "1"))
    for i in range(1500 if ck.thorough else 250):
        cases.append(isolated_case(rng))
    lines, reals = [], []
    dis = 0
    for c in cases:
        try:
            r = run_real(c)
        except dep_air.Stall as e:
            ck.fail("dep-stall", "the two nfc.dep objects stalled: %s" % e, replay_of(c))
            continue
        # activation: model vs real
        im, tm, td = act[(c.lri, c.lrt, c.did, c.nad)]
        if str(r.imiu) != im or (r.status_t != "inactive" and (str(r.tmiu), o(r.tdid)) != (tm, td)):
            dis += 1
            tie_fail("tie:c04-activation", "model miu/did %s, implementation %s" % ((im, tm, td), (r.imiu, r.tmiu, r.tdid)), replay_of(c))
        imiu = c.miu_i if c.miu_i is not None else int(im)
        tmiu = c.miu_t if c.miu_t is not None else int(tm)
        lines.append("run %d %s %s %s %d %d %s 100000 %s %d %s %s" % (
            c.brty == "106A", o(c.did), o(c.nad), td, imiu, tmiu, variant, c.script or "-", c.rel, plist(c.pi), plist(c.pt)))
        reals.append((c, r))
        nfault = sum(1 for f in c.script if f != "d")
        chained = any(len(p) > imiu for p in c.pi) or any(len(p) > tmiu for p in c.pt)
        ck.case((c.brty, c.did, c.nad, c.lri, c.lrt, c.miu_i, c.miu_t, c.script, c.rel, c.pi, c.pt), nfault > 0 or chained,
                c.bucket, sample={"case": replay_of(c), "impl": canon_real(r)} if len(ck.samples) < 3 and nfault > 1 else None)
        ck.count("faults:%d" % min(nfault, 5))
        ck.count("initiator:" + r.err_i)
        ck.count("target:" + r.status_t)
        if len(c.pi) >= 9 and r.err_i == "ok":
            ck.count("pni-wrapped-conversations")
        for key, what in oracle(ck, c, r):
            ck.fail(key, what, replay_of(c))
    replies = model.ask_many(lines)
    for (c, r), line, rep in zip(reals, lines, replies):
        real = canon_real(r)
        if rep != real:
            dis += 1
            tie_fail("tie:c04-model-vs-nfc.dep", "model %r, implementation %r" % (rep, real),
                    {"request": line, "model": rep, "impl": real, "case": replay_of(c)})
    ck.tie("NfcDep model vs two real nfc.dep objects over the faulty air", cases=len(reals), disagreements=dis, exhaustive=False)

    # ---------------------------------------------------------- Initiator against scripted responses (RTOX, NAK, ...)
    slines, sreal = [], []
    scases = [scripted_case(rng) for i in range(6000 if ck.thorough else 1200)]
    scases += list(recovery_probe_cases(rng, 3 if ck.thorough else 2))
    for brty, did, nad, miu, script, resp, payload in scases:
        wire, out = dep_air.run_scripted(brty, did, nad, miu, script, resp, payload, exc_name=exc_name)
        real = "W %s | I %s" % (",".join("%s%s:%s" % e for e in wire) or "-", out)
        slines.append("scr %d %s %s %d %s 100000 %s %s %s" % (
            brty == "106A", o(did), o(nad), miu, variant, script or "-",
            ",".join("none" if x is None else x.hex() for x in resp) or "-", hx(payload)))
        sreal.append(real)
        ck.case(("scr", brty, did, nad, miu, script, tuple(resp), payload), True, "scripted-responder")
        ck.count("scripted:" + out.split(" ")[0] + (":" + out.split(" ")[1] if out.startswith("exc") else ""))
    sdis = 0
    for line, real, rep in zip(slines, sreal, model.ask_many(slines)):
        if rep != real:
            sdis += 1
            tie_fail("tie:c04-initiator-vs-scripted-responder", "model %r, implementation %r" % (rep, real),
                    {"request": line, "model": rep, "impl": real})
    ck.tie("Initiator model vs real Initiator.exchange against scripted responses", cases=len(slines), disagreements=sdis, exhaustive=False)

    # ---------------------------------------------------------- Target against scripted requests (foreign DID ...)
    tlines, treal = [], []
    for i in range(5000 if ck.thorough else 700):
        try:
            (brty, did, miu_t, sent, tpt), real, findings = target_script_case(rng, exc_name)
        except dep_air.Stall as e:
            ck.fail("dep-stall", "scripted target stalled: %s" % e, {"case": i})
            continue
        line = "tgt %d %s %d %s %s %s" % (brty == "106A", o(did), miu_t, variant, ",".join(sent) or "-", plist(tpt))
        tlines.append(line)
        treal.append(real)
        ck.case(("tgt", brty, did, miu_t, tuple(sent), tuple(tpt)), True, "scripted-initiator")
        ck.count("scripted-initiator-frames", len(sent))
        for key, what in findings:
            ck.fail(key, what, {"request": line, "impl": real})
    tdis = 0
    for line, real, rep in zip(tlines, treal, model.ask_many(tlines)):
        if rep != real:
            tdis += 1
            tie_fail("tie:c04-target-vs-scripted-initiator", "model %r, implementation %r" % (rep, real),
                     {"request": line, "model": rep, "impl": real})
    ck.tie("Target model vs real Target driven frame by frame (foreign-DID, DID-less, NAD, repeated, RTOX, DSL/RLS frames "
           "at every position)", cases=len(tlines), disagreements=tdis, exhaustive=False)

    # ---------------------------------------------------------- oracle only: the Target application requests timeout extensions
    for i in range(3000 if ck.thorough else 400):
        c = isolated_case(rng) if i % 2 else random_case(rng, long_conv=(i % 7 == 0), did0=False)
        if "x" in c.script or any(len(p) == 0 for p in c.pi + c.pt):
            continue
        t_rtox = {k: rng.choice([1, 2, 3]) for k in range(len(c.pt)) if rng.random() < 0.4}
        if not t_rtox:
            t_rtox = {rng.randrange(len(c.pt)): 2}
        try:
            r = run_rtox(c, t_rtox)
        except dep_air.Stall as e:
            ck.fail("dep-stall", "the two nfc.dep objects stalled (RTOX run): %s" % e, replay_of(c))
            continue
        ck.case(("rtox", tuple(sorted(t_rtox.items())), c.brty, c.did, c.script, c.pi, c.pt), True, "target-rtox-oracle")
        rp = replay_of(c)
        rp["t_rtox"] = t_rtox
        # safety only: a fault on the RTOX PDUs themselves is not recoverable by design (the Initiator
        # refuses an RTOX response to NAK/ATN, pinned by the test-suite)
        for key, what in oracle(ck, c, r, recovery=False):
            if key.startswith("target-payload") and variant[4] == "0":
                key = "f41-repeated-rtox-request-accepted"
            ck.fail(key, what + " [Target application requested timeout extensions %s]" % t_rtox, rp)
    # F41 family: after the RTOX exchange the Target's next information PDU is lost or corrupted, at every
    # packet number: must be recovered, nothing invented
    for brty, did in (("106A", None), ("212F", 3)):
        pi6 = [bytes([i + 1]) for i in range(6)]
        pt6 = [bytes([0x81 + i, 0x91 + i, 0xA1 + i]) for i in range(6)]
        for k in range(6):
            for fault in "lc":
                c = mk(brty, did, None, 0, 0, 4, 2, "", 0, pi6, pt6, "f41-family")
                base = run_rtox(c, {k: 2})
                idx = [i for i, (d, h, f) in enumerate(base.wire) if d == ">" and "d4069" in h[:12]]
                if not idx:
                    ck.fail("tie:c04-rtox-family", "no RTOX request on the wire", replay_of(c))
                    continue
                c["script"] = "d" * (idx[0] + 1) + fault
                r = run_rtox(c, {k: 2})
                ck.case(("f41", brty, did, k, fault), True, "f41-family")
                rp = replay_of(c)
                rp["t_rtox"] = {k: 2}
                if r.got_t != pi6[:len(r.got_t)] or r.err_i != "ok" or r.got_t != pi6 or r.got_i != pt6:
                    ck.fail("f41-repeated-rtox-request-accepted",
                            "timeout extension before answer %d, then the Target's INF %s: Initiator %s (%s), Target returned %s, "
                            "status %s (%s)" % (k, {"l": "lost", "c": "corrupted"}[fault], r.err_i, r.msg_i, plist(r.got_t),
                                                 r.status_t, r.msg_t), rp)

    # ---------------------------------------------------------- codec
    cc = codec_cases(ck, rng)
    cdis = 0
    for (line, real, descr, orc), rep in zip(cc, model.ask_many([x[0] for x in cc])):
        ck.case(descr, True, "codec:" + descr[0])
        if rep != real:
            cdis += 1
            tie_fail("tie:c04-codec", "model %r, implementation %r" % (rep, real), {"request": line, "model": rep, "impl": real})
        if orc:
            ck.fail(orc[0], orc[1], {"request": line, "impl": real})
    ck.tie("frame codec model vs encode_frame/decode_frame of both roles", cases=len(cc), disagreements=cdis, exhaustive=False)
