"""C20 - tag authentication and MAC-protected reads cannot be fooled.

L1: theorems of NfcVerif.Props.C20.  Single call: DES / two-key triple DES are bijections (generic Feistel
    argument, permutation tables by a 64-case `decide`), the FeliCa Lite MAC over any cipher that is injective on
    blocks distinguishes messages that differ in exactly one 8-byte group, read_with_mac returns data only together
    with its MAC under the session key, a response whose data (one group) or MAC field was modified is refused,
    authenticate succeeds against the tag of the user manual holding the provisioned key (Lite, Lite-S external
    authentication, NTAG21x), NTAG21x authentication is exact (answers of any length).  Histories (many calls on one
    tag object, any air interface as a state machine): every session of every history is decided by ITS challenge
    and the frames that arrive in it, authenticate never reads the object's attributes, every read_with_mac of any
    number of blocks is one command whose MAC covers all returned data, write_with_mac reads WCNT from the card in
    every call, mutual authentication succeeds in every state of the stateful card (any write counter), hence in
    every session of a history and around a write_with_mac, a failed authentication leaves no session (repaired
    code) / the stale session counter-example (code as found).
L2: the Lean DES / triple DES / generateMac against pyDes and FelicaLite.generate_mac and against the independent
    Python DES of sims/auth_des.py; the Lean reader model against the REAL FelicaLite / FelicaLiteS / NTAG21x objects
    talking to simulated tags with responses modified in transit (every single bit, random multi-bit, substitutions,
    block swaps, truncation, PWD_AUTH answers of every length), deterministic challenge (os.urandom as seen from
    tt3_sony is a recorded queue); HISTORIES (c20_hist.py): sequences of authenticate / read_with_mac /
    write_with_mac / plain reads and writes / protect / card exchanged, on the untouched channel and with one frame
    modified, lost (also two and three times in a row: the retry loop) or replaced by a frame of another session,
    on the real object against the stateful Python card and on NfcVerif.AuthHist.run against the Lean card - every
    outcome, every command frame sent, the final card state, _authenticated, _sk, _iv are compared; the Lean card
    against the Python card on single commands; the Lean tag MAC mirror against the Python tag.
L3: oracle on the real code against the simulated tags: right key -> True, wrong key -> False in EVERY session of a
    history (the stateful card advances WCNT with every write and checks MAC_A), one fresh 16 octet os.urandom
    challenge per authenticate written to RC as it is and never reused (also with the real entropy source), a device
    without the key that replays the frames of an earlier session is refused, protect(pw) then authenticate(pw) ->
    True / other password -> False, key laid out on the tag as the manual wants it, no modification of data or MAC
    of a MAC-protected read of 0..6 blocks in any response of that read is ever returned as data, write_with_mac
    after an authentication is accepted by the card whatever was written before, no internal exception leaves
    authenticate()/read_with_mac()/write_with_mac()/protect(), data is not returned under the session of an
    authentication that was followed by a failed one (open finding stale-session-after-failed-auth).
    tag.ndef around authenticate(): every octet of tag.ndef.octets obtained after a successful authenticate() was read
    together with a MAC that verifies under the session of THAT authentication (independent MAC computation), the
    attribute block included; on NTAG21x the first tag.ndef after a successful authenticate()/protect() is read from
    the tag again (nothing cached from before is served); open finding ndef-mac-failure-typeerror.
    Whatever the code does that the case code cannot interpret is reported as a failing input of that case (Guard).
"""
import logging
import traceback

from common import Model, hx, exc_name, INTERNAL

logging.disable(logging.CRITICAL)

LEAN_TARGETS = ["NfcVerif.Props.C20", "drv_c20"]

THEOREMS = [
    "NfcVerif.C20.feistel_bijective",
    "NfcVerif.C20.ip_perm",
    "NfcVerif.C20.des_bijective",
    "NfcVerif.C20.tdes_bijective",
    "NfcVerif.C20.tdes_block_cipher",
    "NfcVerif.C20.mac_detects_block_change",
    "NfcVerif.C20.mac_detects_block_change_tdes",
    "NfcVerif.C20.mac_field_compared",
    "NfcVerif.C20.read_tamper_rejected",
    "NfcVerif.C20.ntag_auth_exact",
    "NfcVerif.C20.ntag_auth_response_exact",
    "NfcVerif.C20.auth_complete",
    "NfcVerif.C20.protect_then_auth_lite",
    "NfcVerif.C20.protect_then_auth_ntag",
    "NfcVerif.C20.protect_empty_password",
    "NfcVerif.C20.lite_s_write_mac_accepted",
    "NfcVerif.C20.auth_sound_partial",
    # histories: many calls on one tag object (Model/AuthHist.lean, Model/AuthCard.lean)
    "NfcVerif.C20.session_sound_every_history",
    "NfcVerif.C20.challenge_written_is_session_challenge",
    "NfcVerif.C20.session_sound_every_history_lite_s",
    "NfcVerif.C20.auth_verdict_independent_of_object_state",
    "NfcVerif.C20.read_covered_every_history",
    "NfcVerif.C20.write_counter_read_in_every_write",
    "NfcVerif.C20.failed_auth_leaves_no_session_repaired",
    "NfcVerif.C20.stale_session_counterexample",
    "NfcVerif.C20.stale_session_repaired_example",
    "NfcVerif.C20.mutual_auth_complete_every_card_state",
    "NfcVerif.C20.every_session_complete",
    "NfcVerif.C20.auth_write_auth_complete",
    "NfcVerif.C20.protect_then_authenticate_complete",
    # the public attribute tag.ndef around authenticate() (Model/AuthNdef.lean)
    "NfcVerif.C20.ndef_after_auth_is_mac_verified",
    "NfcVerif.C20.auth_drops_ndef_cache",
    "NfcVerif.C20.ndef_read_again_after_authenticate",
    "NfcVerif.C20.short_frame_refused",
    "NfcVerif.C20.ntag_auth_true_length",
]


class Guard(object):
    """one explored case: whatever nfcpy does that the oracle / tie code did not foresee (an exception in the
    harness code that handles its answers, a return value of another type ...) is a failing input of that case,
    never the end of the exploration"""

    def __init__(self, ck, section, info=None):
        self.ck, self.section, self.info = ck, section, info

    def __enter__(self):
        return self

    def __exit__(self, et, ev, tb):
        if et is None or not issubclass(et, Exception) or et.__name__ == "Infra":
            return False
        frames = ["%s:%d %s" % (f.filename.split("/")[-1], f.lineno, f.name) for f in traceback.extract_tb(tb)[-4:]]
        info = self.info() if callable(self.info) else (self.info or {})
        self.ck.fail("unforeseen-behaviour-" + self.section,
                     "%s: the code under test behaved in a way the check of this case cannot interpret: %s: %s (%s)"
                     % (self.section, et.__name__, ev, frames[-1]), dict(info, exception=repr(ev), frames=frames))
        return True


def outcome(fn, show):
    try:
        return "ok " + show(fn())
    except Exception as e:  # noqa
        return "exc " + exc_name(e)


def show_bool(r):
    return "true" if r is True else "false" if r is False else "other:%r" % (r,)


def show_opt(r):
    return "none" if r is None else hx(r)


class Tamper(object):
    """modification of frames in transit: {(direction, exchange index): function(frame) -> frame | None}"""

    def __init__(self, rules=None):
        self.rules = rules or {}

    def __call__(self, direction, index, frame):
        f = self.rules.get((direction, index))
        return frame if f is None else f(frame)


def xor_mask(mask):
    def f(frame):
        out = bytearray(frame)
        for i, m in enumerate(mask[:len(out)]):
            out[i] ^= m
        return bytes(out)
    return f


def bit_mask(n, bit):
    m = bytearray(n)
    m[bit // 8] = 1 << (bit % 8)
    return bytes(m)


def run(ck):
    import nfc.tag.tt3_sony as tt3_sony
    from pyDes import des, triple_des, ECB, CBC
    from sims import auth_des as D, auth_felica as F, auth_ntag as N

    rng = ck.rng
    T = ck.thorough
    ck.rule = ("cases: (function, key/password material, challenge, block selection, modification in transit) and histories "
               "(product, initial card incl. write counter and MC, sequence of calls authenticate / read_with_mac / "
               "write_with_mac / plain read and write / protect / card exchanged, one challenge per authentication, "
               "channel rule: bit flip, frame lost, frame of another session replayed); cipher and MAC cases count as "
               "non-trivial when data is non-empty; protocol cases when a response was modified or the key differs from the "
               "tag's; histories always; distinct by hash of the canonical case")
    ck.assumptions += [
        "cryptography, NOT proved: 3DES-CBC-MAC unforgeability - that no party without the card key produces an accepted "
        "MAC, that messages differing in more than one 8-byte group do not collide (64-bit MAC collisions exist), that "
        "MACs under the session keys of two different challenges differ, and therefore 'authenticate is true exactly "
        "when the tag holds the key' in the direction true => key held and 'a replayed response of another session is "
        "refused'; proved are completeness (in every card state), exact comparison of all MAC/PACK octets, detection of "
        "changes confined to one group, and that every session is decided by its own challenge and the frames that "
        "arrive in it; the oracle exercises the rest (devices without the key, replays, multi-group changes)",
        "protocol, not code: the FeliCa Lite MAC covers the block DATA, not the block numbers and not a counter - "
        "within ONE session the answer to another read (or an earlier answer to the same read), and the answer to a "
        "read command whose block list was modified on its way to the card, verify; such substitutions are not generated "
        "as violations (nfcpy does not use the Lite-S MAC_A read that binds block numbers)",
        "a password selects the key by its first 16 (FeliCa Lite/Lite-S) or 6 (NTAG21x) octets; 'another password' means "
        "another derived key",
        "tag behaviour as in the FeliCa Lite / Lite-S user manuals and the NTAG21x data sheet (sims/auth_felica.py: "
        "stateful card with RC, WCNT advanced by every accepted write, STATE, MAC_A check, MC access conditions; "
        "sims/auth_ntag.py; Lean mirrors NfcVerif.AuthCard.Card, NfcVerif.Auth.LiteTag / NtagTag, compared on every run)",
        "os.urandom is the entropy source of the challenge (replaced by a recorded queue inside nfc.tag.tt3_sony for the "
        "deterministic runs; one run with the real source checks that successive challenges differ)",
        "histories: protect() with protect_from=0 (NDEF probing by polling) and block numbers above 255 are outside the "
        "history model; protect_from=0 is covered by the single-call oracle",
        "the model functions equal the Python functions outside the compared inputs (D-tie is a sample)",
    ]
    ck.trusted += ["hand-written Lean models NfcVerif.Model.Des / Mac / Auth / AuthCard / AuthHist, tied by differential runs",
                   "harness/props/c20.py, c20_hist.py, harness/sims/auth_des.py (independent DES), auth_felica.py, auth_ntag.py",
                   "pyDes as the cipher nfcpy calls (compared with two other DES implementations)"]
    ck.lean("NfcVerif.Props.C20", THEOREMS)
    if T:
        ck.leanchecker(["NfcVerif.Props.C20"])
    model = Model("drv_c20")

    reqs = []      # (tie name, request line, real outcome)

    def add(tie, line, real, descr, nontrivial, bucket):
        reqs.append((tie, line, real))
        ck.case(descr, nontrivial, bucket,
                sample={"request": line[:400], "impl": real[:200]} if len(ck.samples) < 2 or rng.random() < 0.0005 else None)

    def rb(n):
        return bytes(rng.randrange(256) for _ in range(n))

    from props import c20_hist as H
    fake_os = H.DetOs()
    saved_os = tt3_sony.os
    tt3_sony.os = fake_os
    try:
        _cipher(ck, rng, T, add, rb, D, des, triple_des, ECB, CBC, tt3_sony)
        _felica(ck, rng, T, add, rb, D, F, fake_os, tt3_sony)
        _histories(ck, rng, T, add, H, fake_os)
        _ntag(ck, rng, T, add, rb, N)
    finally:
        tt3_sony.os = saved_os
    with Guard(ck, "challenge-entropy"):
        _entropy(ck, F, tt3_sony)

    replies = model.ask_many([r[1] for r in reqs])
    per = {}
    for (tie, line, real), rep in zip(reqs, replies):
        c = per.setdefault(tie, [0, 0])
        c[0] += 1
        if rep != real:
            c[1] += 1
            ck.fail("tie:c20-" + tie, "model %r, implementation %r" % (rep[:200], real[:200]),
                    {"request": line, "model": rep, "impl": real})
    for tie, (n, d) in sorted(per.items()):
        ck.tie(tie, cases=n, disagreements=d, exhaustive=False)


# ------------------------------------------------------------------------------------------------ cipher and MAC
def _cipher(ck, rng, T, add, rb, D, des, triple_des, ECB, CBC, tt3_sony):
    gm = tt3_sony.FelicaLite.generate_mac
    n = 1500 if T else 150
    fixed = [(bytes(8), bytes(8)), (b"\xff" * 8, b"\xff" * 8), (bytes.fromhex("133457799BBCDFF1"), bytes.fromhex("0123456789ABCDEF")),
             (bytes.fromhex("0101010101010101"), bytes.fromhex("8000000000000000"))]
    for i in range(n):
        with Guard(ck, 'cipher', None):
            k, b = fixed[i] if i < len(fixed) else (rb(8), rb(8))
            if i >= len(fixed) and i % 7 == 0:          # one-bit keys / blocks: every table entry is exercised separately
                b = (1 << rng.randrange(64)).to_bytes(8, "big")
            if i >= len(fixed) and i % 7 == 1:
                k = (1 << rng.randrange(64)).to_bytes(8, "big")
            e = des(k, ECB).encrypt(b)
            d = des(k, ECB).decrypt(b)
            ki, bi = int.from_bytes(k, "big"), int.from_bytes(b, "big")
            if D.des_enc(ki, bi).to_bytes(8, "big") != e or D.des_dec(ki, bi).to_bytes(8, "big") != d:
                ck.fail("tie:c20-des-independent", "pyDes and the independent DES differ for key %s block %s" % (k.hex(), b.hex()),
                        {"key": k.hex(), "block": b.hex()})
            add("des", "des.enc %s %s" % (hx(k), hx(b)), "ok " + hx(e), ("des.enc", k, b), True, "cipher:des")
            add("des", "des.dec %s %s" % (hx(k), hx(b)), "ok " + hx(d), ("des.dec", k, b), True, "cipher:des")
            k16 = rb(16) if i % 5 else k + k
            add("des", "tdes.enc %s %s" % (hx(k16), hx(b)), "ok " + hx(triple_des(k16, ECB).encrypt(b)), ("tdes.enc", k16, b), True, "cipher:tdes")
            add("des", "tdes.dec %s %s" % (hx(k16), hx(b)), "ok " + hx(triple_des(k16, ECB).decrypt(b)), ("tdes.dec", k16, b), True, "cipher:tdes")
    for i in range(3000 if T else 400):
        with Guard(ck, 'generate-mac', None):
            nb = rng.choice([0, 1, 1, 2, 2, 3, 4, 5, 6, 9])
            data, key, iv, flip = rb(8 * nb), rb(16), rb(8), rng.random() < 0.4
            r = rng.random()
            if r < 0.04:
                data = rb(8 * nb + rng.randrange(1, 8))
            elif r < 0.07:
                key = rb(rng.choice([0, 8, 15, 17, 24]))
            elif r < 0.10:
                iv = rb(rng.choice([0, 7, 9, 16]))
            real = outcome(lambda: gm(data, key, iv, flip), hx)
            add("generate_mac", "mac %s %s %s %02x" % (hx(data), hx(key), hx(iv), 1 if flip else 0), real,
                ("mac", data, key, iv, flip), len(data) > 0, "mac:%s" % ("ok" if real.startswith("ok") else real[4:]))
            if real.startswith("ok") and len(data) >= 8 and len(key) == 16 and len(iv) == 8:
                # independent computation (words, little endian): key words are the reversed halves
                kb = (key[8:] + key[:8]) if flip else key
                x = D.le(iv[::-1])
                for j in range(0, len(data), 8):
                    x = D.tdes2_enc(int.from_bytes(kb[:8], "big"), int.from_bytes(kb[8:], "big"), x ^ D.le(data[j:j + 8]))
                if x.to_bytes(8, "little") != bytes.fromhex(real[3:]):
                    ck.fail("mac-differs-from-manual", "generate_mac(%s,%s,%s,%s) = %s, manual gives %s"
                            % (data.hex(), key.hex(), iv.hex(), flip, real, x.to_bytes(8, "little").hex()), {"data": data.hex(), "key": key.hex(), "iv": iv.hex(), "flip": flip})
    for i in range(300 if T else 60):
        with Guard(ck, 'session-key', None):
            key, rc = rb(16), rb(16)
            real = "ok " + hx(triple_des(key, CBC, bytes(8)).encrypt(rc))
            add("generate_mac", "sk %s %s" % (hx(key), hx(rc)), real, ("sk", key, rc), True, "mac:sessionkey")
            # the Lean mirror of the tag against the Python tag
            ck_block, rc_block = rb(16), rb(16)
            data = rb(16 * rng.randrange(1, 4))
            add("tag-mirror", "tag.mac %s %s %s" % (hx(ck_block), hx(rc_block), hx(data)), "ok " + hx(D.lite_mac(ck_block, rc_block, data)),
                ("tag.mac", ck_block, rc_block, data), True, "mirror:mac")
            wcnt, blk, d16 = rb(3), rng.randrange(256), rb(16)
            add("tag-mirror", "tag.maca %s %s %s %02x %s" % (hx(ck_block), hx(rc_block), hx(wcnt), blk, hx(d16)),
                "ok " + hx(D.lite_s_mac_a_write(ck_block, rc_block, wcnt, blk, d16)), ("tag.maca", ck_block, rc_block, wcnt, blk, d16), True, "mirror:maca")


# ------------------------------------------------------------------------------------------------ FeliCa Lite / Lite-S
def response_masks(rng, frame, T, budget):
    """modifications of one response frame: (kind, function, touched octet positions or None for length changes)"""
    n = len(frame)
    bits = list(range(8 * n))
    if len(bits) > budget:
        bits = sorted(rng.sample(bits, budget))
    for b in bits:
        yield "bit", xor_mask(bit_mask(n, b)), {b // 8}
    for _ in range(40 if T else 10):                       # random multi-bit
        m = bytearray(n)
        pos = set()
        for _ in range(rng.randrange(2, 9)):
            p = rng.randrange(12, n) if n > 12 else rng.randrange(n)
            m[p] ^= 1 << rng.randrange(8)
            pos.add(p)
        pos = {p for p in pos if m[p]}
        if pos:
            yield "multibit", xor_mask(bytes(m)), pos
    for _ in range(12 if T else 4):                        # whole octets replaced
        m = bytearray(n)
        pos = set()
        for _ in range(rng.randrange(1, 5)):
            p = rng.randrange(13, n) if n > 13 else rng.randrange(n)
            m[p] = rng.randrange(1, 256)
            pos.add(p)
        yield "substitute", xor_mask(bytes(m)), pos


def _felica(ck, rng, T, add, rb, D, F, fake_os, tt3_sony):
    idm = F.IDM

    def fresh(lite_s, ck_block, transit=None):
        tag = F.LiteTag(ck_block, lite_s)
        for n in range(1, 14):
            tag.b[n] = bytearray(rb(16))
        air, t = F.activate(tag, transit)
        return tag, air, t

    def auth_real(t, pw, rc):
        fake_os.next = [rc]
        real = outcome(lambda: t.authenticate(pw), show_bool)
        fake_os.next = []
        return real

    def arrived(air, k):
        out = [r for (_, _, r) in air.trace]
        return [hx(r) if r is not None else "-" for r in out[:k]] + ["-"] * (k - len(out))

    # ---------------- authenticate: passwords and keys, clean channel
    for i in range(300 if T else 60):
        with Guard(ck, 'felica-authenticate', None):
            lite_s = bool(i % 2)
            key = rb(16) if i % 6 else bytes(16)
            kind = ["right", "right-long", "wrong", "wrong-1bit", "empty", "short"][rng.randrange(6)] if i > 12 else \
                ["right", "right-long", "wrong", "wrong-1bit", "empty", "short"][i % 6]
            if kind == "right":
                pw = key
            elif kind == "right-long":
                pw = key + rb(rng.randrange(1, 9))
            elif kind == "wrong":
                pw = rb(16 + rng.randrange(0, 4))
            elif kind == "wrong-1bit":
                b = rng.randrange(128)
                pw = bytes(x ^ (1 << (b % 8) if j == b // 8 else 0) for j, x in enumerate(key))
            elif kind == "empty":
                pw = b""
            else:
                pw = rb(rng.randrange(1, 16))
            if rng.random() < 0.3:
                pw = bytearray(pw)
            tag, air, t = fresh(lite_s, F.key_block(key))
            rc = rb(16)
            real = auth_real(t, pw, rc)
            # DES ignores the least significant bit of every key octet (parity): keys are compared without them
            held = bytes(x & 0xFE for x in (bytes(pw[:16]) if len(pw) else bytes(16))) == bytes(x & 0xFE for x in key)
            if len(pw) and len(pw) < 16:
                if real != "exc ValueError":
                    ck.fail("short-password-accepted", "authenticate(%r) on %s -> %s" % (bytes(pw), type(t).__name__, real),
                            {"password": bytes(pw).hex()})
            elif real != ("ok true" if held else "ok false"):
                ck.fail("auth-wrong-verdict", "%s tag holds key %s, authenticate(%s) -> %s"
                        % (type(t).__name__, key.hex(), bytes(pw).hex(), real),
                        {"product": type(t).__name__, "tag_key": key.hex(), "password": bytes(pw).hex(), "challenge": rc.hex()})
            if t.is_authenticated != (real == "ok true"):
                ck.fail("auth-status-differs", "is_authenticated=%r after authenticate -> %s" % (t.is_authenticated, real),
                        {"tag_key": key.hex(), "password": bytes(pw).hex()})
            rs = arrived(air, 5)
            if lite_s:
                add("lite-s-authenticate", "lites.auth %s %s %s %s" % (hx(idm), hx(pw), hx(rc), " ".join(rs)), real,
                    ("lites.auth", bytes(pw), key, rc), not held, "auth:lite-s:" + kind)
            else:
                m = real + (" %s %s" % (hx(t._sk), hx(t._iv)) if real == "ok true" else "")
                add("lite-authenticate", "lite.auth %s %s %s %s %s" % (hx(idm), hx(pw), hx(rc), rs[0], rs[1]), m,
                    ("lite.auth", bytes(pw), key, rc), not held, "auth:lite:" + kind)
            if len(pw) == 0 or len(pw) >= 16:
                cmds = [c for (_, c, _) in air.trace]
                add("lite-authenticate", "lite.cmds %s %s %s" % (hx(idm), hx(pw), hx(rc)),
                    "ok %s %s %s" % (hx(bytes([32, 8]) + idm + bytes([1, 9, 0, 1, 0x80, 0x87]) + F.key_block(bytes(pw[:16]) if len(pw) else bytes(16))),
                                     hx(cmds[0]), hx(cmds[1])), ("lite.cmds", bytes(pw), rc), True, "auth:commands")

    # ---------------- authenticate: responses modified in transit
    nbase = 6 if T else 2
    for lite_s in (False, True):
        for base in range(nbase):
            with Guard(ck, 'felica-authenticate-tamper', None):
                key = rb(16)
                wrong = base % 3 == 2                       # a tag that does NOT hold the key: must never become True
                tagkey = rb(16) if wrong else key
                rc = rb(16)
                tag, air, t = fresh(lite_s, F.key_block(tagkey))
                auth_real(t, key, rc)
                clean = [r for (_, _, r) in air.trace]
                for xi, frame in enumerate(clean):
                    # quick tier: every bit of the two MAC-carrying read responses of the first base case, samples elsewhere
                    budget = (8 * len(frame)) if (T or (base == 0 and xi in (1, 4))) else 20
                    for kind, fn, pos in response_masks(rng, frame, T, budget):
                        with Guard(ck, 'felica-authenticate-tamper', None):
                            tag, air, t = fresh(lite_s, F.key_block(tagkey), Tamper({("r", xi): fn}))
                            real = auth_real(t, key, rc)
                            what = "%s holds %s key, response %d modified (%s at %s): authenticate -> %s" % (
                                type(t).__name__, "another" if wrong else "the", xi, kind, sorted(pos), real)
                            rep = {"product": type(t).__name__, "tag_key": tagkey.hex(), "password": key.hex(), "challenge": rc.hex(),
                                   "exchange": xi, "clean_response": frame.hex(), "arrived": air.trace[xi][2].hex() if len(air.trace) > xi else None}
                            if real.startswith("exc") and real[4:] in INTERNAL:
                                ck.fail("lite-s-auth-mac-failure-typeerror" if real == "exc TypeError" and lite_s and xi == 4
                                        else "auth-internal-exception", what, rep)
                            if real == "ok true" and wrong:
                                ck.fail("auth-forged", what, rep)
                            # octets 13.. of a read response are block data, the MAC is the first half of the last block
                            if real == "ok true" and xi in (1, 4) and any(13 <= p < len(frame) - 8 for p in pos):
                                ck.fail("auth-tampered-mac-accepted", what, rep)
                            rs = arrived(air, 5)
                            if lite_s:
                                add("lite-s-authenticate", "lites.auth %s %s %s %s" % (hx(idm), hx(key), hx(rc), " ".join(rs)), real,
                                    ("lites.auth", key, tagkey, rc, xi, air.trace[xi][2] if len(air.trace) > xi else None), True,
                                    "auth:lite-s:tamper:%s:%s" % (kind, real[:8]))
                            else:
                                m = real + (" %s %s" % (hx(t._sk), hx(t._iv)) if real == "ok true" else "")
                                add("lite-authenticate", "lite.auth %s %s %s %s %s" % (hx(idm), hx(key), hx(rc), rs[0], rs[1]), m,
                                    ("lite.auth", key, tagkey, rc, xi, air.trace[xi][2] if len(air.trace) > xi else None), True,
                                    "auth:lite:tamper:%s:%s" % (kind, real[:8]))

    # ---------------- commands modified or lost in transit (oracle only)
    for lite_s in (False, True):
        with Guard(ck, 'felica-command-tamper', None):
            key, rc = rb(16), rb(16)
            tag, air, t = fresh(lite_s, F.key_block(key))
            auth_real(t, key, rc)
            cmds = [c for (_, c, _) in air.trace]
            for xi, frame in enumerate(cmds):
                bits = list(range(8 * len(frame)))
                if not T:
                    bits = rng.sample(bits, 16)
                for b in bits + [None]:
                    with Guard(ck, 'felica-command-tamper', None):
                        fn = (lambda f: None) if b is None else xor_mask(bit_mask(len(frame), b))
                        tag, air, t = fresh(lite_s, F.key_block(key), Tamper({("c", xi): fn}))
                        real = auth_real(t, key, rc)
                        ck.case(("auth.cmd", lite_s, xi, b, key, rc), True, "auth:command-tamper:" + real[:8])
                        if real.startswith("exc") and real[4:] in INTERNAL:
                            ck.fail("lite-s-auth-mac-failure-typeerror" if real == "exc TypeError" and lite_s else "auth-internal-exception",
                                    "%s: command %d modified (bit %s): authenticate -> %s" % (type(t).__name__, xi, b, real),
                                    {"product": type(t).__name__, "tag_key": key.hex(), "password": key.hex(), "challenge": rc.hex(),
                                     "exchange": xi, "command_bit": b})

    # ---------------- read_with_mac
    nbase = 10 if T else 3
    for base in range(nbase):
        with Guard(ck, 'read-with-mac', None):
            lite_s = bool(base % 2)
            key, rc = rb(16), rb(16)
            tag, air, t = fresh(lite_s, F.key_block(key))
            if auth_real(t, key, rc) != "ok true":
                continue
            sk, iv = bytes(t._sk), bytes(t._iv)
            nblk = [1, 2, 3, 1, 2, 3, 1, 2, 3, 2][base % 10]
            blocks = [rng.choice(list(range(0, 14)) + [0x82, 0x86]) for _ in range(nblk)]
            authentic = b"".join(bytes(tag.b[n]) for n in blocks)
            x0 = air.n
            real = outcome(lambda: t.read_with_mac(*blocks), show_opt)
            frame = air.trace[x0][2]
            cmd = air.trace[x0][1]
            if real != "ok " + hx(authentic):
                ck.fail("read-with-mac-clean-fails", "read_with_mac%r on an untouched channel -> %s" % (tuple(blocks), real),
                        {"tag_key": key.hex(), "challenge": rc.hex(), "blocks": blocks})
            add("read_with_mac", "lite.rwmcmd %s %s" % (hx(idm), hx(bytes(blocks))), "ok " + hx(cmd), ("rwmcmd", tuple(blocks)), True, "read:command")
            add("read_with_mac", "lite.rwm %s %s %s %s %s" % (hx(idm), hx(sk), hx(iv), hx(bytes(blocks)), hx(frame)), real,
                ("rwm", key, rc, tuple(blocks), frame), False, "read:clean")
            mods = list(response_masks(rng, frame, T, 8 * len(frame) if (T or base < 1) else 64))
            dlen = 16 * nblk
            if nblk >= 2:                                      # whole blocks exchanged / duplicated: more than one group changes
                def swap(f, dlen=dlen):
                    return f[:13] + f[29:45] + f[13:29] + f[45:]

                def dup(f):
                    return f[:13] + f[29:45] + f[29:]
                mods.append(("swap", swap, set(range(13, 45)) if authentic[0:16] != authentic[16:32] else set()))
                mods.append(("duplicate", dup, set(range(13, 29)) if authentic[0:16] != authentic[16:32] else set()))
            for cut in (1, 8, 16, 17):                          # truncated / extended frames (length octet adjusted)
                mods.append(("truncate", lambda f, cut=cut: bytes([len(f) - cut]) + f[1:len(f) - cut], None))
            mods.append(("extend", lambda f: bytes([len(f) + 16]) + f[1:] + bytes(16), None))
            mods.append(("replay-other-iv", None, None))
            for kind, fn, pos in mods:
                with Guard(ck, 'read-with-mac-tamper', None):
                    if kind == "replay-other-iv":
                        # a correctly MAC'ed response recorded under another challenge is replayed
                        tag2 = F.LiteTag(F.key_block(key), lite_s)
                        for n in tag.b:
                            if n not in (0x80,):
                                tag2.b[n] = bytearray(tag.b[n])
                        tag2.b[1] = bytearray(rb(16))
                        tag2.b[0x80] = bytearray(rb(16))
                        old = tag2.command(cmd)
                        fn = lambda f, old=old: old   # noqa
                        pos = set(range(13, 13 + dlen + 8))
                    air.transit = Tamper({("r", air.n): fn})
                    xi = air.n
                    real = outcome(lambda: t.read_with_mac(*blocks), show_opt)
                    air.transit = None
                    got = air.trace[xi][2]
                    what = "read_with_mac%r, response modified (%s%s) -> %s" % (tuple(blocks), kind, "" if pos is None else " at %s" % sorted(pos), real[:80])
                    rep = {"product": type(t).__name__, "tag_key": key.hex(), "challenge": rc.hex(), "blocks": blocks,
                           "clean_response": frame.hex(), "arrived": got.hex(), "authentic_data": authentic.hex()}
                    if real.startswith("exc") and real[4:] in INTERNAL:
                        ck.fail("read-internal-exception", what, rep)
                    if real.startswith("ok ") and real != "ok none":
                        if real != "ok " + hx(authentic):
                            ck.fail("tampered-read-accepted", what, rep)
                        elif pos is not None and any(13 <= p < 13 + dlen + 8 for p in pos) and got != frame:
                            ck.fail("tampered-mac-accepted", what, rep)
                    add("read_with_mac", "lite.rwm %s %s %s %s %s" % (hx(idm), hx(sk), hx(iv), hx(bytes(blocks)), hx(got)), real,
                        ("rwm", key, rc, tuple(blocks), got), True, "read:%s:%s" % (kind, real[:7] if real.startswith("ok n") or real.startswith("exc") else "ok data"))
    # not authenticated
    tag, air, t = fresh(False, bytes(16))
    real = outcome(lambda: t.read_with_mac(1), show_opt)
    add("read_with_mac", "lite.rwm %s - - 01 -" % hx(idm), real, ("rwm-unauth",), True, "read:unauthenticated")
    if real != "exc RuntimeError":
        ck.fail("read-with-mac-without-session", "read_with_mac before authenticate -> %s" % real, {})

    # ---------------- Lite-S write_with_mac
    for i in range(60 if T else 12):
        with Guard(ck, 'write-with-mac', None):
            key, rc = rb(16), rb(16)
            tag, air, t = fresh(True, F.key_block(key))
            tag.b[0x90][0:3] = rb(3) if i % 3 else bytes([0xFF, 0xFF, 0x00])
            if auth_real(t, key, rc) != "ok true":
                ck.fail("auth-wrong-verdict", "FelicaLiteS right key -> not true (write counter %s)" % tag.b[0x90][0:3].hex(),
                        {"tag_key": key.hex(), "challenge": rc.hex()})
                continue
            sk, iv = bytes(t._sk), bytes(t._iv)
            blk, data = rng.randrange(0, 14), rb(16)
            x0 = air.n
            wc = bytes(tag.b[0x90][0:3])
            mode = i % 4
            if mode == 3:                                      # the write command is modified on its way: the tag must refuse
                b = rng.randrange(8 * 14, 8 * 48 + 8 * 11)
                air.transit = Tamper({("c", x0 + 1): xor_mask(bit_mask(64, b))})
            before = bytes(tag.b[blk])
            real = outcome(lambda: t.write_with_mac(data, blk), lambda r: "none")
            air.transit = None
            if mode == 3:
                ck.case(("wwm-tamper", key, rc, blk, data), True, "write:command-tamper:" + real[:9])
                if bytes(tag.b[blk]) not in (before,) and bytes(tag.b[blk]) != data:
                    ck.fail("tampered-write-stored", "write_with_mac: modified command stored %s" % bytes(tag.b[blk]).hex(), {"bit": b})
                continue
            if real != "ok none" or bytes(tag.b[blk]) != data:
                ck.fail("write-with-mac-refused", "the tag of the manual refuses write_with_mac(%s, %d): %s" % (data.hex(), blk, real),
                        {"tag_key": key.hex(), "challenge": rc.hex(), "wcnt": wc.hex(), "block": blk, "data": data.hex()})
            if air.n - x0 != 2:
                ck.fail("tie:c20-write_with_mac", "write_with_mac made %d exchanges, the model reads WCNT and then writes: %r"
                        % (air.n - x0, [hx(c) for c in air.sent[x0:]]), {"tag_key": key.hex(), "challenge": rc.hex(), "block": blk})
                continue
            sent = air.trace[x0 + 1][1]
            add("write_with_mac", "lites.wwm %s %s %s %s %02x %s" % (hx(idm), hx(sk), hx(iv), hx(data), blk, hx(air.trace[x0][2])),
                "ok " + hx(sent), ("wwm", key, rc, wc, blk, data), True, "write:command")
    for bad in (rb(15), rb(17)):
        with Guard(ck, 'write-with-mac', None):
            tag, air, t = fresh(True, bytes(16))
            real = outcome(lambda: t.write_with_mac(bad, 1), lambda r: "none")
            add("write_with_mac", "lites.wwm %s %s %s %s 01 -" % (hx(idm), hx(bytes(16)), hx(bytes(8)), hx(bad)), real, ("wwm-bad", len(bad)), True, "write:bad-size")
    tag, air, t = fresh(True, bytes(16))
    real = outcome(lambda: t.write_with_mac(bytes(16), 1), lambda r: "none")
    add("write_with_mac", "lites.wwm %s - - %s 01 -" % (hx(idm), hx(bytes(16))), real, ("wwm-unauth",), True, "write:unauthenticated")

    # ---------------- protect, then authenticate: every kind of password on tags whose CURRENT key is not the
    # factory key (so that a protect() that silently keeps the old key is seen), and on factory tags
    def eff(k):
        return bytes(x & 0xFE for x in k)              # DES ignores the parity bit of every key octet

    kinds = ["none", "empty", "empty-bytearray", "short", "exact16", "longer", "zeros16", "bytearray", "same-as-old"]
    rounds = 6 if T else 1
    for rnd in range(rounds):
        for lite_s in (False, True):
            for kind in kinds:
                for old_is_factory in ((False, True) if (rnd == 0 and kind in ("none", "empty", "exact16")) else (False,)):
                    with Guard(ck, 'felica-protect', None):
                        old = bytes(16) if old_is_factory else rb(16)
                        pw = {"none": None, "empty": b"", "empty-bytearray": bytearray(), "short": rb(rng.randrange(1, 16)),
                              "exact16": rb(16), "longer": rb(16 + rng.randrange(1, 9)), "zeros16": bytes(16),
                              "bytearray": bytearray(rb(16)), "same-as-old": old}[kind]
                        tag, air, t = fresh(lite_s, F.key_block(old))
                        tag.b[0x88][3] = 0                   # not NDEF formatted: protect() touches only MC, CKV and CK
                        name = type(t).__name__
                        fake_os.next = [rb(16) for _ in range(4)]
                        pf = rng.choice([0, 0, 1, 14])
                        real = outcome(lambda: t.protect(pw, protect_from=pf), show_bool)
                        pwhex = "None" if pw is None else hx(pw)
                        rep = {"product": name, "tag_key_before": old.hex(), "password": pwhex, "protect_from": pf,
                               "call": "protect(password=%s)" % ("None" if pw is None else "bytes.fromhex(%r)" % bytes(pw).hex())}
                        ck.case(("protect", lite_s, kind, old, pwhex), True, "protect:%s:%s:%s" % (name, kind, real[:12]))
                        keyw = [c for (_, c, _) in air.trace if c and len(c) == 32 and c[1] == 0x08 and c[14:16] == b"\x80\x87"]
                        if len(keyw) > 1:
                            ck.fail("protect-key-written-twice", "%s.protect(%s) wrote the key block %d times" % (name, pwhex, len(keyw)), rep)
                        add("protect", "lite.protect %s %s" % (hx(idm), pwhex),
                            real if real.startswith("exc") else "ok " + (hx(keyw[0]) if keyw else "none"),
                            ("lite.protect", lite_s, pwhex), True, "protect:key-command")
                        if kind == "short":
                            if real != "exc ValueError" or bytes(tag.b[0x87]) != F.key_block(old) or tag.log:
                                ck.fail("short-password-accepted", "%s.protect(%s) -> %s, tag writes %r" % (name, pwhex, real, tag.log), rep)
                            continue
                        if real != "ok true":
                            ck.fail("lite-s-protect-bytes-password" if real == "exc AttributeError" and lite_s else "protect-fails",
                                    "%s.protect(%s) on a tag with writable system blocks -> %s" % (name, pwhex, real), rep)
                            continue
                        new = old if pw is None else (bytes(pw[:16]) if len(pw) else bytes(16))
                        if bytes(tag.b[0x87]) != F.key_block(new):
                            ck.fail("protect-key-not-provisioned" if bytes(tag.b[0x87]) == F.key_block(old) else "protect-key-layout",
                                    "%s.protect(%s) returned True, the tag held key %s before and now holds CK block %s; the key of that "
                                    "password in the manual's layout is %s" % (name, pwhex, old.hex(), bytes(tag.b[0x87]).hex(), F.key_block(new).hex()), rep)
                        probes = [(old, eff(old) == eff(new)), (b"", eff(new) == bytes(16)), (rb(16), False),
                                  (bytes([new[0] ^ 0x80]) + new[1:], False)]
                        if pw is not None:
                            probes = [(pw, True), (bytes(new) + b"tail", True)] + probes
                        for other, expect in probes:
                            fake_os.next = [rb(16)]
                            r2 = outcome(lambda: t.authenticate(other), show_bool)
                            ck.case(("protect-auth", lite_s, kind, old, pwhex, bytes(other)), True, "protect:then-auth:" + r2)
                            if r2 != ("ok true" if expect else "ok false"):
                                ck.fail("protect-then-auth", "%s held key %s, protect(%s) -> True, then authenticate(%s) -> %s, expected %s"
                                        % (name, old.hex(), pwhex, hx(other), r2, expect), dict(rep, authenticate=hx(other)))
                        fake_os.next = []


# ------------------------------------------------------------------------------------------------ histories
def _histories(ck, rng, T, add, H, det_os):
    """sequences of calls on one tag object (sessions, counters, multi-block reads): see c20_hist.py"""
    def one(h, clean, kind):
        run = H.Run(h, det_os)
        H.judge(ck, run, clean)
        results = [s["result"] for s in run.steps]
        add("history", h.line(), run.reply(), ("hist", h.line()), True,
            "history:%s:%s" % (kind, "auth-true" if "true" in results else "no-auth"))
        return run

    ck.notes.append("session of an earlier authentication %s when a new authentication starts (model parameter forget=%s)"
                    % (("is forgotten", True) if H.probe(det_os) else ("is kept (finding stale-session-after-failed-auth)", False)))
    hs = [(h, 6 if T else 2, "calls") for h in H.generate(rng, T)]
    hs += [(h, 0, "replay") for h in H.replay_histories(rng, T, det_os)]
    for h, budget, kind in hs:
        with Guard(ck, "history", h.describe):
            clean = one(h, None, kind)
            if budget and not h.rules:
                for rules, label in H.tamper_rules(rng, T, clean, budget):
                    h2 = h.with_rules(rules, h.label + "; " + label)
                    with Guard(ck, "history-tamper", h2.describe):
                        one(h2, clean, "tamper")
    retry_base = [h for h, _, _ in hs if (h.label, h.lite_s) in (("pattern A W A", True), ("pattern A R A R", False))]
    retry_base += [h for h, _, _ in hs if T and h.label in ("pattern T A W A", "pattern A W P W A", "pattern A R1 R2 R3 R4 R5")]
    for h in retry_base:
        with Guard(ck, "history-retry", h.describe):
            clean = H.Run(h, det_os)
            for rules, label in H.retry_rules(clean):
                h2 = h.with_rules(rules, h.label + "; " + label)
                with Guard(ck, "history-retry", h2.describe):
                    one(h2, clean, "retry")
    for h in H.ndef_histories(rng, T):
        with Guard(ck, "history-ndef", h.describe):
            clean = one(h, None, "ndef")
            for rules, label in H.ndef_tamper_rules(rng, T, clean):
                h2 = h.with_rules(rules, h.label + "; " + label)
                with Guard(ck, "history-ndef-tamper", h2.describe):
                    one(h2, clean, "ndef-tamper")
    for line, reply, kind, status in H.card_cases(rng, T):
        add("card-mirror", line, reply, ("card", line), True,
            "mirror:card:%s:%s" % (kind, "no-answer" if status is None else status.hex()))
    for h in H.read_histories(rng, T):
        with Guard(ck, "history-read", h.describe):
            clean = one(h, None, "read")
            for rules, label in H.read_tamper_rules(rng, T, clean):
                h2 = h.with_rules(rules, h.label + "; " + label)
                with Guard(ck, "history-read-tamper", h2.describe):
                    one(h2, clean, "read-tamper")


def _entropy(ck, F, tt3_sony):
    """with the REAL entropy source: the challenges of successive authenticate() calls on one tag object and
    on different objects are all different (2^-128 per pair otherwise) and 16 octets are drawn per call"""
    seen = {}
    for lite_s in (False, True):
        tag = F.LiteTag(F.key_block(bytes(range(16))), lite_s)
        air, t = F.activate(tag)
        for i in range(6):
            x0 = air.n
            r = outcome(lambda: t.authenticate(bytes(range(16)) if i % 2 == 0 else bytes(16)), show_bool)
            rcw = [c[16:32] for c in air.sent[x0:] if len(c) == 32 and c[1] == 0x08 and c[14:16] == b"\x80\x80"]
            ck.case(("entropy", lite_s, i), True, "auth:real-urandom:" + r)
            if len(rcw) != 1 or rcw[0] in seen or len(set(rcw[0])) < 4:
                ck.fail("auth-challenge-reused", "%s: authenticate() call %d wrote the challenge(s) %s to the RC block; "
                        "challenges of earlier calls: %s" % (type(t).__name__, i, [c.hex() for c in rcw], [c.hex() for c in seen]),
                        {"product": type(t).__name__, "call": i, "rc_blocks": [c.hex() for c in rcw]})
            for c in rcw:
                seen[c] = True


# ------------------------------------------------------------------------------------------------ NTAG21x
def _ntag(ck, rng, T, add, rb, N):
    products = sorted(N.PRODUCTS)

    def key_of(pw):
        return bytes(pw[:6]) if len(pw) else b"\xFF\xFF\xFF\xFF\x00\x00"

    def model_arg(air, x0):
        """what transceive() gave the caller: the arrived frame of the first answered attempt, or the error"""
        for (_, _, r) in air.trace[x0:x0 + 3]:
            if r is not None:
                return hx(r) if len(r) else None
        return "E0"

    for i in range(600 if T else 120):
        with Guard(ck, 'ntag-authenticate', None):
            prod = products[i % len(products)]
            pwd, pack = rb(4), rb(2)
            if i % 11 == 0:
                pwd, pack = b"\xFF\xFF\xFF\xFF", b"\x00\x00"
            tag = N.NtagTag(prod, pwd, pack, auth0=rng.choice([0xFF, 4, 0]), prot=rng.random() < 0.3)
            kind = ["right", "right-long", "wrong-pwd", "wrong-pack", "wrong-1bit", "empty", "short"][i % 7]
            if kind == "right":
                pw = pwd + pack
            elif kind == "right-long":
                pw = pwd + pack + rb(rng.randrange(1, 6))
            elif kind == "wrong-pwd":
                pw = rb(4) + pack
            elif kind == "wrong-pack":
                pw = pwd + rb(2)
            elif kind == "wrong-1bit":
                b = rng.randrange(48)
                pw = bytes(x ^ (1 << (b % 8) if j == b // 8 else 0) for j, x in enumerate(pwd + pack))
            elif kind == "empty":
                pw = b""
            else:
                pw = rb(rng.randrange(1, 6))
            if rng.random() < 0.3:
                pw = bytearray(pw)
            air, t = N.activate(tag)
            x0 = air.n
            real = outcome(lambda: t.authenticate(pw), show_bool)
            held = key_of(pw) == pwd + pack
            rep = {"product": prod, "tag_pwd": pwd.hex(), "tag_pack": pack.hex(), "password": bytes(pw).hex()}
            if len(pw) and len(pw) < 6:
                if real != "exc ValueError":
                    ck.fail("short-password-accepted", "NTAG21x authenticate(%r) -> %s" % (bytes(pw), real), rep)
                add("ntag-authenticate", "ntag.auth %s -" % hx(pw), real, ("ntag.auth", bytes(pw), pwd, pack), True, "ntag:short")
                continue
            if real != ("ok true" if held else "ok false"):
                ck.fail("auth-wrong-verdict", "%s holds PWD %s PACK %s, authenticate(%s) -> %s" % (prod, pwd.hex(), pack.hex(), bytes(pw).hex(), real), rep)
            if t.is_authenticated != (real == "ok true"):
                ck.fail("auth-status-differs", "is_authenticated=%r after authenticate -> %s" % (t.is_authenticated, real), rep)
            sent = air.trace[x0][1]
            add("ntag-authenticate", "ntag.cmd %s" % hx(pw), "ok " + hx(sent), ("ntag.cmd", bytes(pw)), True, "ntag:command")
            add("ntag-authenticate", "ntag.auth %s %s" % (hx(pw), model_arg(air, x0)), real, ("ntag.auth", bytes(pw), pwd, pack), not held, "ntag:" + kind)
            add("tag-mirror", "ntag.tag %s %s %s" % (hx(pwd), hx(pack), hx(sent)), "ok " + hx(air.trace[x0][2]), ("ntag.tag", pwd, pack, sent), True, "mirror:ntag")

    # responses modified in transit: every bit of PACK and of the NAK, multi-bit, lost frames
    for i in range(40 if T else 8):
        with Guard(ck, 'ntag-authenticate-tamper', None):
            prod = products[i % len(products)]
            pwd, pack = rb(4), rb(2)
            right = i % 2 == 0
            pw = pwd + pack if right else (rb(4) + pack)
            clean = pack if right else N.NAK0
            mods = [("bit", xor_mask(bit_mask(len(clean), b))) for b in range(8 * len(clean))]
            for _ in range(10):
                mods.append(("multibit", xor_mask(bytes(rng.randrange(256) for _ in clean))))
            mods.append(("append", lambda f: f + bytes([rng.randrange(256)])))
            mods.append(("truncate", lambda f: f[:-1]))
            mods.append(("pack-for-nak", lambda f, pw=pw: bytes(pw[4:6])))     # an attacker answers with the expected PACK
            for lost in (1, 2, 3):
                mods.append(("lost%d" % lost, None))
            for kind, fn in mods:
                with Guard(ck, 'ntag-authenticate-tamper', None):
                    tag = N.NtagTag(prod, pwd, pack)
                    if kind.startswith("lost"):
                        k = int(kind[4:])
                        rules = {("r", j): (lambda f: None) for j in range(k)}
                    else:
                        rules = {("r", 0): fn}
                    air, t = N.activate(tag, Tamper(rules))
                    real = outcome(lambda: t.authenticate(pw), show_bool)
                    got = model_arg(air, 0)
                    rep = {"product": prod, "tag_pwd": pwd.hex(), "tag_pack": pack.hex(), "password": pw.hex(), "modification": kind, "arrived": got}
                    if real.startswith("exc"):
                        ck.fail("auth-internal-exception", "NTAG21x authenticate, response %s -> %s" % (kind, real), rep)
                    arrived_ok = got is not None and got != "E0" and got != "-" and bytes.fromhex(got) == pw[4:6]
                    if (real == "ok true") != arrived_ok:
                        ck.fail("ntag-pack-not-compared", "NTAG21x authenticate(%s): arrived %s, verdict %s" % (pw.hex(), got, real), rep)
                    if got is None:
                        got = "-"
                    add("ntag-authenticate", "ntag.auth %s %s" % (hx(pw), got), real, ("ntag.auth", pw, pwd, pack, kind, got), True, "ntag:tamper:" + kind.rstrip("123"))

    # PWD_AUTH answers of EVERY length 0..4 (C20-m3 / r2m4 class: the comparison must include the length): prefixes and
    # extensions of the expected PACK, NAK octets that equal the first PACK octet, all 256 one-octet answers, and in the
    # thorough tier all 65536 two-octet answers against one PACK
    naks = [0x00, 0x01, 0x04, 0x05, 0x06, 0x0A]

    def answer(prod, pwd, pack, pw, frame, kind):
        with Guard(ck, "ntag-response-length", {"product": prod, "password": bytes(pw).hex(), "arrived": bytes(frame).hex()}):
            tag = N.NtagTag(prod, pwd, pack)
            air, t = N.activate(tag, Tamper({("r", 0): (lambda f: bytes(frame))}))
            real = outcome(lambda: t.authenticate(pw), show_bool)
            expected = b"\xFF\xFF\xFF\xFF\x00\x00"[4:6] if len(pw) == 0 else bytes(pw[4:6])
            good = bytes(frame) == expected
            rep = {"product": prod, "tag_pwd": pwd.hex(), "tag_pack": pack.hex(), "password": bytes(pw).hex(),
                   "arrived": bytes(frame).hex(), "kind": kind}
            if real != ("ok true" if good else "ok false"):
                ck.fail("ntag-pack-not-compared" if real in ("ok true", "ok false") else "auth-internal-exception",
                        "NTAG21x authenticate(%s): the %d octet answer %s arrived (expected PACK %s), verdict %s"
                        % (bytes(pw).hex(), len(frame), bytes(frame).hex() or "<empty>", expected.hex(), real), rep)
            add("ntag-authenticate", "ntag.auth %s %s" % (hx(pw), hx(frame)), real, ("ntag.len", bytes(pw), bytes(frame)), True,
                "ntag:length:%d:%s" % (len(frame), kind))

    for i in range(12 if T else 4):
        prod = products[i % len(products)]
        for nak in naks + [rng.randrange(256)]:
            pwd = rb(4)
            pack = bytes([nak, rng.choice([nak, 0, rng.randrange(256)])])      # the expected PACK begins with the NAK value
            pw = pwd + pack + (rb(2) if i % 2 else b"")
            wrong = bytes([pwd[0] ^ 1]) + pwd[1:]
            for frame, kind in [(b"", "empty"), (bytes([nak]), "nak=pack[0]"), (pack[:1], "pack-prefix"), (pack, "pack"),
                                (pack + bytes([nak]), "pack+1"), (pack + pack, "pack+2"), (pack + b"\x00\x00", "pack+00"),
                                (bytes([nak, nak, nak]), "nak*3"), (bytes([pack[0], pack[1] ^ (1 << rng.randrange(8))]), "pack-bit"),
                                (pack[::-1], "pack-reversed"), (bytes(4), "zeros4"), (bytes([pack[0]]) + bytes([0]), "pack[0]+00")]:
                answer(prod, pwd, pack, pw, frame, kind)
            answer(prod, wrong, rb(2), pw, bytes([nak]), "refused:nak=pack[0]")      # the tag does NOT hold the password
    for nak in naks:                                                                  # factory key: expected PACK 00 00
        answer(products[0], rb(4), rb(2), b"", bytes([nak]), "empty-password:nak")
        answer(products[0], b"\xFF\xFF\xFF\xFF", b"\x00\x00", b"", bytes([nak]), "empty-password:nak")
    pwd, pack = rb(4), rb(2)
    for v in range(256):
        answer(products[1], pwd, bytes([v, pack[1]]), pwd + bytes([v, pack[1]]), bytes([v]), "one-octet-all")
    if T:
        pw = pwd + pack
        for v in range(65536):
            answer(products[2], pwd, pack, pw, v.to_bytes(2, "big"), "two-octets-all")

    _ntag_ndef(ck, rng, T, add, rb, N, products)

    # protect(password) then authenticate: every kind of password, on tags that hold ANOTHER password
    kinds = ["none", "empty", "empty-bytearray", "short", "exact6", "longer", "default6", "bytearray", "same-as-old"]
    default = b"\xFF\xFF\xFF\xFF\x00\x00"
    for i in range(len(kinds) * (10 if T else 2)):
        with Guard(ck, 'ntag-protect', None):
            prod = products[i % len(products)]
            kind = kinds[i % len(kinds)]
            old = default if (i // len(kinds)) % 2 == 1 and kind in ("none", "empty", "exact6") else rb(6)
            pw = {"none": None, "empty": b"", "empty-bytearray": bytearray(), "short": rb(rng.randrange(1, 6)), "exact6": rb(6),
                  "longer": rb(6 + rng.randrange(1, 5)), "default6": default, "bytearray": bytearray(rb(6)), "same-as-old": old}[kind]
            tag = N.NtagTag(prod, old[0:4], old[4:6])
            air, t = N.activate(tag)
            rp, pf = rng.random() < 0.5, rng.choice([0, 3, 4, 5, 16, 255, 300])
            cfg_before = bytes(tag.mem[4 * tag.cfg:4 * tag.cfg + 8]) + bytes(6) + bytes(tag.mem[4 * tag.cfg + 14:4 * tag.cfg + 16])
            real = outcome(lambda: t.protect(pw, rp, pf), show_bool)
            pwhex = "None" if pw is None else hx(pw)
            rep = {"product": prod, "tag_key_before": old.hex(), "password": pwhex, "read_protect": rp, "protect_from": pf}
            ck.case(("ntag.protect", prod, kind, old, pwhex, rp, pf), True, "ntag:protect:%s:%s" % (kind, real))
            if kind == "short":
                if real != "exc ValueError" or tag.pwd + tag.pack != old:
                    ck.fail("short-password-accepted", "%s.protect(%s) -> %s" % (prod, pwhex, real), rep)
                continue
            if real != "ok true":
                ck.fail("protect-fails", "%s.protect(%s, %s, %s) -> %s" % (prod, pwhex, rp, pf, real), rep)
                continue
            new = old if pw is None else key_of(pw)
            if tag.pwd + tag.pack != new:
                ck.fail("protect-key-not-provisioned" if tag.pwd + tag.pack == old else "protect-key-layout",
                        "%s held %s, protect(%s) -> True, now holds PWD %s PACK %s, expected %s"
                        % (prod, old.hex(), pwhex, tag.pwd.hex(), tag.pack.hex(), new.hex()), rep)
            if pw is not None:
                written = [c[2:6] for (_, c, _) in air.trace if c and c[0] == 0xA2 and tag.cfg <= c[1] < tag.cfg + 4]
                add("ntag-authenticate", "ntag.protect %s %02x %04x %s" % (hx(pw), 1 if rp else 0, pf, hx(cfg_before)),
                    "ok " + " ".join(hx(w) for w in written), ("ntag.protect", bytes(pw), rp, pf), True, "ntag:protect-pages")
            probes = [(old, old == new), (b"", new == default), (rb(6), False), (bytes([new[0] ^ 1]) + new[1:], False),
                      (new[:5] + bytes([new[5] ^ 0x10]), False)]
            if pw is not None:
                probes = [(pw, True), (new + b"xyz", True)] + probes
            for other, expect in probes:
                air.sense()
                r2 = outcome(lambda: t.authenticate(other), show_bool)
                ck.case(("ntag.protect-auth", kind, old, pwhex, bytes(other)), True, "ntag:protect-then-auth:" + r2)
                if r2 != ("ok true" if expect else "ok false"):
                    ck.fail("protect-then-auth", "%s held %s, protect(%s) -> True, then authenticate(%s) -> %s, expected %s"
                            % (prod, old.hex(), pwhex, hx(other), r2, expect), dict(rep, authenticate=hx(other)))


def _ntag_ndef(ck, rng, T, add, rb, N, products):
    """NTAG21x: what tag.ndef hands out around authenticate() / protect() (the NDEF cache of nfc.tag.Tag; there is no
    MAC on this tag, so the statement is: after a successful authenticate() - or protect() - tag.ndef is READ FROM
    THE TAG again and not served from what was read, possibly falsified or before the pages were protected, earlier).
    Tie: the cache decisions (value handed out, tag read or not) against NfcVerif.TagCache.crun."""
    patterns = ["N A N", "N A N N", "N X N", "N A X N", "N C N", "N C A N", "N C N A N", "A N C N", "N T N", "N T C N A N",
                "N Tr N", "Tr N A N", "N A N T N", "N Tn N", "X N A N N", "N A C N A N"]
    for i in range(len(patterns) * (6 if T else 2)):
        words = patterns[i % len(patterns)].split()
        prod = products[i % len(products)]
        pwd, pack = rb(4), rb(2)
        key = pwd + pack
        protected = i % 3 == 1                              # pages from 4 on already need the password for reading
        msg = rb(rng.choice([0, 1, 7, 20, 33]))      # NTAG210 has a data area of 40 octets
        info = {"product": prod, "password": key.hex(), "read_protected": protected, "calls": words, "message": msg.hex()}
        with Guard(ck, "ntag-ndef", info):
            tag = N.NtagTag(prod, pwd, pack, auth0=4 if protected else 0xFF, prot=protected)

            def store(m):
                tag.mem[16:16 + 3 + len(m)] = bytes([3, len(m)]) + m + b"\xFE"
            store(msg)
            falsify = (i // len(patterns)) % 2 == 1 and not protected
            air, t = N.activate(tag)
            if falsify:                                      # the first unprotected NDEF read is modified in transit
                air.transit = Tamper({("r", 1): xor_mask(bytes(8) + b"\x04")})
            toks, real, auth_ok, current = [], [], False, msg
            for wi, w in enumerate(words):
                x0 = air.n
                if w == "C":                                 # somebody else rewrites the message on the tag
                    current = rb(len(current)) if current else rb(3)
                    store(current)
                    continue
                if w == "N":
                    r = outcome(lambda: (lambda o: None if o is None else bytes(o.octets))(t.ndef), show_opt)
                    fetched = air.n > x0
                    val = r[3:] if r.startswith("ok ") else "exc:" + r[4:]
                    toks.append("n:%s" % (val if fetched and r.startswith("ok ") else "none"))
                    real.append("%s/%s" % (val, "f" if fetched else "c"))
                    what = "%s, calls %s: call %d tag.ndef -> %s (%s)" % (prod, " ".join(words), wi, val[:60],
                                                                        "read from the tag" if fetched else "cached")
                    if r.startswith("exc") and r[4:] in INTERNAL:
                        ck.fail("auth-internal-exception", what, info)
                    if auth_ok == "fresh":
                        if not fetched:
                            ck.fail("ndef-after-auth-from-cache", what + " although authenticate()/protect() succeeded since it "
                                    "was read; the tag now holds %s" % current.hex(), info)
                        elif not (falsify and x0 <= 1) and r != "ok " + hx(current):
                            ck.fail("ndef-after-auth-wrong-data", what + ", the tag holds %s" % current.hex(), info)
                        auth_ok = True
                    ck.case(("ntag-ndef", i, wi, r), True, "ntag:ndef:%s:%s" % ("fetched" if fetched else "cached", r[:7]))
                    continue
                if w in ("A", "X"):
                    air.sense()
                    r = outcome(lambda: t.authenticate(key if w == "A" else rb(6)), show_bool)
                    toks.append("a:%s" % ("t" if r == "ok true" else "f" if r == "ok false" else "e"))
                else:
                    pw = None if w == "Tn" else key
                    r = outcome(lambda: t.protect(pw, read_protect=(w == "Tr"), protect_from=4), show_bool)
                    toks.append("t:%s" % ("t" if r == "ok true" else "f" if r == "ok false" else "e"))
                real.append("none/c" if r.startswith("ok ") else "exc:TagCommandError(0)/c")
                if r.startswith("exc") and r[4:] in INTERNAL:
                    ck.fail("auth-internal-exception", "%s: %s -> %s" % (prod, w, r), info)
                auth_ok = "fresh" if r == "ok true" else False
            add("ntag-ndef-cache", "cache " + " ".join(toks), " ".join(real), ("ntag-cache", i, tuple(toks)), True, "ntag:ndef-cache")
