"""C10 - nothing sent on an LLCP link exceeds the peer's announced MIU.

L1: NfcVerif.Props.C10 - for every table of service access points with any queue contents, every remote
    MIU, secure data transfer off / on with any ICV size, aggregation on/off: the information field of the
    frame returned by collect() is at most the MIU (a single encrypted UI / I PDU: MIU + ICV, by design of
    collect()); collect() neither invents nor alters PDUs and encrypts every UI / I PDU exactly once; every
    history of socket operations (sendto / send / connect / accept / bind / listen / service discovery /
    DM / arbitrary receive-side changes / collect) keeps the queue invariant and transmits only such frames;
    the aggregation loop terminates.
L2: (a) random SAP tables / queue fillings built on a REAL LogicalLinkController (queues stuffed with real
    PDU objects, partly through the public socket API), with a stub cipher for `llc.sec`;
    (b) boundary sweeps (first PDU x second PDU x payload around the aggregation budget x MIU x ICV);
    (c) random histories of operations through the public API (llc.bind / sendto / send / connect / listen /
    accept / dispatch of incoming PDUs / setsockopt);
    every single step - the operation's outcome and the complete state after it - is compared with the Lean
    model (`run` of Model/CollectOps.lean), whole histories once more in one piece.
L3: oracle on the real code: len(encode(frame)) - header <= send-miu (+ ICV for a single encrypted UI / I
    PDU, never for an aggregate), payloads within the link / connection MIU announced by the peer, every
    UI / I PDU encrypted exactly once, the encoded frame decodes (real decoder) to exactly the collected PDUs
    and a real receiving controller (with the same cipher) hands exactly the collected PDUs, decrypted, in
    order to its service access points; sendto()/send() refuse oversize payloads with EMSGSIZE.
"""
import logging

from common import Model, exc_name
from sims.collect_sec import FakeCipher, marks

logging.disable(logging.CRITICAL)

LEAN_TARGETS = ["NfcVerif.Props.C10", "drv_c10"]
THEOREMS = [
    "NfcVerif.C10.collect_frame_bound",
    "NfcVerif.C10.collect_frame_bound_nosec",
    "NfcVerif.C10.collect_agf_bound",
    "NfcVerif.C10.collect_first_pdu_bound",
    "NfcVerif.C10.aggregate_bound",
    "NfcVerif.C10.sd_dequeue_bound",
    "NfcVerif.C10.ui_i_payload_bound",
    "NfcVerif.C10.collect_preserves",
    "NfcVerif.C10.collect_encrypts_once",
    "NfcVerif.C10.history_frames_ok",
    "NfcVerif.C10.sendto_ok_iff",
    "NfcVerif.C10.send_ok_only_if",
    "NfcVerif.C10.collect_aggregation_terminates",
    "NfcVerif.C10.aggregation_transparent",
    "NfcVerif.C10.agf_size_bridge",
]

KIND = {"SYMM": "symm", "PAX": "pax", "AGF": "agf", "UI": "ui", "CONNECT": "connect", "DISC": "disc", "CC": "cc",
        "DM": "dm", "FRMR": "frmr", "SNL": "snl", "DPS": "dps", "I": "i", "RR": "rr", "RNR": "rnr"}
MIUS = [128, 129, 130, 131, 132, 133, 135, 140, 200, 248, 255, 256, 500, 1021, 2174, 2175]


class World(object):
    """one real LogicalLinkController plus what the harness knows independently of it"""

    def __init__(self, ck, mods, miu, agf, icv, recv_miu=248):
        self.ck, self.mods = ck, mods
        self.nfc, self.llcmod, self.tco, self.pdu = mods
        self.miu, self.agf, self.icv = miu, agf, icv
        self.llc = self.llcmod.LogicalLinkController(miu=recv_miu, sec=False, agf=agf)
        self.llc.cfg["send-miu"] = miu
        self.llc.cfg["send-agf"] = agf
        if icv is not None:
            self.llc.sec = FakeCipher(icv)
        self.conn = {}          # (local addr, peer addr) -> connection MIU announced by the peer, clamped to the link MIU
        self.serial = 0
        self.raw_used = False

    # ---- payloads carry a serial number so that the order of PDUs is observable
    def payload(self, n):
        n = max(0, n)
        self.serial += 1
        s = self.serial
        head = bytes([s // 40000 % 200, s // 200 % 200, s % 200])
        return (head + bytes(max(0, n - 3))) if n >= 3 else bytes(n)

    def sec_str(self):
        return "-" if self.icv is None else str(self.icv)

    # ---- rendering in the syntax of lean/Drv/C10.lean
    def pdu_str(self, p):
        name = getattr(p, "name", "?")
        kind = KIND.get(name, "other")
        icv = lim = 0
        if name in ("UI", "I"):
            d = bytes(p.data)
            icv = marks(d)
            plain = len(d) - icv
            pid = d[0] * 40000 + d[1] * 200 + d[2] if plain >= 3 else 0
            lim = self.miu if name == "UI" else self.conn.get((p.ssap, p.dsap), 0)
        elif name in ("RR", "RNR"):
            pid = p.nr
        else:
            pid = p.dsap * 64 + p.ssap
        return "%s.%d.%d.%d.%d.%d" % (kind, p.header_size, len(p), pid, icv, lim)

    def pdus_str(self, q, sep=","):
        q = list(q)
        return sep.join(self.pdu_str(p) for p in q) if q else "-"

    def sock_str(self, s):
        tco = self.tco
        if isinstance(s, tco.RawAccessPoint):
            return "raw=" + self.pdus_str(s.send_queue)
        if isinstance(s, tco.LogicalDataLink):
            return "ldl.%d=%s" % (s.send_miu, self.pdus_str(s.send_queue))
        return "dlc.%d.%d%d.%d.%d.%d.%d.%d.%d.%d.%d=%s" % (
            s.state.value, 1 if s.mode.RECV_BUSY else 0, 1 if s.mode.RECV_BUSY_SENT else 0, s.recv_win, s.recv_cnt,
            s.recv_ack, s.recv_confs, s.send_miu, s.send_win or 0, s.send_cnt, s.send_ack, self.pdus_str(s.send_queue))

    def render(self):
        ents = []
        for sap in self.llc.sap:
            if sap is None:
                continue
            if isinstance(sap, self.llcmod.ServiceDiscovery):
                res = ",".join(str(tid * 256 + a) for tid, a in sap.sdres) or "-"
                req = ",".join("%d.%d" % (tid, len(name)) for tid, name in sap.sdreq) or "-"
                ents.append("D;%s;%s;%s" % (res, req, self.pdus_str(sap.dmpdu)))
            else:
                ents.append(";".join(["S"] + [self.sock_str(s) for s in sap.sock_list]
                                     + ["L=" + self.pdus_str(sap.send_list)]))
        return "|".join(ents) if ents else "-"

    def pos(self, addr):
        """position of llc.sap[addr] among the non-empty entries"""
        return sum(1 for x in self.llc.sap[:addr] if x is not None)

    def sockpos(self, s):
        return self.pos(s.addr), list(self.llc.sap[s.addr].sock_list).index(s)

    def raw_pending(self):
        n = 0
        for sap in self.llc.sap:
            if sap is not None and not isinstance(sap, self.llcmod.ServiceDiscovery):
                for s in sap.sock_list:
                    if isinstance(s, self.tco.RawAccessPoint):
                        n += len(s.send_queue)
        return n

    def frame_str(self, frame):
        if frame is None:
            return "frame:none", []
        if frame.name == "AGF":
            subs = list(frame)
            return "frame:agf:%s:info=%d" % (self.pdus_str(subs, "+"), len(frame) - 2), subs
        return "frame:single:%s:info=%d" % (self.pdu_str(frame), len(frame) - frame.header_size), [frame]


def quiet(state):
    """nothing left to send"""
    for ent in state.split("|"):
        if ent.startswith("D;"):
            if ent != "D;-;-;-":
                return False
        else:
            for part in ent.split(";")[1:]:
                if not part.endswith("=-"):
                    return False
                if part.startswith("dlc.4."):
                    f = part.split(".")
                    if f[2][0] != f[2][1] or int(f[6]) != 0:      # busy state to report / confirmations to acknowledge
                        return False
    return True


class Run(object):
    """collects the requests for the model and runs the oracles"""

    def __init__(self, ck, mods):
        self.ck, self.mods = ck, mods
        self.nfc, self.llcmod, self.tco, self.pdu = mods
        self.reqs = {}          # tie name -> [(line, expected, context)]

    def req(self, tie, w, before, ops, expected):
        line = "run %d %s %d %s %s" % (w.miu, w.sec_str(), 1 if w.agf else 0, before, ops)
        self.reqs.setdefault(tie, []).append((line, expected))

    # ------------------------------------------------------------------ one collect() on the real controller
    def collect(self, w, tie, bucket):
        """returns (outcome string, frame) ; runs the L3 oracle; records the model request"""
        ck, pdu = self.ck, self.pdu
        before = w.render()
        raw_before = w.raw_pending()
        ctx = {"state": before, "miu": w.miu, "agf": w.agf, "icv_size": w.icv}
        try:
            frame = w.llc.collect()
        except Exception as e:  # noqa
            ck.fail("collect-raises-" + exc_name(e), "collect() raised %r" % (e,), ctx)
            return "exc:" + exc_name(e), None
        if frame is not None and not isinstance(frame, pdu.ProtocolDataUnit):
            ck.fail("collect-returns-non-pdu", "collect() returned %r" % (frame,), ctx)
            return "ret:%r" % (frame,), None
        try:
            out, subs = w.frame_str(frame)
            after = w.render()
        except Exception as e:  # noqa
            ck.fail("collected-frame-unusable-" + exc_name(e), "collect() returned a frame that can not be inspected: %r" % (e,), ctx)
            return "exc:" + exc_name(e), None
        self.req(tie, w, before, "collect", out + " # " + after)
        raw_contrib = raw_before != w.raw_pending()
        icv = w.icv or 0
        nontrivial = False
        if frame is not None:
            try:
                self.oracle(w, frame, subs, raw_contrib, ctx)
            except Exception as e:  # noqa
                ck.fail("frame-oracle-raises-" + exc_name(e), "inspecting the collected frame raised %r" % (e,), ctx)
            info = len(frame) - (2 if frame.name == "AGF" else frame.header_size)
            nontrivial = len(subs) >= 2 or info >= w.miu - 8 - icv
            if frame.name == "AGF":
                ck.count("aggregates")
            for p in subs:
                ck.count("sent " + p.name)
        ck.case((before, w.miu, w.agf, w.icv), nontrivial, bucket,
                sample={"request": "run %d %s %d %s collect" % (w.miu, w.sec_str(), 1 if w.agf else 0, before),
                        "impl": out} if len(ck.samples) < 3 and nontrivial else None)
        return out, frame

    def oracle(self, w, frame, subs, raw_contrib, ctx):
        ck, pdu = self.ck, self.pdu
        miu, icv = w.miu, (w.icv or 0)
        sec = "sec:" if w.icv is not None else ""
        enc = frame.encode()
        ctx = dict(ctx, frame=enc.hex())
        for p in subs:
            if len(p) != len(p.encode()):
                ck.fail("pdu-len-differs-from-encoding", "%s: len %d, encoded %d" % (p.name, len(p), len(p.encode())), ctx)
        is_agf = frame.name == "AGF"
        infolen = len(enc) - (2 if is_agf else frame.header_size)
        names = "+".join("%s(%d)" % (p.name, len(p)) for p in subs)
        shape = "+".join(p.name for p in subs[:4])
        if not raw_contrib:
            # a single encrypted UI / I PDU may carry its ICV on top (collect() asks for it with icv_size=0 on
            # purpose); any other frame, an aggregate in particular, has to stay within the Link MIU
            slack = icv if (not is_agf and frame.name in ("UI", "I")) else 0
            if infolen > miu + slack:
                ck.fail("frame-exceeds-miu:" + sec + shape, "information field %d > MIU %d%s: %s"
                        % (infolen, miu, " (+%d ICV)" % slack if slack else "", names), ctx)
            for p in subs:
                if p.name in ("UI", "I"):
                    k = marks(p.data)
                    plain = len(p.data) - k
                    if plain > miu:
                        ck.fail("payload-exceeds-miu", "%s payload %d > Link MIU %d" % (p.name, plain, miu), ctx)
                    if p.name == "I" and (p.ssap, p.dsap) in w.conn and plain > w.conn[(p.ssap, p.dsap)]:
                        ck.fail("i-payload-exceeds-connection-miu", "I PDU %d -> %d carries %d octets, the peer announced "
                                "a connection MIU of %d (link MIU %d)" % (p.ssap, p.dsap, plain, w.conn[(p.ssap, p.dsap)], miu), ctx)
        # every UI / I PDU passes encrypt() exactly once, nothing else is touched
        for p in subs:
            if p.name in ("UI", "I") and w.icv:
                k = marks(p.data)
                if k != icv:
                    ck.fail("ui-i-not-encrypted-once", "%s PDU carries %d ICV octets instead of %d" % (p.name, k, icv), ctx)
        try:
            dec = pdu.decode(enc)
            got = list(dec) if dec.name == "AGF" else [dec]
            if [x.encode() for x in got] != [x.encode() for x in subs]:
                ck.fail("aggregation-not-transparent", "decoded aggregate differs from collected PDUs", ctx)
        except pdu.Error as e:
            ck.fail("collected-frame-undecodable", "decode raised %r" % (e,), ctx)
            return
        # the receiving controller must hand exactly these PDUs (decrypted), in this order, to its SAPs
        # (with debug logging switched on and off: logging must not consume anything)
        want = []
        for x in subs:
            if x.name == "SYMM" or (x.name == "CONNECT" and x.dsap == 1):
                continue
            e = x.encode()
            want.append(e[:len(e) - icv] if (x.name in ("UI", "I") and icv) else e)
        for debug_on in (True, False):
            try:
                seen = self.receive(pdu.decode(enc), debug_on, w.icv)
            except Exception as e:  # noqa
                ck.fail("receiver-raises-" + exc_name(e), "dispatch() of the collected frame raised %r (debug logging %s)"
                        % (e, "on" if debug_on else "off"), dict(ctx, debug_logging=debug_on))
                break
            if seen != want:
                ck.fail("aggregate-not-dispatched-in-order" if is_agf else "frame-not-dispatched",
                        "receiver dispatched %d of %d collected PDUs%s (debug logging %s)"
                        % (len(seen), len(want), "" if len(seen) != len(want) else ", different octets",
                           "on" if debug_on else "off"), dict(ctx, debug_logging=debug_on))
                break

    def receive(self, rcvd, debug_on, icv):
        llcmod = self.llcmod
        seen = []

        class Recorder(object):
            """stands in for every service access point of the receiving controller"""
            mode = 1

            def __init__(self):
                self.dmpdu = []

            def enqueue(self, p):
                seen.append(p.encode())

        rx = llcmod.LogicalLinkController(sec=False)
        rx.sap = [Recorder() for _ in range(64)]
        rx.snl = {}
        if icv is not None:
            rx.sec = FakeCipher(icv)
        logger = logging.getLogger("nfc.llcp.llc")
        old_level, old_disable = logger.level, logging.root.manager.disable
        if debug_on:
            logging.disable(logging.NOTSET)
            logger.setLevel(logging.DEBUG)
            if not logger.handlers:
                logger.addHandler(logging.NullHandler())
        try:
            rx.dispatch(rcvd)
        finally:
            logger.setLevel(old_level)
            logging.disable(old_disable)
        return seen

    def drain(self, w, tie, bucket, rounds=40):
        last = None
        for _ in range(rounds):
            state = w.render()
            if quiet(state):
                return
            out, frame = self.collect(w, tie, bucket)
            if frame is None:
                return
            if (state, out) == last:
                # nothing was consumed and the same frame came out again: a service discovery request that does not
                # fit the MIU stays queued for ever (an empty SNL PDU is sent in every frame) - no new information
                self.ck.count("stopped draining: a queued item never fits")
                return
            last = (w.render(), out) if w.render() == state else None
        self.ck.count("not drained in %d rounds" % rounds)

    # ------------------------------------------------------------------ compare with the model
    def settle(self, model):
        ck = self.ck
        for tie, reqs in self.reqs.items():
            replies = model.ask_many([r[0] for r in reqs])
            dis = 0
            for (line, real), rep in zip(reqs, replies):
                if rep != real:
                    dis += 1
                    ck.fail("tie:" + tie, "model %r, implementation %r" % (_diff(rep, real)),
                            {"request": line, "model": rep, "impl": real})
            ck.tie(tie, cases=len(reqs), disagreements=dis)


def _diff(a, b):
    """the parts of two long replies that differ"""
    if len(a) < 200 and len(b) < 200:
        return a, b
    i = 0
    while i < min(len(a), len(b)) and a[i] == b[i]:
        i += 1
    i = max(0, i - 60)
    return "..." + a[i:i + 240], "..." + b[i:i + 240]


# ---------------------------------------------------------------------- (a) random queue fillings
def build(rng, w, profile):
    """fill the queues of a real controller at random (partly through the public API)"""
    nfc, llcmod, tco, pdu = w.mods
    llc, miu, icv = w.llc, w.miu, (w.icv or 0)

    def size(limit):
        r = rng.random()
        if r < 0.3:
            n = limit - rng.randrange(0, 8 + 2 * icv)
        elif r < 0.5:
            n = rng.randrange(0, 12)
        elif r < 0.6:
            n = miu - rng.randrange(0, 60)
        else:
            n = rng.randrange(0, limit + 1)
        return max(0, min(n, limit))

    # pending service discovery
    if rng.random() < profile["sd"]:
        sd = llc.sap[1]
        nres = rng.choice([0, 1, 2, 5, miu // 4 - 1, miu // 4, miu // 4 + 1, 30, 33, 40, 60]) if rng.random() < 0.7 else 0
        for _ in range(min(nres, 600)):
            sd.sdres.append((rng.randrange(256), rng.randrange(64)))
        room = miu - 4 * min(nres, miu // 4)
        for _ in range(rng.choice([0, 0, 1, 2, 4, 8])):
            # the SDREQ TLV carries tid + name in at most 255 octets: names of up to 254 octets
            ln = rng.choice([1, 3, 10, 40, 100, 200, 243, max(1, room - 3 - 11 + rng.randrange(-2, 3)),
                             max(1, miu - 3 - 11 + rng.randrange(-2, 3))])
            name = b"urn:nfc:sn:" + bytes(rng.randrange(97, 123) for _ in range(max(1, min(ln, 243))))
            sd.sdreq.append((rng.randrange(256), name))
        for _ in range(rng.choice([0, 0, 1, 2])):
            sd.dmpdu.append(pdu.DisconnectedMode(rng.randrange(2, 64), 1, rng.choice([2, 0x10])))
    # DM PDUs waiting at SAP 0
    for _ in range(rng.choice([0, 0, 0, 1, 2])):
        llc.sap[0].send(pdu.DisconnectedMode(rng.randrange(2, 64), 0, 2))
    addrs = sorted(rng.sample(range(2, 64), rng.randrange(0, profile["saps"] + 1)))
    for a in addrs:
        sap = llcmod.ServiceAccessPoint(a, llc)
        llc.sap[a] = sap
        kind = rng.choices(["ldl", "dlc", "raw"], weights=[4, 5, profile["raw"]])[0]
        for _ in range(rng.choice([1, 1, 1, 2, 3])):
            if kind == "raw":
                w.raw_used = True
                s = tco.RawAccessPoint(recv_miu=128)
                s.bind(a)
                for _ in range(rng.randrange(0, 4)):
                    k = rng.random()
                    if k < 0.4:
                        s.send_queue.append(pdu.UnnumberedInformation(rng.randrange(64), a, data=w.payload(rng.randrange(0, miu + 40))))
                    elif k < 0.55:
                        s.send_queue.append(pdu.Symmetry())
                    elif k < 0.65:
                        s.send_queue.append(pdu.ParameterExchange(version=0x13, miux=rng.randrange(0, 0x7FF), lto=100))
                    elif k < 0.75:
                        s.send_queue.append(pdu.DataProtectionSetup(0, 0, ecpk=bytes(64), rn=bytes(8)))
                    elif k < 0.8:
                        s.send_queue.append(pdu.UnknownProtocolDataUnit(0b1011, rng.randrange(64), a, bytes(rng.randrange(0, 30))))
                    else:
                        s.send_queue.append(pdu.Information(rng.randrange(64), a, 0, 0, data=w.payload(rng.randrange(0, miu + 40))))
            elif kind == "ldl":
                s = tco.LogicalDataLink(recv_miu=128)
                s.bind(a)
                s.send_miu = miu
                for _ in range(rng.randrange(0, 5)):
                    if rng.random() < 0.7:
                        try:
                            s.sendto(w.payload(size(miu)), rng.randrange(2, 64), nfc.llcp.MSG_DONTWAIT)   # public API path
                        except nfc.llcp.Error:
                            pass
                    else:
                        s.send_queue.append(pdu.UnnumberedInformation(rng.randrange(64), a, data=w.payload(size(miu))))
            else:
                s = tco.DataLinkConnection(recv_miu=128, recv_win=rng.randrange(1, 16))
                s.bind(a)
                s.peer = rng.choice([x for x in range(2, 64) if (a, x) not in w.conn])     # one connection per address pair
                cmiu = rng.choice([128, 128, miu, min(miu, 200), max(128, miu - 3)])
                s.send_miu = min(cmiu, miu)
                w.conn[(a, s.peer)] = s.send_miu
                est = rng.random() < 0.8
                if est:
                    s.state.ESTABLISHED = True
                    s.send_win = rng.randrange(1, 16)
                    for _ in range(rng.randrange(0, 4)):
                        try:
                            s.send(w.payload(size(s.send_miu)), nfc.llcp.MSG_DONTWAIT)            # public API path
                        except nfc.llcp.Error:
                            break
                    if rng.random() < 0.3:
                        s.mode.RECV_BUSY = True
                    if rng.random() < 0.15:
                        s.mode.RECV_BUSY_SENT = not s.mode.RECV_BUSY
                    else:
                        s.mode.RECV_BUSY_SENT = s.mode.RECV_BUSY
                    if rng.random() < 0.5:
                        # received and confirmed but not yet acknowledged I PDUs: V(RA) + confs (+ unread) = V(R)
                        s.recv_ack = rng.randrange(16)
                        s.recv_confs = rng.randrange(0, s.recv_win + 1)
                        unread = rng.randrange(0, s.recv_win - s.recv_confs + 1)
                        s.recv_cnt = (s.recv_ack + s.recv_confs + unread) % 16
                    if rng.random() < 0.08:
                        s.send_queue.append(pdu.FrameReject(s.peer, a, flags=1, ptype=12))
                    if rng.random() < 0.1:
                        s.send_queue.append(pdu.Disconnect(s.peer, a))
                else:
                    s.state.value = rng.choice([0, 1, 2, 3, 5, 6])
                    k = rng.random()
                    if k < 0.4:
                        sn = b"urn:nfc:sn:" + bytes(rng.randrange(97, 123) for _ in range(rng.choice([2, 20, 100, 140])))
                        sn = rng.choice([sn, sn, None, b""])       # connect by address / by (empty) name
                        s.send_queue.append(pdu.Connect(s.peer, a, miu=rng.choice([128, 500, 2175]),
                                                        rw=rng.choice([0, 1, 2, 15]), sn=sn))
                    elif k < 0.6:
                        s.send_queue.append(pdu.ConnectionComplete(s.peer, a, miu=rng.choice([128, 128, 500, 2175]),
                                                                   rw=rng.choice([0, 1, 1, 7, 15])))
                    elif k < 0.8:
                        s.send_queue.append(pdu.DisconnectedMode(s.peer, a, 0))
            sap.sock_list.append(s)
            if kind != "ldl" and rng.random() < 0.7:
                break
        for _ in range(rng.choice([0, 0, 0, 1, 2])):
            sap.send(pdu.DisconnectedMode(rng.randrange(2, 64), a, 1))


def random_states(run, mods, rng, n):
    ck = run.ck
    for _ in range(n):
        miu = rng.choice(MIUS) if rng.random() < 0.7 else rng.randrange(128, 2176)
        agf = rng.random() < 0.75
        icv = rng.choice([None, None, None, 4, 4, 4, 4, 1, 8, 16, 0])
        profile = {"sd": 0.5, "saps": rng.choice([0, 1, 2, 3, 6, 12]), "raw": rng.choice([0, 0, 0, 1, 3])}
        w = None
        try:
            w = World(ck, mods, miu, agf, icv, recv_miu=rng.choice([128, 248, 1000, 2175]))
            build(rng, w, profile)
        except Exception as e:  # noqa
            ck.fail("state-construction-raises-" + exc_name(e), "filling the queues through the socket API raised %r" % (e,),
                    {"miu": miu, "agf": agf, "icv_size": icv, "state": _safe(w.render) if w else None, "where": _where(e)})
            continue
        bucket = ("sec" if icv is not None else "plain") + ("/agf" if agf else "/noagf")
        try:
            run.drain(w, "collect()/dequeue()/sendack()/encrypt() model vs real LogicalLinkController (random queue fillings)", bucket)
        except Exception as e:  # noqa
            ck.fail("exploration-raises-" + exc_name(e), "draining the queues raised %r" % (e,),
                    {"miu": miu, "agf": agf, "icv_size": icv, "state": _safe(w.render), "where": _where(e)})


def _where(e):
    import traceback
    tb = traceback.extract_tb(e.__traceback__)
    return ["%s:%d %s" % (f.filename.split("/")[-1], f.lineno, f.name) for f in tb[-4:]]


def _safe(f):
    try:
        return f()
    except Exception as e:  # noqa
        return "unrenderable: %r" % (e,)


# ---------------------------------------------------------------------- (b) boundary sweeps
def sweep(run, mods, rng, thorough):
    """first PDU x second PDU x payload around the aggregation budget x MIU x ICV"""
    ck = run.ck
    nfc, llcmod, tco, pdu = mods
    tie = "collect() model vs real LogicalLinkController (aggregation budget sweeps)"
    mius = [128, 131, 2175] + ([129, 130, 248, 1021] if thorough else [rng.choice([129, 130, 133, 248, 255, 1021, 2174])])
    icvs = [None, 4] + ([1, 16] if thorough else [rng.choice([1, 8, 16])])
    firsts = ["ui", "i", "snl", "dm", "rr", "cc"]
    seconds = ["ui", "i", "connect", "snl"]
    for miu in mius:
        for icv in icvs:
            k = icv or 0
            for first in firsts:
                for second in seconds:
                    if first == "snl" and second == "snl":
                        continue
                    if not thorough and rng.random() < 0.35:
                        continue
                    n1 = rng.choice([0, 3, 10, 10, 40])
                    def one(delta, miu=miu, icv=icv, k=k, first=first, second=second, n1=n1):
                        w = World(ck, mods, miu, True, icv)
                        llc = w.llc
                        ldl = tco.LogicalDataLink(recv_miu=128)
                        llc.sap[32] = llcmod.ServiceAccessPoint(32, llc)
                        ldl.bind(32)
                        ldl.send_miu = miu
                        llc.sap[32].sock_list.append(ldl)

                        def dlc(addr, peer, first_socket=True):
                            d = tco.DataLinkConnection(recv_miu=128, recv_win=2)
                            if llc.sap[addr] is None:
                                llc.sap[addr] = llcmod.ServiceAccessPoint(addr, llc)
                            d.bind(addr)
                            d.peer = peer
                            d.send_miu, d.send_win = miu, 8
                            d.state.ESTABLISHED = True
                            w.conn[(addr, peer)] = miu
                            llc.sap[addr].sock_list.append(d)
                            return d
                        # ---- first PDU, `used` = its octets inside the aggregate (without the length field)
                        if first == "ui":
                            ldl.send_queue.append(pdu.UnnumberedInformation(16, 32, w.payload(n1)))
                            used = 2 + n1 + k
                        elif first == "i":
                            d0 = dlc(33, 17)
                            d0.send(w.payload(n1), nfc.llcp.MSG_DONTWAIT)
                            used = 3 + n1 + k
                        elif first == "snl":
                            llc.sap[1].sdres.extend((i, 16) for i in range(3))
                            used = 2 + 12
                        elif first == "dm":
                            llc.sap[0].send(pdu.DisconnectedMode(20, 0, 2))
                            used = 3
                        elif first == "rr":
                            d0 = dlc(33, 17)
                            d0.recv_cnt, d0.recv_confs = 1, 1          # voluntary acknowledgement pending
                            used = 3
                        else:
                            d0 = tco.DataLinkConnection(recv_miu=128, recv_win=2)
                            llc.sap[33] = llcmod.ServiceAccessPoint(33, llc)
                            d0.bind(33)
                            d0.state.LISTEN = True
                            llc.sap[33].sock_list.append(d0)
                            cc = pdu.ConnectionComplete(17, 33, miu=rng.choice([128, 500]), rw=rng.choice([1, 5]))
                            d0.send_queue.append(cc)
                            used = len(cc)
                        # ---- second PDU sized to the octet around what is left: 2 (AGF) + 2 + used + 2 + second <= miu
                        room = miu - 2 - 2 - used - 2
                        if second == "ui":
                            n2 = room - 2 - k + delta
                            if n2 < 0:
                                return
                            ldl.send_queue.append(pdu.UnnumberedInformation(18, 32, w.payload(n2)))
                        elif second == "i":
                            n2 = room - 3 - k + delta
                            if n2 < 0:
                                return
                            d1 = dlc(34, 19)
                            try:
                                d1.send(w.payload(n2), nfc.llcp.MSG_DONTWAIT)
                            except nfc.llcp.Error:
                                return
                        elif second == "connect":
                            # a CONNECT by name of the matching length (never encrypted): 2 + MIUX 4 + SN 2 + n2
                            n2 = room - 8 + delta
                            if n2 < 1 or n2 > 255:
                                return
                            d1 = tco.DataLinkConnection(recv_miu=128, recv_win=1)
                            llc.sap[35] = llcmod.ServiceAccessPoint(35, llc)
                            d1.bind(35)
                            d1.state.CONNECT = True
                            llc.sap[35].sock_list.append(d1)
                            d1.send_queue.append(pdu.Connect(1, 35, miu=2175, rw=1, sn=bytes(97 + i % 26 for i in range(n2))))
                        else:
                            # an answer and a request that fill the remaining octets: 2 + 4 + 3 + n2
                            n2 = room - 9 + delta
                            if n2 < 1 or n2 > 254:
                                return
                            llc.sap[1].sdreq.append((7, bytes(97 + i % 26 for i in range(n2))))
                            llc.sap[1].sdres.append((9, 20))
                        bucket = "sweep " + ("sec" if icv is not None else "plain")
                        run.drain(w, tie, bucket, rounds=6)
                    for delta in range(-3 - k, 4):
                        try:
                            one(delta)
                        except Exception as e:  # noqa
                            ck.fail("exploration-raises-" + exc_name(e), "building or draining a sweep state raised %r" % (e,),
                                    {"miu": miu, "icv_size": icv, "delta": delta, "where": _where(e)})


def sweep_tail(run, mods, rng, thorough):
    """a first UI / I PDU sized so that it plus a tail of small PDUs - voluntary acknowledgements of several
    connections, DM PDUs from send lists, a one-answer SNL - ends -6..+3 octets around the MIU: the budget
    arithmetic of the second aggregation loop and of the acknowledgement pass at every boundary"""
    ck = run.ck
    nfc, llcmod, tco, pdu = mods
    tie = "collect() model vs real LogicalLinkController (aggregation budget sweeps)"
    mius = [128, 130] + ([129, 131, 255, 2175] if thorough else [rng.choice([129, 131, 133, 255, 1021, 2175])])
    icvs = [None, 4] + ([16] if thorough else [])
    for miu in mius:
        for icv in icvs:
            k = icv or 0
            for acks in (0, 1, 2, 3, 4):
                for dms in (0, 1, 2):
                    for snl in (0, 1):
                        if acks + dms + snl == 0 or (not thorough and rng.random() < 0.4):
                            continue
                        first = rng.choice(["ui", "i"])
                        tail = 5 * acks + 5 * dms + 8 * snl
                        def one(delta, miu=miu, icv=icv, k=k, first=first, tail=tail, acks=acks, dms=dms, snl=snl):
                            hdr = 2 if first == "ui" else 3
                            n = miu + delta - 2 - 2 - hdr - k - tail
                            if n < 0:
                                return
                            w = World(ck, mods, miu, True, icv)
                            llc = w.llc
                            sap = llc.sap[32] = llcmod.ServiceAccessPoint(32, llc)
                            if first == "ui":
                                s = tco.LogicalDataLink(recv_miu=128)
                                s.bind(32)
                                s.send_miu = miu
                                s.send_queue.append(pdu.UnnumberedInformation(16, 32, w.payload(n)))
                            else:
                                s = tco.DataLinkConnection(recv_miu=128, recv_win=2)
                                s.bind(32)
                                s.peer, s.send_miu, s.send_win = 16, miu, 8
                                s.state.ESTABLISHED = True
                                w.conn[(32, 16)] = miu
                                s.send_queue.append(pdu.Information(16, 32, 0, 0, w.payload(n)))
                                s.send_cnt = 1
                            sap.sock_list.append(s)
                            for i in range(dms):
                                sap.send(pdu.DisconnectedMode(20 + i, 32, 1))
                            if snl:
                                llc.sap[1].sdres.append((5, 16))
                            for i in range(acks):
                                a = 40 + i
                                d = tco.DataLinkConnection(recv_miu=128, recv_win=2)
                                llc.sap[a] = llcmod.ServiceAccessPoint(a, llc)
                                d.bind(a)
                                d.peer, d.send_miu, d.send_win = 10 + i, 128, 1
                                d.state.ESTABLISHED = True
                                d.recv_cnt, d.recv_confs = 1, 1      # one I PDU received and read: voluntary ack pending
                                if rng.random() < 0.3:
                                    d.mode.RECV_BUSY = d.mode.RECV_BUSY_SENT = True
                                llc.sap[a].sock_list.append(d)
                            run.drain(w, tie, "sweep tail " + ("sec" if icv is not None else "plain"), rounds=8)
                        for delta in range(-6, 4):
                            try:
                                one(delta)
                            except Exception as e:  # noqa
                                ck.fail("exploration-raises-" + exc_name(e), "building or draining a sweep state raised %r" % (e,),
                                        {"miu": miu, "icv_size": icv, "delta": delta, "where": _where(e)})


def sweep_snl(run, mods, rng, thorough):
    """service discovery batching: answers around MIU/4, requests whose names end -3..+3 octets around what the
    answers left, as the only PDU and behind a first PDU (aggregation on / off)"""
    ck = run.ck
    nfc, llcmod, tco, pdu = mods
    tie = "collect() model vs real LogicalLinkController (aggregation budget sweeps)"
    mius = [128, 130, 131] + ([129, 133, 248, 2175] if thorough else [rng.choice([129, 133, 248, 1021, 2175])])
    for miu in mius:
        for agf in (True, False):
            for lead in (None, "ui", "dm"):
                for nres in sorted({0, 1, miu // 4 - 1, miu // 4, miu // 4 + 1, 33, 40}):
                    if not thorough and rng.random() < 0.3:
                        continue
                    for delta in range(-3, 4):
                        def one():
                            w = World(ck, mods, miu, agf, None)
                            llc = w.llc
                            used = 0
                            if lead == "ui":
                                s = tco.LogicalDataLink(recv_miu=128)
                                llc.sap[32] = llcmod.ServiceAccessPoint(32, llc)
                                s.bind(32)
                                s.send_miu = miu
                                n = rng.choice([0, 5, 20])
                                s.send_queue.append(pdu.UnnumberedInformation(16, 32, w.payload(n)))
                                llc.sap[32].sock_list.append(s)
                                used = 2 + 2 + n + 2 + 2         # aggregate header, length + UI, length + SNL header
                            elif lead == "dm":
                                llc.sap[0].send(pdu.DisconnectedMode(20, 0, 2))
                                used = 2 + 2 + 3 + 2 + 2
                            for i in range(nres):
                                llc.sap[1].sdres.append((i % 256, 16 + i % 16))
                            room = miu - used - 4 * min(nres, max(0, (miu - used)) // 4)
                            # two requests: the first fills the room to `delta`, the second is short
                            ln = room - 3 + delta
                            if 1 <= ln <= 254:
                                llc.sap[1].sdreq.append((1, bytes(97 + i % 26 for i in range(ln))))
                            llc.sap[1].sdreq.append((2, b"urn:nfc:sn:x"))
                            if rng.random() < 0.5:
                                llc.sap[1].sdreq.append((3, bytes(97 + i % 26 for i in range(rng.choice([1, 100, 254])))))
                            run.drain(w, tie, "sweep snl", rounds=5)
                        try:
                            one()
                        except Exception as e:  # noqa
                            ck.fail("exploration-raises-" + exc_name(e), "building or draining a sweep state raised %r" % (e,),
                                    {"miu": miu, "nres": nres, "delta": delta, "where": _where(e)})


# ---------------------------------------------------------------------- (c) histories through the public API
class History(object):
    def __init__(self, run, mods, rng, miu, agf, icv):
        self.run, self.rng = run, rng
        self.ck = run.ck
        self.nfc, self.llcmod, self.tco, self.pdu = mods
        self.w = World(run.ck, mods, miu, agf, icv, recv_miu=rng.choice([128, 248, 2175]))
        self.tie = "socket operations + collect() model vs real LogicalLinkController (histories, every step)"
        self.ldls, self.dlcs, self.listeners, self.strays = [], [], [], []
        self.ops = []           # the whole history for the one-piece comparison
        self.outcomes = []
        self.initial = self.w.render()
        self.last = self.initial    # state after the last recorded step (the one-piece comparison needs an unbroken chain)
        self.chain = True
        self.broken = False
        self.peers = list(range(2, 64))
        rng.shuffle(self.peers)

    # one real operation; `opf` builds the model operation from the state after it (receive-side changes are
    # reported to the model, not predicted by it)
    def step(self, name, fn, opf, boundary=False):
        w, ck = self.w, self.ck
        before = w.render()
        if before != self.last:
            self.chain = False
        ctx = {"state": before, "miu": w.miu, "agf": w.agf, "icv_size": w.icv, "operation": name}
        try:
            r = fn()
            out = "ok" if (r is True or r is None) else "ret:%r" % (r,)
        except self.nfc.llcp.Error as e:
            out = "exc:" + exc_name(e)
        except Exception as e:  # noqa
            out = "exc:" + exc_name(e)
            ck.fail("api-raises-%s:%s" % (exc_name(e), name.split("(")[0]), "%s raised %r" % (name, e), ctx)
            self.broken = True
        try:
            after = w.render()
            op = opf()
        except Exception as e:  # noqa
            ck.fail("state-unusable-after:%s" % name.split("(")[0], "%s left a state that can not be inspected: %r" % (name, e), ctx)
            self.broken = True
            return out
        self.run.req(self.tie, w, before, op, out + " # " + after)
        self.ops.append(op)
        self.outcomes.append(out)
        self.last = after
        ck.case((before, op, w.miu, w.icv), boundary, "op " + name.split("(")[0])
        if out != "ok":
            ck.count("outcome %s %s" % (name.split("(")[0], out))
        return out

    def collect(self):
        if self.w.render() != self.last:
            self.chain = False
        out, frame = self.run.collect(self.w, self.tie, "history collect")
        self.ops.append("collect")
        self.outcomes.append(out)
        self.last = _safe(self.w.render)
        return frame

    # ---- sockets
    def bind_ldl(self):
        llc = self.w.llc
        s = llc.socket(self.nfc.llcp.LOGICAL_DATA_LINK)
        self.step("bind(ldl)", lambda: llc.bind(s), lambda: "bindldl:%d" % self.w.pos(s.addr))
        if s.addr is not None:
            self.ldls.append(s)

    def bind_dlc(self, rw):
        llc = self.w.llc
        s = llc.socket(self.nfc.llcp.DATA_LINK_CONNECTION)
        llc.setsockopt(s, self.nfc.llcp.SO_RCVBUF, rw)
        self.step("bind(dlc)", lambda: llc.bind(s), lambda: "binddlc:%d:%d" % (self.w.pos(s.addr), s.recv_win))
        return s if s.addr is not None else None

    def connect(self, announced, rw, by_name=False):
        """llc.connect() answered by CC(miu=announced, rw): the answer is waiting in the receive queue"""
        rng, pdu, w = self.rng, self.pdu, self.w
        s = self.bind_dlc(rng.randrange(1, 16))
        if s is None:
            return
        if not self.peers:
            return
        peer = self.peers.pop()
        s.recv_queue.append(pdu.ConnectionComplete(s.addr, peer, miu=announced, rw=rw))
        w.conn[(s.addr, peer)] = min(announced, w.miu)      # what the peer announced, never more than its link MIU
        dest = (b"urn:nfc:sn:" + bytes(rng.randrange(97, 123) for _ in range(rng.choice([3, 30])))) if by_name else peer

        def opf():
            a, j = w.sockpos(s)
            c = s.send_queue[-1]
            return "connected:%d:%d:%d:%d:%d:%d" % (a, j, announced, rw, len(c), c.dsap * 64 + c.ssap)
        out = self.step("connect(dlc)", lambda: w.llc.connect(s, dest), opf, boundary=announced >= w.miu - 1)
        if out == "ok":
            self.dlcs.append(s)
            self.check_conn_miu(s, announced, "connect")

    def listen_accept(self, announced, rw):
        rng, pdu, w = self.rng, self.pdu, self.w
        if not self.listeners or rng.random() < 0.3:
            s = self.bind_dlc(rng.randrange(1, 16))
            if s is None:
                return
            out = self.step("listen(dlc)", lambda: w.llc.listen(s, 4), lambda: "listen:%d:%d" % w.sockpos(s))
            if out != "ok":
                return
            self.listeners.append(s)
        lsn = rng.choice(self.listeners)
        if not self.peers:
            return
        peer = self.peers.pop()
        try:
            w.llc.dispatch(pdu.Connect(lsn.addr, peer, miu=announced, rw=rw))
        except Exception as e:  # noqa
            self.ck.fail("dispatch-raises-" + exc_name(e), "dispatch(CONNECT) raised %r" % (e,), {"state": _safe(w.render)})
            self.broken = True
            return
        if not len(lsn.recv_queue):
            return
        w.conn[(lsn.addr, peer)] = min(announced, w.miu)
        got = []
        a0, j0 = w.sockpos(lsn)

        def fn():
            got.append(w.llc.accept(lsn))

        def opf():
            cc = lsn.send_queue[-1]
            return "accepted:%d:%d:%d:%d:%d:%d" % (a0, j0, announced, rw, len(cc), cc.dsap * 64 + cc.ssap)
        out = self.step("accept(dlc)", fn, opf, boundary=announced >= w.miu - 1)
        if out == "ok" and got:
            self.dlcs.append(got[0])
            self.check_conn_miu(got[0], announced, "accept")

    def stray(self):
        """a bound connection-mode socket left in some other state (closed by the peer, shut down, connecting, ...)"""
        s = self.bind_dlc(self.rng.randrange(1, 16))
        if s is None:
            return
        s.state.value = self.rng.choice([0, 1, 3, 5, 6])
        s.peer = self.peers.pop() if self.peers else None
        self.strays.append(s)

    def misuse(self):
        """operations on sockets in the wrong state: refused without any effect on the queues"""
        w, rng, pdu = self.w, self.rng, self.pdu
        pool = self.dlcs + self.strays + self.listeners
        if not pool:
            return
        s = rng.choice(pool)
        what = rng.choice(["connect", "listen", "accept"])
        if what == "connect" and s.state.CLOSED:
            return              # would really connect (and wait for the answer)
        if what == "listen" and s.state.CLOSED:
            return
        if what == "accept" and s.state.LISTEN:
            return              # would wait for a CONNECT
        a, j = w.sockpos(s)
        if what == "connect":
            self.step("connect(wrong state)", lambda: w.llc.connect(s, 20), lambda: "connected:%d:%d:128:1:2:0" % (a, j))
        elif what == "listen":
            self.step("listen(wrong state)", lambda: w.llc.listen(s, 2), lambda: "listen:%d:%d" % (a, j))
        else:
            self.step("accept(wrong state)", lambda: w.llc.accept(s) and None, lambda: "accepted:%d:%d:128:1:2:0" % (a, j))

    def check_conn_miu(self, s, announced, via):
        w = self.w
        want = min(announced, w.miu)
        if s.send_miu != want:
            self.ck.fail("connection-miu-not-announced-miu", "after %s the connection MIU is %d, the peer announced %d on a link "
                         "with MIU %d" % (via, s.send_miu, announced, w.miu), {"announced": announced, "link_miu": w.miu, "via": via})

    # ---- data
    def sendto(self, n):
        w, rng = self.w, self.rng
        s = rng.choice(self.ldls)
        data = w.payload(n)
        pid = data[0] * 40000 + data[1] * 200 + data[2] if n >= 3 else 0
        dest = rng.randrange(2, 64)
        out = self.step("sendto(%d)" % n, lambda: w.llc.sendto(s, data, dest, self.nfc.llcp.MSG_DONTWAIT),
                        lambda: "sendto:%d:%d:%d:%d" % (w.sockpos(s) + (n, pid)), boundary=abs(n - w.miu) <= 1)
        if out == "ok" and n > w.miu:
            self.ck.fail("sendto-oversize-accepted", "sendto(%d octets) accepted at link MIU %d" % (n, w.miu), {"miu": w.miu, "n": n})
        if out != "ok" and n <= w.miu and not self.broken:
            self.ck.fail("sendto-refused", "sendto(%d octets) at link MIU %d -> %s" % (n, w.miu, out), {"miu": w.miu, "n": n})

    def send(self, s, n, via):
        w = self.w
        data = w.payload(n)
        pid = data[0] * 40000 + data[1] * 200 + data[2] if n >= 3 else 0
        limit = w.conn.get((s.addr, s.peer))
        fn = (lambda: w.llc.send(s, data, self.nfc.llcp.MSG_DONTWAIT)) if via == "send" else \
            (lambda: w.llc.sendto(s, data, s.peer, self.nfc.llcp.MSG_DONTWAIT))
        out = self.step("%s(%d)" % (via, n), fn, lambda: "send:%d:%d:%d:%d" % (w.sockpos(s) + (n, pid)),
                        boundary=limit is not None and abs(n - limit) <= 1)
        if limit is not None:
            if out == "ok" and n > limit:
                self.ck.fail("i-payload-exceeds-connection-miu", "llc.%s(%d octets) accepted on a connection whose peer announced "
                             "MIU %d (link MIU %d)" % (via, n, limit, w.miu), {"link_miu": w.miu, "connection_miu": limit, "n": n, "via": via})
            if s.state.ESTABLISHED and s.send_miu != limit:
                self.ck.fail("connection-miu-overwritten", "llc.%s changed the connection MIU %d to %d" % (via, limit, s.send_miu),
                             {"link_miu": w.miu, "connection_miu": limit, "via": via})

    # ---- what the peer does
    def peer_i(self, s):
        """an I PDU arrives and the application reads it"""
        w, pdu = self.w, self.pdu
        if not s.state.ESTABLISHED or s.recv_window_slots == 0 or len(s.recv_queue) >= s.recv_buf:
            return

        data = b"in" if w.icv is None else FakeCipher(w.icv).encrypt(None, b"in")
        read = self.rng.random() < 0.8

        def fn():
            w.llc.dispatch(pdu.Information(s.addr, s.peer, ns=s.recv_cnt, nr=s.send_ack, data=data))
            if read and len(s.recv_queue) and s.recv_queue[0].name == "I":
                w.llc.recv(s)
        self.step("peer-I", fn, lambda: "setrecv:%d:%d:%d:%d:%d:%d:%d" % (
            w.sockpos(s) + (s.recv_win, s.recv_cnt, s.recv_ack, s.recv_confs, 1 if s.mode.RECV_BUSY else 0)))

    def peer_rr(self, s):
        w, pdu = self.w, self.pdu
        if not s.state.ESTABLISHED:
            return
        self.step("peer-RR", lambda: w.llc.dispatch(pdu.ReceiveReady(s.addr, s.peer, s.send_cnt)),
                  lambda: "setsend:%d:%d:%d:%d:%d" % (w.sockpos(s) + (s.send_win or 0, s.send_cnt, s.send_ack)))

    def busy(self, s):
        w = self.w
        v = self.rng.random() < 0.5
        def fn():
            w.llc.setsockopt(s, self.nfc.llcp.SO_RCVBSY, v)
        self.step("setsockopt(RCVBSY)", fn,
                  lambda: "setrecv:%d:%d:%d:%d:%d:%d:%d" % (
                      w.sockpos(s) + (s.recv_win, s.recv_cnt, s.recv_ack, s.recv_confs, 1 if s.mode.RECV_BUSY else 0)))

    def peer_sdreq(self, k):
        """the peer asks for k service names: k answers become pending"""
        w, pdu, rng = self.w, self.pdu, self.rng
        reqs = [(rng.randrange(256), rng.choice([b"urn:nfc:sn:sdp", b"urn:nfc:sn:none", b"urn:nfc:sn:x"])) for _ in range(k)]
        n0 = len(w.llc.sap[1].sdres)

        def opf():
            new = list(w.llc.sap[1].sdres)[n0:]
            return ",".join("sdres:1:%d" % (tid * 256 + a) for tid, a in new) if new else "setsend:0:0:0:0:0"
        before = w.render()
        try:
            w.llc.dispatch(pdu.ServiceNameLookup(1, 1, sdreq=reqs))
            after = w.render()
            op = opf()
        except Exception as e:  # noqa
            self.ck.fail("dispatch-raises-" + exc_name(e), "dispatch(SNL) raised %r" % (e,), {"state": before})
            self.broken = True
            return
        if before != self.last:
            self.chain = False
        if op.startswith("sdres"):
            self.run.req(self.tie, w, before, op, ",".join(["ok"] * k) + " # " + after)
            self.ops.append(op)
            self.outcomes.extend(["ok"] * k)
            self.last = after
            self.ck.case((before, op), False, "op peer-SNL")

    def local_sdreq(self, ln):
        """what resolve() does before it waits for the answer"""
        w, rng = self.w, self.rng
        tid = rng.randrange(256)
        name = b"urn:nfc:sn:" + bytes(rng.randrange(97, 123) for _ in range(max(1, min(ln, 243))))
        self.step("resolve", lambda: w.llc.sap[1].sdreq.append((tid, name)), lambda: "sdreq:1:%d:%d" % (tid, len(name)))

    def peer_connect_unknown(self):
        """CONNECT for a service nobody offers: DM from the service discovery SAP"""
        w, pdu, rng = self.w, self.pdu, self.rng
        ssap = rng.randrange(2, 64)
        self.step("peer-CONNECT(unknown name)", lambda: w.llc.dispatch(pdu.Connect(1, ssap, sn=b"urn:nfc:sn:nobody")),
                  lambda: "sddm:1:%d" % (ssap * 64 + 1))

    def peer_connect_refused(self):
        """CONNECT to a bound address without a listening socket: DM from that SAP"""
        w, pdu, rng = self.w, self.pdu, self.rng
        socks = [s for s in self.ldls + self.dlcs if s.addr is not None and s not in self.listeners]
        if not socks:
            return
        s = rng.choice(socks)
        if any(x.state.LISTEN for x in w.llc.sap[s.addr].sock_list if hasattr(x.state, "LISTEN") and isinstance(x, self.tco.DataLinkConnection)):
            return
        ssap = rng.randrange(2, 64)
        self.step("peer-CONNECT(no listener)", lambda: w.llc.dispatch(pdu.Connect(s.addr, ssap)),
                  lambda: "dm:%d:%d" % (w.pos(s.addr), ssap * 64 + s.addr))

    # ---- the one-piece comparison
    def finish(self):
        if self.broken or not self.ops or not self.chain:
            self.ck.count("histories not compared in one piece")
            return
        w = self.w
        self.run.req("whole histories (run of all operations from the initial state) model vs real LogicalLinkController",
                     w, self.initial, ",".join(self.ops), ",".join(self.outcomes) + " # " + w.render())


def histories(run, mods, rng, n, steps):
    for _ in range(n):
        miu = rng.choice(MIUS) if rng.random() < 0.75 else rng.randrange(128, 2176)
        agf = rng.random() < 0.8
        icv = rng.choice([None, None, 4, 4, 4, 1, 16])
        k = icv or 0
        h = None
        try:
            h = History(run, mods, rng, miu, agf, icv)
            for _ in range(rng.choice([1, 1, 2, 3])):
                h.bind_ldl()
            for _ in range(rng.choice([0, 1, 2, 3])):
                announced = rng.choice([128, 128, miu - 1, miu, miu + 1, 2175, rng.randrange(128, 2176)])
                if rng.random() < 0.6:
                    h.connect(max(128, announced), rng.randrange(1, 16), by_name=rng.random() < 0.3)
                else:
                    h.listen_accept(max(128, announced), rng.randrange(1, 16))
            if rng.random() < 0.4:
                h.stray()
            last = 0
            for _ in range(steps):
                if h.broken:
                    break
                r = rng.random()
                if r > 0.985:
                    h.misuse()
                    continue
                if r < 0.25 and h.ldls:
                    c = rng.random()
                    if c < 0.25:
                        n1 = rng.choice([miu - 1, miu, miu + 1, miu + 50])
                    elif c < 0.6:
                        n1 = max(0, miu - last - rng.randrange(0, 24 + 2 * k))      # fills what the last message left
                    else:
                        n1 = rng.choice([0, 1, 2, 3, 10, 40, rng.randrange(0, miu + 1)])
                    last = n1
                    h.sendto(n1)
                elif r < 0.5 and h.dlcs:
                    s = rng.choice(h.dlcs if rng.random() < 0.9 or not (h.listeners + h.strays) else h.listeners + h.strays)
                    cm = h.w.conn.get((s.addr, s.peer), miu)
                    c = rng.random()
                    if c < 0.3:
                        n1 = rng.choice([cm - 1, cm, cm + 1, miu, miu + 1])
                    elif c < 0.65:
                        n1 = max(0, min(cm, miu - last - rng.randrange(0, 24 + 2 * k)))
                    else:
                        n1 = rng.choice([0, 1, 3, 10, 40, rng.randrange(0, cm + 1)])
                    last = n1
                    h.send(s, n1, rng.choice(["send", "send", "sendto"]))
                elif r < 0.58 and h.dlcs:
                    h.peer_i(rng.choice(h.dlcs))
                elif r < 0.63 and h.dlcs:
                    h.peer_rr(rng.choice(h.dlcs))
                elif r < 0.66 and h.dlcs:
                    h.busy(rng.choice(h.dlcs))
                elif r < 0.72:
                    h.peer_sdreq(rng.choice([1, 2, 5, miu // 4, miu // 4 + 1, 33]))
                elif r < 0.76:
                    h.local_sdreq(rng.choice([1, 10, 100, 243, miu - 3 - 11 - rng.randrange(0, 8)]))
                elif r < 0.79:
                    h.peer_connect_unknown()
                elif r < 0.82:
                    h.peer_connect_refused()
                elif r < 0.84:
                    announced = rng.choice([128, miu - 1, miu, miu + 1, 2175])
                    if rng.random() < 0.5:
                        h.connect(max(128, announced), rng.randrange(1, 16))
                    else:
                        h.listen_accept(max(128, announced), rng.randrange(1, 16))
                else:
                    h.collect()
            for _ in range(30):
                if h.broken or quiet(h.w.render()):
                    break
                if h.collect() is None:
                    break
            h.finish()
        except Exception as e:  # noqa
            run.ck.fail("history-raises-" + exc_name(e), "a history of socket operations raised %r" % (e,),
                        {"miu": miu, "agf": agf, "icv_size": icv, "operations": h.ops[-10:] if h else [],
                         "state": _safe(h.w.render) if h else None, "where": _where(e)})


# ---------------------------------------------------------------------- EMSGSIZE checks of the public API
def api_checks(ck, mods, rng):
    nfc, llcmod, tco, pdu = mods
    for miu in [128, 129, 133, 248, 2175] + [rng.randrange(128, 2176) for _ in range(20)]:
        try:
            _api_checks_at(ck, mods, rng, miu)
        except Exception as e:  # noqa
            ck.fail("api-check-raises-" + exc_name(e), "the sendto()/send() size checks raised %r at link MIU %d" % (e, miu), {"miu": miu})


def _api_checks_at(ck, mods, rng, miu):
    nfc, llcmod, tco, pdu = mods
    llc = llcmod.LogicalLinkController(miu=248, sec=False)
    llc.cfg["send-miu"] = miu
    s = llc.socket(nfc.llcp.LOGICAL_DATA_LINK)
    llc.bind(s)
    for n in (miu - 1, miu, miu + 1, miu + 100):
        try:
            llc.sendto(s, bytes(n), 16, nfc.llcp.MSG_DONTWAIT)
            ok = True
        except nfc.llcp.Error as e:
            ok = False
            if e.errno != 90:
                ck.fail("sendto-wrong-errno", "sendto(%d bytes) at MIU %d -> errno %d" % (n, miu, e.errno), {"miu": miu, "n": n})
        ck.case(("sendto", miu, n), True, "api")
        if ok != (n <= miu):
            ck.fail("sendto-oversize-accepted" if ok else "sendto-refused", "sendto(%d bytes) at link MIU %d -> %s" % (n, miu, ok),
                    {"miu": miu, "n": n})
    # connection-mode socket through the controller API: the CONNECTION MIU (from CONNECT/CC) governs,
    # not the link MIU
    for cmiu in sorted({128, max(128, miu - 1), max(128, miu // 2)}):
        c = llc.socket(nfc.llcp.DATA_LINK_CONNECTION)
        llc.bind(c)
        c.peer = 34
        c.state.ESTABLISHED = True
        c.send_win = 15
        c.send_miu = cmiu
        for via in ("send", "sendto"):
            for n in (cmiu - 1, cmiu, cmiu + 1, miu, miu + 1):
                c.send_cnt = c.send_ack = 0
                c.send_queue.clear()
                try:
                    if via == "send":
                        llc.send(c, bytes(n), nfc.llcp.MSG_DONTWAIT)
                    else:
                        llc.sendto(c, bytes(n), 34, nfc.llcp.MSG_DONTWAIT)
                    ok = True
                except nfc.llcp.Error:
                    ok = False
                ck.case(("llc." + via, miu, cmiu, n), True, "api")
                if ok and n > cmiu:
                    ck.fail("i-payload-exceeds-connection-miu", "llc.%s(%d octets) accepted on a connection with MIU %d (link MIU %d)"
                            % (via, n, cmiu, miu), {"link_miu": miu, "connection_miu": cmiu, "n": n, "via": via})
                if not ok and n <= cmiu:
                    ck.fail("send-refused", "llc.%s(%d octets) refused on a connection with MIU %d" % (via, n, cmiu),
                            {"link_miu": miu, "connection_miu": cmiu, "n": n})
                if c.send_miu != cmiu:
                    ck.fail("connection-miu-overwritten", "llc.%s changed the connection MIU %d to %d" % (via, cmiu, c.send_miu),
                            {"link_miu": miu, "connection_miu": cmiu})
                    c.send_miu = cmiu
    d = tco.DataLinkConnection(recv_miu=128, recv_win=1)
    d.bind(33)
    d.peer = 34
    d.state.ESTABLISHED = True
    d.send_win = 15
    d.send_miu = min(miu, rng.choice([128, miu]))
    for n in (d.send_miu - 1, d.send_miu, d.send_miu + 1):
        d.send_cnt = d.send_ack = 0
        try:
            d.send(bytes(n), nfc.llcp.MSG_DONTWAIT)
            ok = True
        except nfc.llcp.Error:
            ok = False
        ck.case(("send", d.send_miu, n), True, "api")
        if ok != (n <= d.send_miu):
            ck.fail("send-oversize-accepted" if ok else "send-refused", "send(%d bytes) at connection MIU %d -> %s" % (n, d.send_miu, ok),
                    {"miu": d.send_miu, "n": n})


def run(ck):
    import nfc
    import nfc.llcp
    import nfc.llcp.llc as llcmod
    import nfc.llcp.tco as tco
    import nfc.llcp.pdu as pdu
    mods = (nfc, llcmod, tco, pdu)
    rng = ck.rng
    ck.rule = ("a case = one step on a real LogicalLinkController: a call of collect() - on a SAP table / queues filled at "
               "random (service discovery answers+requests, DM PDUs, raw / connection-less / connection-mode sockets in "
               "every socket state, busy mode changes, pending acknowledgements, CONNECT / CC / DISC / FRMR / SYMM / PAX / "
               "DPS PDUs), on the states of the aggregation budget sweeps (second PDU sized -7..+3 octets around what the "
               "first left), or inside a history - or one socket operation of a history (bind, sendto, send, connect, "
               "listen, accept, incoming I / RR / SNL / CONNECT PDUs, SO_RCVBSY); remote MIU 128..2175 incl. non multiples "
               "of 4, aggregation on/off, secure data transfer off / on with ICV 0, 1, 4, 8, 16; non-trivial = a frame was "
               "returned that aggregates >= 2 PDUs or whose information field is within 8 (+ICV) octets of the MIU, or an "
               "operation with a size within 1 octet of its limit; distinct by (state, operation, miu, agf, icv)")
    ck.assumptions += [
        "secure data transfer is exercised with a stub cipher (harness/sims/collect_sec.py: encrypt() appends icv_size marker "
        "octets) in place of nfc.llcp.sec.CipherSuite1 (needs OpenSSL); only the length behaviour of the cipher matters to collect()",
        "a single (not aggregated) encrypted UI / I PDU may carry MIU + ICV octets: collect() dequeues the first PDU with "
        "icv_size=0 on purpose ('the receiver must accept them with complete MIU plus ICV size', llc.py); the bound proved and "
        "checked for such a frame is MIU + ICV, for every other frame - every aggregate - MIU",
        "raw access point sockets bypass the limit by design and are excluded from the bound (as the property says)",
        "PDU lengths used by collect() equal the encoded lengths (property C11, len(pdu) == len(encode(pdu)) is re-checked here on every collected PDU)",
    ]
    ck.trusted += ["hand-written Lean models NfcVerif.Model.Collect (collect()/dequeue()/sendack()/encrypt()) and "
                   "NfcVerif.Model.CollectOps (socket operations), tied by differential runs",
                   "harness/props/c10.py (state construction on real objects, rendering of queues), harness/sims/collect_sec.py"]
    ck.lean("NfcVerif.Props.C10", THEOREMS)
    if ck.thorough:
        ck.leanchecker(["NfcVerif.Props.C10"])
    model = Model("drv_c10")
    r = Run(ck, mods)
    random_states(r, mods, rng, 6000 if ck.thorough else 500)
    sweep(r, mods, rng, ck.thorough)
    sweep_tail(r, mods, rng, ck.thorough)
    sweep_snl(r, mods, rng, ck.thorough)
    histories(r, mods, rng, 1500 if ck.thorough else 120, 60 if ck.thorough else 40)
    r.settle(model)
    api_checks(ck, mods, rng)
