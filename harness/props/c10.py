"""C10 - nothing sent on an LLCP link exceeds the peer's announced MIU.

L1: NfcVerif.Props.C10 - for every table of service access points with any queue contents,
    every remote MIU, aggregation on/off: the information field of the frame returned by
    collect() is at most the MIU unless a raw socket contributed; UI/I payloads accepted by
    sendto()/send() respect the receiver's MIU.
L2: random SAP tables / queue fillings built on a REAL LogicalLinkController (queues stuffed
    with real PDU objects, partly through the public socket API), collect() called repeatedly
    until the queues are empty; frame composition and residual queues compared with the Lean
    model of collect().
L3: oracle on the real code: len(encode(frame)) - 2 <= send-miu (no raw contribution), the
    encoded frame decodes (real decoder) to exactly the collected PDUs in order, and
    sendto()/send() refuse oversize payloads with EMSGSIZE.
"""
import logging

from common import Model, Infra

logging.disable(logging.CRITICAL)

LEAN_TARGETS = ["NfcVerif.Props.C10", "drv_c10"]
THEOREMS = [
    "NfcVerif.C10.collect_frame_bound",
    "NfcVerif.C10.collect_first_pdu_bound",
    "NfcVerif.C10.aggregate_bound",
    "NfcVerif.C10.sd_dequeue_bound",
    "NfcVerif.C10.ui_i_payload_bound",
]

KIND = {"UI": "ui", "I": "i", "RR": "rr", "RNR": "rr", "DM": "dm", "FRMR": "frmr", "SNL": "snl"}


def pdu_str(p):
    return "%s.%d.%d.%d" % (KIND.get(p.name, "other"), p.header_size, len(p), 0)


def pdus_str(q):
    q = list(q)
    return ",".join(pdu_str(p) for p in q) if q else "-"


def render(llc, tco, llcmod):
    """the real controller's SAP table in the line-protocol syntax"""
    ents = []
    for sap in llc.sap:
        if sap is None:
            continue
        if isinstance(sap, llcmod.ServiceDiscovery):
            req = ",".join("%d.%d" % (tid, len(name)) for tid, name in sap.sdreq) or "-"
            ents.append("D;%d;%s;%s" % (len(sap.sdres), req, pdus_str(sap.dmpdu)))
        else:
            socks = []
            for s in sap.sock_list:
                if isinstance(s, tco.RawAccessPoint):
                    socks.append("raw=" + pdus_str(s.send_queue))
                elif isinstance(s, tco.LogicalDataLink):
                    socks.append("ldl=" + pdus_str(s.send_queue))
                else:
                    flags = "".join("1" if b else "0" for b in (s.state.ESTABLISHED, s.mode.RECV_BUSY,
                                                                  s.mode.RECV_BUSY_SENT))
                    socks.append("dlc%s.%d.%d.%d.%d=%s" % (flags, s.recv_win, s.recv_cnt, s.recv_ack, s.recv_confs,
                                                           pdus_str(s.send_queue)))
            ents.append(";".join(["S"] + socks + ["L=" + pdus_str(sap.send_list)]))
    return "|".join(ents) if ents else "-"


def build(rng, nfc, miu, agf, profile):
    """a real controller with randomly filled queues"""
    import nfc.llcp.llc as llcmod
    import nfc.llcp.tco as tco
    import nfc.llcp.pdu as pdu
    llc = llcmod.LogicalLinkController(miu=rng.choice([128, 248, 1000, 2175]), sec=False, agf=agf)
    llc.cfg["send-miu"] = miu
    llc.cfg["send-agf"] = agf
    raw_used = False

    def payload(limit):
        r = rng.random()
        if r < 0.25:
            n = rng.choice([limit, limit - 1, limit - 2, limit - 3, limit - 4, limit - 5, limit - 6, limit - 7])
        elif r < 0.5:
            n = rng.randrange(0, 12)
        else:
            n = rng.randrange(0, limit + 1)
        return bytes(max(0, min(n, limit)))

    # pending service discovery
    if rng.random() < profile["sd"]:
        sd = llc.sap[1]
        for _ in range(rng.choice([0, 1, 2, 5, 30, 33, 40, 60]) if rng.random() < 0.7 else 0):
            sd.sdres.append((rng.randrange(256), rng.randrange(64)))
        for _ in range(rng.choice([0, 0, 1, 2, 4, 8])):
            name = b"urn:nfc:sn:" + bytes(rng.randrange(97, 123) for _ in range(rng.choice([1, 3, 10, 40, 100, 200])))
            sd.sdreq.append((rng.randrange(256), name[:255 - 1]))
        for _ in range(rng.choice([0, 0, 1, 2])):
            sd.dmpdu.append(pdu.DisconnectedMode(rng.randrange(2, 64), rng.randrange(2, 64), rng.randrange(0, 4)))
    # DM PDUs waiting at SAP 0
    for _ in range(rng.choice([0, 0, 0, 1, 2])):
        llc.sap[0].send(pdu.DisconnectedMode(rng.randrange(2, 64), 0, 2))
    addrs = sorted(rng.sample(range(2, 64), rng.randrange(0, profile["saps"] + 1)))
    for a in addrs:
        sap = llcmod.ServiceAccessPoint(a, llc)
        llc.sap[a] = sap
        kind = rng.choices(["ldl", "dlc", "raw"], weights=[4, 5, profile["raw"]])[0]
        for _ in range(rng.choice([1, 1, 1, 2, 3])):
            if kind == "raw":
                raw_used = True
                s = tco.RawAccessPoint(recv_miu=128)
                s.bind(a)
                for _ in range(rng.randrange(0, 4)):
                    k = rng.random()
                    if k < 0.5:
                        s.send_queue.append(pdu.UnnumberedInformation(rng.randrange(64), a, data=bytes(rng.randrange(0, miu + 40))))
                    elif k < 0.8:
                        s.send_queue.append(pdu.Symmetry())
                    else:
                        s.send_queue.append(pdu.Information(rng.randrange(64), a, 0, 0, data=bytes(rng.randrange(0, miu + 40))))
            elif kind == "ldl":
                s = tco.LogicalDataLink(recv_miu=128)
                s.bind(a)
                s.send_miu = miu
                for _ in range(rng.randrange(0, 5)):
                    if rng.random() < 0.7:
                        try:
                            s.sendto(payload(miu), rng.randrange(2, 64), nfc.llcp.MSG_DONTWAIT)   # public API path
                        except nfc.llcp.Error:
                            pass
                    else:
                        s.send_queue.append(pdu.UnnumberedInformation(rng.randrange(64), a, data=payload(miu)))
            else:
                s = tco.DataLinkConnection(recv_miu=128, recv_win=rng.randrange(1, 16))
                s.bind(a)
                s.peer = rng.randrange(2, 64)
                cmiu = rng.choice([128, 128, miu, min(miu, 200), max(128, miu - 3)])
                s.send_miu = min(cmiu, miu)
                est = rng.random() < 0.8
                if est:
                    s.state.ESTABLISHED = True
                    s.send_win = rng.randrange(1, 16)
                    for _ in range(rng.randrange(0, 4)):
                        try:
                            s.send(payload(s.send_miu), nfc.llcp.MSG_DONTWAIT)            # public API path
                        except nfc.llcp.Error:
                            break
                    if rng.random() < 0.3:
                        s.mode.RECV_BUSY = True
                    if rng.random() < 0.15:
                        s.mode.RECV_BUSY_SENT = not s.mode.RECV_BUSY
                    else:
                        s.mode.RECV_BUSY_SENT = s.mode.RECV_BUSY
                    if rng.random() < 0.5:
                        # received and confirmed but not yet acknowledged I PDUs: V(RA) + confs (+ unread) = V(R)
                        s.recv_ack = rng.randrange(16)
                        s.recv_confs = rng.randrange(0, s.recv_win + 1)
                        unread = rng.randrange(0, s.recv_win - s.recv_confs + 1)
                        s.recv_cnt = (s.recv_ack + s.recv_confs + unread) % 16
                    if rng.random() < 0.08:
                        s.send_queue.append(pdu.FrameReject(s.peer, a, flags=1, ptype=12))
                    if rng.random() < 0.1:
                        s.send_queue.append(pdu.Disconnect(s.peer, a))
                else:
                    k = rng.random()
                    if k < 0.4:
                        sn = b"urn:nfc:sn:" + bytes(rng.randrange(97, 123) for _ in range(rng.choice([2, 20, 100, 140])))
                        sn = rng.choice([sn, sn, None, b""])       # connect by address / by (empty) name
                        s.send_queue.append(pdu.Connect(s.peer, a, miu=rng.choice([128, 500, 2175]),
                                                        rw=rng.choice([0, 1, 2, 15]), sn=sn))
                    elif k < 0.6:
                        s.send_queue.append(pdu.ConnectionComplete(s.peer, a, miu=rng.choice([128, 500]), rw=rng.randrange(1, 16)))
                    elif k < 0.8:
                        s.send_queue.append(pdu.DisconnectedMode(s.peer, a, 0))
            sap.sock_list.append(s)
            if kind != "ldl" and rng.random() < 0.7:
                break
        for _ in range(rng.choice([0, 0, 0, 1, 2])):
            sap.send(pdu.DisconnectedMode(rng.randrange(2, 64), a, 1))
    return llc, raw_used


def run(ck):
    import nfc
    import nfc.llcp
    import nfc.llcp.llc as llcmod
    import nfc.llcp.tco as tco
    import nfc.llcp.pdu as pdu
    rng = ck.rng
    ck.rule = ("a case = one call of collect() on a real LogicalLinkController whose SAP table / queues were filled "
               "at random (service discovery answers+requests, DM PDUs, raw / connection-less / connection-mode "
               "sockets, busy mode changes, pending acknowledgements; remote MIU 128..2175 incl. non multiples of 4; "
               "aggregation on/off); non-trivial = a frame was returned that aggregates >= 2 PDUs or whose "
               "information field is within 8 octets of the MIU; distinct by (state, miu, agf)")
    ck.assumptions += [
        "encryption (llcp/sec.py) is switched off; icv_size is a parameter of the model but only 0 is exercised",
        "raw access point sockets bypass the limit by design and are excluded from the bound (as the property says)",
        "PDU lengths used by collect() equal the encoded lengths (property C11, len(pdu) == len(encode(pdu)) is re-checked here on every collected PDU)",
    ]
    ck.trusted += ["hand-written Lean model NfcVerif.Model.Collect of collect()/dequeue()/sendack(), tied by differential runs",
                   "harness/props/c10.py (state construction on real objects, rendering of queues)"]
    ck.lean("NfcVerif.Props.C10", THEOREMS)
    if ck.thorough:
        ck.leanchecker(["NfcVerif.Props.C10"])
    model = Model("drv_c10")

    class Recorder(object):
        """stands in for every service access point of the receiving controller"""
        mode = 1

        def __init__(self, log_):
            self.log = log_

        def enqueue(self, p):
            self.log.append(p.encode())

    def receive(rcvd, debug_on):
        seen = []
        rx = llcmod.LogicalLinkController(sec=False)
        rx.sap = [Recorder(seen) for _ in range(64)]
        rx.snl = {}
        logger = logging.getLogger("nfc.llcp.llc")
        old_level, old_disable = logger.level, logging.root.manager.disable
        if debug_on:
            logging.disable(logging.NOTSET)
            logger.setLevel(logging.DEBUG)
            if not logger.handlers:
                logger.addHandler(logging.NullHandler())
        try:
            rx.dispatch(rcvd)
        finally:
            logger.setLevel(old_level)
            logging.disable(old_disable)
        return seen

    nstates = 6000 if ck.thorough else 700
    reqs = []
    for n in range(nstates):
        miu = rng.choice([128, 129, 130, 131, 132, 133, 135, 140, 200, 248, 255, 256, 500, 1021, 2175]) \
            if rng.random() < 0.7 else rng.randrange(128, 2176)
        agf = rng.random() < 0.75
        profile = {"sd": 0.5, "saps": rng.choice([0, 1, 2, 3, 6, 12]), "raw": rng.choice([0, 0, 0, 1])}
        llc, raw_used = build(rng, nfc, miu, agf, profile)
        for rnd in range(40):
            before = render(llc, tco, llcmod)
            if before.replace("S;L=-", "").replace("D;0;-;-", "").strip("|") == "":
                break
            raw_before = "raw=" in before and any(
                isinstance(s, tco.RawAccessPoint) and len(s.send_queue) for sap in llc.sap
                if sap is not None and not isinstance(sap, llcmod.ServiceDiscovery) for s in sap.sock_list)
            try:
                frame = llc.collect()
                exc = None
            except Exception as e:  # noqa
                frame, exc = None, e
            after = render(llc, tco, llcmod)
            if exc is not None:
                ck.fail("collect-raises", "collect() raised %r" % exc, {"state": before, "miu": miu, "agf": agf})
                break
            if frame is None:
                real = "none info=0 # " + after
                subs = []
            else:
                subs = list(frame) if frame.name == "AGF" else [frame]
                info = len(frame) - frame.header_size if frame.name != "AGF" else len(frame) - 2
                real = ("agf " + pdus_str(subs) if frame.name == "AGF" else "single " + pdu_str(frame)) + \
                    " info=%d # %s" % (info, after)
                # ---- L3 oracle on the real code
                enc = frame.encode()
                for p in subs:
                    if len(p) != len(p.encode()):
                        ck.fail("pdu-len-differs-from-encoding", "%s: len %d, encoded %d" % (p.name, len(p), len(p.encode())),
                                {"state": before})
                infolen = len(enc) - (frame.header_size if frame.name != "AGF" else 2)
                from_raw = raw_before and any(getattr(p, "_verif_raw", False) for p in subs)
                # a raw socket contributed iff some raw queue shrank
                raw_contrib = raw_before and before.count("raw=") and _raw_total(before) != _raw_total(after)
                if infolen > miu and not raw_contrib:
                    names = "+".join("%s(%d)" % (p.name, len(p)) for p in subs)
                    ck.fail("frame-exceeds-miu:" + _shape(subs), "information field %d > MIU %d: %s" % (infolen, miu, names),
                            {"state": before, "miu": miu, "agf": agf, "frame": enc.hex()})
                if not raw_contrib:
                    for p in subs:
                        if p.name in ("UI", "I") and len(p.data) > miu:
                            ck.fail("payload-exceeds-miu", "%s payload %d > MIU %d" % (p.name, len(p.data), miu), {"state": before})
                try:
                    dec = pdu.decode(enc)
                    got = list(dec) if dec.name == "AGF" else [dec]
                    if [x.encode() for x in got] != [x.encode() for x in subs]:
                        ck.fail("aggregation-not-transparent", "decoded aggregate differs from collected PDUs",
                                {"state": before, "frame": enc.hex()})
                    # the receiving controller must hand exactly these PDUs, in this order, to its SAPs
                    # (with debug logging switched on and off: logging must not consume anything)
                    for debug_on in (True, False):
                        seen = receive(pdu.decode(enc), debug_on)
                        want = [x.encode() for x in subs if x.name != "SYMM"]
                        if frame.name == "AGF" and seen != want:
                            ck.fail("aggregate-not-dispatched-in-order",
                                    "receiver dispatched %d of %d aggregated PDUs (debug logging %s)"
                                    % (len(seen), len(want), "on" if debug_on else "off"),
                                    {"state": before, "frame": enc.hex(), "debug_logging": debug_on})
                            break
                except pdu.Error as e:
                    ck.fail("collected-frame-undecodable", "decode raised %r" % e, {"state": before, "frame": enc.hex()})
            nontrivial = frame is not None and (len(subs) >= 2 or (len(frame) - 2) >= miu - 8)
            line = "collect %d 0 %d %s" % (miu, 1 if agf else 0, before)
            reqs.append((line, real))
            ck.case((before, miu, agf), nontrivial, "agf" if agf else "noagf",
                    sample={"request": line, "impl": real} if len(ck.samples) < 3 and nontrivial else None)
            if frame is not None and frame.name == "AGF":
                ck.count("aggregates")
            if frame is None:
                break
        else:
            ck.count("not drained in 40 rounds")
    replies = model.ask_many([r[0] for r in reqs])
    dis = 0
    for (line, real), rep in zip(reqs, replies):
        if rep != real:
            dis += 1
            ck.fail("tie:collect-model-vs-llc", "model %r, implementation %r" % (rep[:300], real[:300]),
                    {"request": line, "model": rep, "impl": real})
    ck.tie("collect()/dequeue()/sendack() model vs real LogicalLinkController", cases=len(reqs), disagreements=dis)

    # ---- EMSGSIZE checks of the public API (ui_i_payload_bound)
    for miu in [128, 129, 133, 248, 2175] + [rng.randrange(128, 2176) for _ in range(20)]:
        llc = llcmod.LogicalLinkController(miu=248, sec=False)
        llc.cfg["send-miu"] = miu
        s = llc.socket(nfc.llcp.LOGICAL_DATA_LINK)
        llc.bind(s)
        for n in (miu - 1, miu, miu + 1, miu + 100):
            try:
                llc.sendto(s, bytes(n), 16, nfc.llcp.MSG_DONTWAIT)
                ok = True
            except nfc.llcp.Error as e:
                ok = False
                if e.errno != 90:
                    ck.fail("sendto-wrong-errno", "sendto(%d bytes) at MIU %d -> errno %d" % (n, miu, e.errno), {"miu": miu, "n": n})
            ck.case(("sendto", miu, n), True, "api")
            if ok != (n <= miu):
                ck.fail("sendto-oversize-accepted" if ok else "sendto-refused", "sendto(%d bytes) at link MIU %d -> %s" % (n, miu, ok),
                        {"miu": miu, "n": n})
        # connection-mode socket through the controller API: the CONNECTION MIU (from CONNECT/CC) governs,
        # not the link MIU
        for cmiu in sorted({128, max(128, miu - 1), max(128, miu // 2)}):
            c = llc.socket(nfc.llcp.DATA_LINK_CONNECTION)
            llc.bind(c)
            c.peer = 34
            c.state.ESTABLISHED = True
            c.send_win = 15
            c.send_miu = cmiu
            for via in ("send", "sendto"):
                for n in (cmiu - 1, cmiu, cmiu + 1, miu, miu + 1):
                    c.send_cnt = c.send_ack = 0
                    c.send_queue.clear()
                    try:
                        if via == "send":
                            llc.send(c, bytes(n), nfc.llcp.MSG_DONTWAIT)
                        else:
                            llc.sendto(c, bytes(n), 34, nfc.llcp.MSG_DONTWAIT)
                        ok = True
                    except nfc.llcp.Error:
                        ok = False
                    ck.case(("llc." + via, miu, cmiu, n), True, "api")
                    if ok and n > cmiu:
                        ck.fail("i-payload-exceeds-connection-miu", "llc.%s(%d octets) accepted on a connection with MIU %d (link MIU %d)"
                                % (via, n, cmiu, miu), {"link_miu": miu, "connection_miu": cmiu, "n": n, "via": via})
                    if not ok and n <= cmiu:
                        ck.fail("send-refused", "llc.%s(%d octets) refused on a connection with MIU %d" % (via, n, cmiu),
                                {"link_miu": miu, "connection_miu": cmiu, "n": n})
                    if c.send_miu != cmiu:
                        ck.fail("connection-miu-overwritten", "llc.%s changed the connection MIU %d to %d" % (via, cmiu, c.send_miu),
                                {"link_miu": miu, "connection_miu": cmiu})
                        c.send_miu = cmiu
        d = tco.DataLinkConnection(recv_miu=128, recv_win=1)
        d.bind(33)
        d.peer = 34
        d.state.ESTABLISHED = True
        d.send_win = 15
        d.send_miu = min(miu, rng.choice([128, miu]))
        for n in (d.send_miu - 1, d.send_miu, d.send_miu + 1):
            d.send_cnt = d.send_ack = 0
            try:
                d.send(bytes(n), nfc.llcp.MSG_DONTWAIT)
                ok = True
            except nfc.llcp.Error as e:
                ok = False
            ck.case(("send", d.send_miu, n), True, "api")
            if ok != (n <= d.send_miu):
                ck.fail("send-oversize-accepted" if ok else "send-refused", "send(%d bytes) at connection MIU %d -> %s" % (n, d.send_miu, ok),
                        {"miu": d.send_miu, "n": n})


def _raw_total(state):
    import re
    return sum(0 if m == "-" else m.count(",") + 1 for m in re.findall(r"raw=([^;|]*)", state))


def _shape(subs):
    return "+".join(p.name for p in subs[:4])
