"""C20, histories: sequences of method calls on ONE FeliCa Lite / Lite-S tag object against the stateful
card of sims/auth_felica.py, with the channel modified, frames lost, frames of earlier sessions replayed and the
card exchanged for another device between two calls.

L2: every history runs on the real nfcpy object and on the Lean model (NfcVerif.AuthHist.run over
    NfcVerif.AuthCard.Card behind NfcVerif.AuthHist.cardAir); compared are the outcome of every call, every
    command frame the reader sent, the final card state, `_authenticated`, `_sk`, `_iv`.
L3: oracle on the real code, independent of the model (the truth comes from the card: which key it holds at the
    moment of the call, which data its blocks hold): authenticate is True exactly when the card holds the key -
    in EVERY session of a history -, each authenticate draws one fresh 16 octet challenge from os.urandom and
    writes exactly that to the RC block, a device that replays responses of an earlier session is refused, data
    returned by read_with_mac is the data of the card (every block of it, whatever the number of blocks and of
    commands the read took), write_with_mac after an authentication is accepted by the card whatever was written
    before (WCNT).
"""
import hashlib

from common import hx, exc_name, INTERNAL
from sims import auth_felica as F
from sims import auth_des as D

ALLOWED_INTERNAL = {            # documented argument / usage errors
    "n": set(), "h": set(), "f": set(),
    "a": {"ValueError"},        # password shorter than 16 octets
    "t": {"ValueError"},
    "r": {"RuntimeError"},      # read_with_mac / write_with_mac before any authentication
    "w": {"RuntimeError"},
    "q": set(), "p": set(),
}


class DetOs(object):
    """stands in for the name `os` inside nfc.tag.tt3_sony: the entropy source is a queue filled by the
    harness (one challenge per authenticate) and, when the code asks for more or for another size, a hash
    stream; every call is recorded"""

    def __init__(self):
        self.next = []
        self.calls = []
        self.extra = 0

    def urandom(self, n):
        if self.next and len(self.next[0]) == n:
            v = self.next.pop(0)
        else:
            self.extra += 1
            v = b""
            while len(v) < n:
                v += hashlib.sha256(b"c20-extra-%d-%d" % (self.extra, len(v))).digest()
            v = v[:n]
        self.calls.append((n, v))
        return v

    def __getattr__(self, name):               # anything else the module may want from `os`
        import os
        return getattr(os, name)


def rev_halves(x):
    x = bytes(x)
    return x[7::-1] + x[15:7:-1]


def eff(k):
    return bytes(b & 0xFE for b in k)          # DES ignores the parity bit of every key octet


def key_of(pw):
    return bytes(pw[:16]) if len(pw) else bytes(16)


FORGET = [False]     # which of the two modelled behaviours the tree under test shows (probe())
NONE_OK = [False]    # tag.ndef when read_with_mac returns None: no NDEF data (repaired) / TypeError (as found)


def probe(det_os):
    """Does a new authentication forget the session of the previous one?  (finding
    stale-session-after-failed-auth: the code as found does not; the suggested repair does.)  The answer only
    selects which of the two fully specified Lean models (`forget`) every history is compared with."""
    key = bytes(range(1, 17))
    tag = F.LiteTag(F.key_block(key), False)
    air, t = F.activate(tag)
    try:
        det_os.next = [bytes(16)]
        ok = t.authenticate(key)
        det_os.next = [bytes(range(16))]
        bad = t.authenticate(bytes(16))
        try:
            t.read_with_mac(1)
            FORGET[0] = False
        except RuntimeError:
            FORGET[0] = ok is True and bad is False
    except Exception:  # noqa
        FORGET[0] = False
    det_os.next = []
    # does tag.ndef survive a failed MAC verification?  (finding ndef-mac-failure-typeerror)
    try:
        blocks = F.store_ndef(initial_blocks_plain(key), bytes(range(40)))
        tag = F.LiteTag(bytes(16), False)
        tag.b = {n: bytearray(v) for n, v in blocks.items()}
        air, t = F.activate(tag, None, True)
        det_os.next = [bytes(16)]
        if t.authenticate(key) is True:
            n0 = air.n
            air.transit = lambda d, i, f: (f[:20] + bytes([f[20] ^ 1]) + f[21:]) if (d == "r" and i == n0 + 1) else f
            try:
                NONE_OK[0] = t.ndef is None
            except TypeError:
                NONE_OK[0] = False
    except Exception:  # noqa
        NONE_OK[0] = False
    det_os.next = []
    return FORGET[0]


def initial_blocks_plain(key):
    tag = F.LiteTag(F.key_block(key), False)
    return {n: bytes(v) for n, v in tag.b.items()}


class Hist(object):
    """initial card + calls + channel rules"""

    def __init__(self, lite_s, blocks, ops, rules=(), label="", sys12fc=False):
        self.lite_s, self.blocks, self.ops, self.rules, self.label = lite_s, dict(blocks), list(ops), list(rules), label
        self.sys12fc = sys12fc          # the tag object was created from a polling response for system 12FCh

    def with_rules(self, rules, label=None):
        return Hist(self.lite_s, self.blocks, self.ops, rules, self.label if label is None else label, self.sys12fc)

    def line(self):
        toks = ["hist", "S1" if self.lite_s else "S0", "G1" if FORGET[0] else "G0", "N1" if NONE_OK[0] else "N0",
                "Y1" if self.sys12fc else "Y0", "I" + hx(F.IDM), "F00"]
        for n in sorted(self.blocks):
            toks.append("B%02x=%s" % (n, hx(self.blocks[n])))
        for op in self.ops:
            toks.append(op_token(op))
        for (d, i, kind, payload) in self.rules:
            toks.append("x:%s:%d:%s" % (d, i, "drop" if kind == "drop" else ("^" if kind == "xor" else "=") + hx(payload)))
        return " ".join(toks)

    def describe(self):
        return {"product": "FelicaLiteS" if self.lite_s else "FelicaLite", "label": self.label, "tag.sys": "12FC" if self.sys12fc else "88B4",
                "card_blocks": {"%02x" % n: bytes(v).hex() for n, v in sorted(self.blocks.items())},
                "calls": [op_text(op) for op in self.ops],
                "channel": ["%s of exchange %d: %s%s" % ("response" if d == "r" else "command", i, kind,
                                                         "" if payload is None else " " + bytes(payload).hex())
                            for (d, i, kind, payload) in self.rules]}


def op_token(op):
    k = op[0]
    if k == "a":
        return "a:%s:%s" % (hx(op[1]), hx(op[2]))
    if k in ("r", "q"):
        return "%s:%s" % (k, hx(bytes(op[1])))
    if k in ("w", "p"):
        return "%s:%s:%02x" % (k, hx(op[1]), op[2])
    if k == "t":
        return "t:%s:%d:%02x:%s" % ("None" if op[1] is None else hx(op[1]), 1 if op[2] else 0, op[3], hx(op[4]))
    if k == "s":
        return "s:%02x:%s" % (op[1], hx(op[2]))
    if k in ("n", "h"):
        return k
    if k == "f":
        return "f:%s" % ("None" if op[1] is None else "%02x" % op[1])
    raise ValueError(op)


def op_text(op):
    k = op[0]
    if k == "a":
        return "authenticate(bytes.fromhex(%r))  # os.urandom(16) -> %s" % (bytes(op[1]).hex(), bytes(op[2]).hex())
    if k == "r":
        return "read_with_mac(%s)" % ", ".join("0x%02x" % b for b in op[1])
    if k == "q":
        return "read_without_mac(%s)" % ", ".join("0x%02x" % b for b in op[1])
    if k == "w":
        return "write_with_mac(bytes.fromhex(%r), 0x%02x)" % (bytes(op[1]).hex(), op[2])
    if k == "p":
        return "write_without_mac(bytes.fromhex(%r), 0x%02x)" % (bytes(op[1]).hex(), op[2])
    if k == "t":
        return "protect(%s, read_protect=%r, protect_from=%d)  # os.urandom(16) -> %s" % (
            "None" if op[1] is None else "bytes.fromhex(%r)" % bytes(op[1]).hex(), bool(op[2]), op[3], bytes(op[4]).hex())
    if k == "s":
        return "<the card's block 0x%02x becomes %s>" % (op[1], bytes(op[2]).hex())
    if k == "n":
        return "tag.ndef.octets if tag.ndef is not None else None"
    if k == "h":
        return "tag.ndef.has_changed if tag.ndef is not None else None"
    if k == "f":
        return "format(wipe=%r)" % (op[1],)
    return repr(op)


class Transit(object):
    def __init__(self, rules):
        self.rules = {(d, i): (kind, payload) for (d, i, kind, payload) in reversed(list(rules))}

    def __call__(self, direction, index, frame):
        r = self.rules.get((direction, index))
        if r is None:
            return frame
        kind, payload = r
        if kind == "drop":
            return None
        if kind == "set":
            return bytes(payload)
        out = bytearray(frame)
        for i, m in enumerate(payload[:len(out)]):
            out[i] ^= m
        return bytes(out)


def show_result(kind, r):
    if kind in ("a", "t", "f"):
        return "true" if r is True else "false" if r is False else "other:%r" % (r,)
    if kind in ("r", "q"):
        if r is None:
            return "none"
        if isinstance(r, (bytes, bytearray)):
            return hx(r)
        return "other:%r" % (r,)
    return "unit" if r is None else "other:%r" % (r,)


class Run(object):
    """one execution of a history on the real code"""

    def __init__(self, h, det_os):
        self.h = h
        tag = F.LiteTag(bytes(16), h.lite_s)
        for n, v in h.blocks.items():
            tag.b[n] = bytearray(v)
        self.tag = tag
        self.air, self.t = F.activate(tag, Transit(h.rules), h.sys12fc)
        self.air.n, self.air.trace, self.air.sent = 0, [], []
        self.steps = []            # per call: dict(op, result, x0, x1, calls, before)
        for op in h.ops:
            k = op[0]
            iv = getattr(self.t, "_iv", None)
            before = {"b": {n: bytes(v) for n, v in tag.b.items()}, "ext_auth": tag.ext_auth, "rc_written": tag.rc_written,
                      "iv": None if iv is None else bytes(iv)}
            x0 = self.air.n
            det_os.calls = []
            det_os.next = []
            if k == "s":
                tag.b[op[1]] = bytearray(op[2])
                res = "unit"
            else:
                try:
                    if k == "a":
                        det_os.next = [bytes(op[2])]
                        res = show_result(k, self.t.authenticate(op[1]))
                    elif k == "r":
                        res = show_result(k, self.t.read_with_mac(*op[1]))
                    elif k == "q":
                        res = show_result(k, self.t.read_without_mac(*op[1]))
                    elif k == "w":
                        res = show_result(k, self.t.write_with_mac(op[1], op[2]))
                    elif k == "p":
                        res = show_result(k, self.t.write_without_mac(op[1], op[2]))
                    elif k == "t":
                        det_os.next = [bytes(op[4])]
                        res = show_result(k, self.t.protect(op[1], read_protect=op[2], protect_from=op[3]))
                    elif k == "n":
                        o = self.t.ndef
                        res = "none" if o is None else show_result("r", o.octets)
                    elif k == "h":
                        o = self.t.ndef
                        res = "none" if o is None else show_result("a", o.has_changed)
                    elif k == "f":
                        res = show_result(k, self.t.format(wipe=op[1]))
                    else:
                        raise ValueError(op)
                except Exception as e:  # noqa
                    res = "exc:" + exc_name(e)
            self.steps.append({"op": op, "result": res, "x0": x0, "x1": self.air.n, "calls": list(det_os.calls),
                               "before": before})
        det_os.next = []

    def reply(self):
        t = self.t
        sk, iv = getattr(t, "_sk", None), getattr(t, "_iv", None)
        sess = "nosess" if sk is None or iv is None else "%s:%s" % (hx(sk), hx(iv))
        o = getattr(t, "_ndef", None)
        data = None if o is None else getattr(o, "_data", None)
        cache = "none" if o is None else ("other:%r" % (data,) if not isinstance(data, (bytes, bytearray)) else hx(data))
        mac = "1" if getattr(t, "read_from_ndef_service", None) == getattr(t, "read_with_mac", 0) else "0"
        return "%s | %s | %s %s %s ndef=%s mac=%s" % (
            ";".join(s["result"] for s in self.steps), ";".join(hx(c) for c in self.air.sent), hx(self.tag.digest()),
            "1" if getattr(t, "_authenticated", None) is True else "0", sess, cache, mac)


# ----------------------------------------------------------------------------------------------- the oracle
def is_rc_write(cmd):
    return cmd is not None and len(cmd) == 32 and cmd[1] == 0x08 and cmd[13] == 1 and cmd[14:16] == b"\x80\x80"


def protected_positions(cmd, rsp):
    """octet positions of a read response that the MAC at its end covers (block data and the MAC itself);
    empty when the response does not end with the MAC block"""
    if cmd is None or rsp is None or len(cmd) < 16 or cmd[1] != 0x06:
        return set()
    n = cmd[13]
    if len(cmd) != 14 + 2 * n or n < 1 or cmd[14 + 2 * (n - 1) + 1] != 0x81 or len(rsp) != 13 + 16 * n:
        return set()
    return set(range(13, 13 + 16 * (n - 1) + 8))


def judge(ck, run, clean):
    """`run`: the execution to judge; `clean`: the same calls on the untouched channel (None when `run` is it)"""
    h = run.h
    name = "FelicaLiteS" if h.lite_s else "FelicaLite"
    tampered = bool(h.rules)
    seen_rc = set()
    rep = dict(h.describe(), results=[s["result"] for s in run.steps])
    current = False           # the reader's session is the card's session (last authenticate succeeded on this card)
    session = None            # (exchange number where the last successful authentication ended, CK block, RC block)
    for si, s in enumerate(run.steps):
        op, res, b = s["op"], s["result"], s["before"]
        k = op[0]
        what = "%s, call %d %s -> %s" % (name, si, op_text(op).split("  #")[0], res[:80])
        if k == "s":
            if op[1] in (0x87, 0x80):
                current = False
            continue
        touched = [(d, i) for (d, i, _, _) in h.rules if s["x0"] <= i < s["x1"]]
        # ---- no internal exception, no foreign return value
        if res.startswith("exc:") and res[4:] in INTERNAL and res[4:] not in ALLOWED_INTERNAL.get(k, set()):
            ck.fail("lite-s-auth-mac-failure-typeerror" if res == "exc:TypeError" and h.lite_s and k == "a"
                    else "ndef-mac-failure-typeerror" if res == "exc:TypeError" and k in ("n", "h", "t")
                    else "hist-internal-exception", what, rep)
        # ---- which session the tag object is in: a successful authenticate() (FelicaLiteS.protect(password) contains one)
        if k == "a" and not res.startswith("exc:ValueError"):
            session = (s["x1"], F.key_block(key_of(op[1])), rev_halves(op[2])) if res == "true" else None
        if k == "t" and op[1] is not None and not res.startswith("exc:ValueError"):
            session = (s["x1"], F.key_block(key_of(op[1])), rev_halves(op[4])) if (res == "true" and h.lite_s) else None
        if k == "n" and session is not None and not res.startswith("exc:") and res not in ("none",) and not res.startswith("other:"):
            # every octet handed out by tag.ndef after a successful authenticate() was covered by a MAC that verifies
            # under the session key of THAT authentication (independent MAC computation: sims/auth_des.py)
            data = b"" if res == "-" else bytes.fromhex(res)
            verified = {}
            for i in range(session[0], s["x1"]):
                c, r = run.air.sent[i], run.air.trace[i][2]
                if r is None or len(c) < 16 or c[1] != 0x06 or len(c) != 14 + 2 * c[13] or c[-1] != 0x81:
                    continue
                nb = c[13]
                if len(r) != 13 + 16 * nb or r[1] != 0x07 or r[10] != 0:
                    continue
                body = r[13:13 + 16 * (nb - 1)]
                if D.lite_mac(session[1], session[2], body) != r[13 + 16 * (nb - 1):13 + 16 * (nb - 1) + 8]:
                    continue
                for j in range(nb - 1):
                    verified.setdefault(c[15 + 2 * j], set()).add(body[16 * j:16 * j + 16])
            need = [(1 + j, data[16 * j:16 * j + 16]) for j in range((len(data) + 15) // 16)]
            bad = [n for (n, chunk) in need if not any(v[:len(chunk)] == chunk for v in verified.get(n, ()))]
            if 0 not in verified or bad:
                ck.fail("ndef-after-auth-not-mac-verified", what + ": %s; reads with a MAC that verifies under the session of the "
                        "last successful authenticate(): blocks %s" % (
                            "the attribute block was not read with MAC" if 0 not in verified else
                            "the octets of block(s) %s were not covered by a verified MAC" % bad, sorted(verified)), rep)
            elif not tampered and s["x1"] > s["x0"] and F.ndef_of(b["b"]) not in (None, data):
                ck.fail("ndef-after-auth-wrong-data", what + ": the card holds %r" % (F.ndef_of(b["b"]),), rep)
        if res.startswith("other:"):
            ck.fail("hist-unexpected-return-value", what, rep)
        card_key = rev_halves(b["b"][0x87])
        if k in ("a", "t"):
            pw = op[1]
            short = pw is not None and 0 < len(pw) < 16
            if short:
                if res != "exc:ValueError" or s["x1"] != s["x0"]:
                    ck.fail("short-password-accepted", what, rep)
                continue
        if k == "a":
            holds = eff(key_of(op[1])) == eff(card_key)
            rc = bytes(op[2])
            # ---- the challenge: one fresh os.urandom(16) per call, written to the RC block as it is
            if s["calls"] != [(16, rc)]:
                ck.fail("auth-challenge-not-drawn", what + ": os.urandom calls %r, expected one call for 16 octets"
                        % [(n, v.hex()) for n, v in s["calls"]], rep)
            rcw = [c for c in run.air.sent[s["x0"]:s["x1"]] if is_rc_write(c)]
            if not rcw or any(c[16:32] != rev_halves(rc) for c in rcw):
                ck.fail("auth-challenge-not-from-urandom", what + ": RC block written %s, os.urandom gave %s"
                        % ([c[16:32].hex() for c in rcw], rc.hex()), rep)
            for c in rcw[:1]:
                if c[16:32] in seen_rc:
                    ck.fail("auth-challenge-reused", what + ": challenge %s was used by an earlier authenticate"
                            % c[16:32].hex(), rep)
                seen_rc.add(c[16:32])
            # ---- the verdict
            if res == "true" and not holds:
                ck.fail("auth-forged", what + " although the card holds another key (%s)" % card_key.hex(), rep)
            if not tampered and not res.startswith("exc:ValueError"):
                if res != ("true" if holds else "false"):
                    ck.fail("auth-error-on-genuine-tag" if res.startswith("exc:") and holds else "auth-wrong-verdict",
                            what + ", untouched channel, the card holds %s key (%s, WCNT %s)"
                            % ("the" if holds else "another", card_key.hex(),
                               b["b"][0x90][0:3].hex() if h.lite_s else "-"), rep)
            if res == "true" and touched:
                for (d, i) in touched:
                    if d != "r" or clean is None or i >= len(clean.air.trace) or i >= len(run.air.trace):
                        continue
                    good, got = clean.air.trace[i][2], run.air.trace[i][2]
                    if good is None or got is None or len(good) != len(got):
                        continue
                    prot = protected_positions(run.air.trace[i][1], got)
                    if any(good[p] != got[p] for p in prot) and clean.air.sent[i] == run.air.sent[i]:
                        ck.fail("auth-tampered-mac-accepted", what + ": response %d arrived modified in MAC protected "
                                "octets" % i, rep)
            if bool(getattr(run.t, "_authenticated", None) is True) != (res == "true") and si == len(run.steps) - 1:
                ck.fail("auth-status-differs", what + ", _authenticated=%r" % getattr(run.t, "_authenticated", None), rep)
            current = res == "true"
        elif k == "t":
            if res == "true" and op[1] is not None:
                after = run.steps[si + 1]["before"]["b"] if si + 1 < len(run.steps) else {n: bytes(v) for n, v in run.tag.b.items()}
                if not tampered and after[0x87] != F.key_block(key_of(op[1])):
                    ck.fail("protect-key-not-provisioned", what + ": the card now holds CK block %s" % after[0x87].hex(), rep)
            if not tampered and b["b"][0x88][2] == 0xFF and not (op[2] and not h.lite_s) and res != "true":
                ck.fail("protect-fails", what + " on a card with writable system blocks", rep)
            if op[1] is not None:
                # FelicaLiteS.protect authenticates with the new key; FelicaLite.protect only writes it (the card's
                # MACs change with the key, the reader's session is over)
                current = h.lite_s and res == "true"
        elif k == "r":
            blocks = list(op[1])
            if any(d == "c" for (d, i) in touched):
                # a read COMMAND was modified on its way: the card answers (with a valid MAC) for the blocks it was
                # asked for - the MAC of FeliCa Lite covers the data, not the block numbers.  The data returned must
                # then be the card's data of the blocks in the command that ARRIVED.
                for (i, c, _) in run.air.trace[s["x0"]:s["x1"]]:
                    if c is not None and len(c) >= 16 and c[1] == 0x06 and len(c) == 14 + 2 * c[13] and c[-1] == 0x81:
                        blocks = [c[15 + 2 * j] for j in range(c[13] - 1)]
            challenges = [c[16:24][::-1] for c in run.air.sent[:s["x0"]] if is_rc_write(c)]    # RC1 of every session so far
            is_data = res not in ("none",) and not res.startswith("exc:") and not res.startswith("other:")
            if is_data and challenges and b["iv"] != challenges[-1]:
                # the reader still verifies under the session of an EARLIER authenticate although a later one failed
                ck.fail("stale-session-after-failed-auth", what + ": the last authenticate() did not succeed, the data was "
                        "accepted under the session key of an earlier authentication (challenge %s...)" % b["iv"].hex(), rep)
            elif is_data:
                card = F.LiteTag(bytes(16), h.lite_s)
                card.b = {n: bytearray(v) for n, v in b["b"].items()}
                card.ext_auth = b["ext_auth"]
                authentic = b"".join(card.read_block(n, b"") for n in blocks if card.readable(n) and n not in (0x81, 0x91))
                if res != hx(authentic):
                    ck.fail("tampered-read-accepted" if tampered else "read-with-mac-wrong-data",
                            what + ": the card holds %s" % authentic.hex(), rep)
                elif touched and clean is not None:
                    for (d, i) in touched:
                        if d != "r" or i >= len(clean.air.trace) or i >= len(run.air.trace):
                            continue
                        good, got = clean.air.trace[i][2], run.air.trace[i][2]
                        if good is None or got is None or len(good) != len(got) or clean.air.sent[i] != run.air.sent[i]:
                            continue
                        prot = protected_positions(run.air.trace[i][1], got)
                        if any(good[p] != got[p] for p in prot):
                            ck.fail("tampered-mac-accepted", what + ": response %d arrived modified in MAC protected octets" % i, rep)
            if not tampered and current and 1 <= len(blocks) <= 3 and res in ("none",) + tuple(["exc:" + e for e in INTERNAL]):
                readable = all(n in b["b"] and not (h.lite_s and n < 15 and (b["b"][0x88][6] | b["b"][0x88][7] << 8) >> n & 1
                                                     and not b["ext_auth"]) for n in blocks)
                if readable:
                    ck.fail("read-with-mac-clean-fails", what + " in a valid session on the untouched channel", rep)
        elif k == "w":
            if not tampered and h.lite_s and current and len(op[1]) == 16:
                n = op[2]
                mc = b["b"][0x88]
                writable = n < 14 and (mc[0] | mc[1] << 8) >> n & 1
                stored = (run.steps[si + 1]["before"]["b"] if si + 1 < len(run.steps) else run.tag.b)[n] if n in b["b"] else None
                if writable and (res != "unit" or bytes(stored) != bytes(op[1])):
                    ck.fail("write-with-mac-refused", what + " after a successful mutual authentication, untouched channel, "
                            "card WCNT %s" % b["b"][0x90][0:3].hex(), rep)
        elif k == "p":
            if op[2] == 0x80 or op[2] == 0x87:
                current = False


# ----------------------------------------------------------------------------------------------- scenarios
def initial_blocks(rng, lite_s, key, wcnt=None, mc=None):
    tag = F.LiteTag(F.key_block(key), lite_s)
    for n in range(0, 15):
        tag.b[n] = bytearray(rng.randrange(256) for _ in range(16))
    tag.b[0x82] = bytearray(F.IDM + bytes(rng.randrange(256) for _ in range(8)))
    tag.b[0x86] = bytearray(bytes([rng.randrange(256), rng.choice([0, 0, 0xFF, rng.randrange(256)])]) + bytes(14))
    if lite_s:
        w = rng.choice([0, 1, 0xFD, 0xFE, 0xFF, 0x100, 0xFFFD, 0xFFFE, 0xFFFF, 0x10000, 0xFFFFFB, rng.randrange(1 << 24)]) \
            if wcnt is None else wcnt
        tag.b[0x90] = bytearray(w.to_bytes(3, "little") + bytes(13))
    if mc is not None:
        tag.b[0x88] = bytearray(mc)
    return {n: bytes(v) for n, v in tag.b.items()}


def generate(rng, T):
    """histories: fixed patterns (the orderings around a second authentication), all short words over a small
    alphabet, random longer ones"""
    def rb(n):
        return bytes(rng.randrange(256) for _ in range(n))

    def mk(lite_s, key, words, label, wcnt=None):
        other = rb(16)
        ops = []
        for w in words:
            if w == "A":
                ops.append(("a", key if rng.random() < 0.8 else key + rb(rng.randrange(1, 5)), rb(16)))
            elif w == "Ab":
                ops.append(("a", bytearray(key), rb(16)))
            elif w == "X":
                ops.append(("a", other, rb(16)))
            elif w == "X1":
                j0, bit = rng.randrange(16), 1 << rng.randrange(1, 8)      # not the parity bit
                ops.append(("a", bytes(x ^ (bit if j == j0 else 0) for j, x in enumerate(key)), rb(16)))
            elif w == "E":
                ops.append(("a", b"", rb(16)))
            elif w == "S":
                ops.append(("a", rb(rng.randrange(1, 16)), rb(16)))
            elif w.startswith("R"):
                n = int(w[1:]) if len(w) > 1 else rng.randrange(1, 4)
                pool = list(range(0, 15)) + [0x82, 0x83, 0x85, 0x86, 0x88] + ([0x90, 0x92] if lite_s else [])
                ops.append(("r", [rng.choice(pool) for _ in range(n)]))
            elif w == "W" and lite_s:
                ops.append(("w", rb(16), rng.randrange(0, 14)))
            elif w == "W":                                   # FelicaLite has no write_with_mac
                ops.append(("p", rb(16), rng.randrange(0, 14)))
            elif w == "P":
                ops.append(("p", rb(16), rng.randrange(0, 14)))
            elif w == "Q":
                ops.append(("q", [rng.choice(list(range(15)) + [0x82, 0x88] + ([0x90] if lite_s else []))
                                  for _ in range(rng.randrange(1, 4))]))
            elif w in ("T", "Tn", "Te", "To", "Tr"):
                pw = {"T": key, "Tn": None, "Te": b"", "To": other, "Tr": key}[w]
                ops.append(("t", pw, w == "Tr", rng.choice([1, 1, 2, 7, 13, 14, 15]), rb(16)))
            elif w == "K":                                   # the card is exchanged for a device with another key
                ops.append(("s", 0x87, F.key_block(rb(16))))
            else:
                raise ValueError(w)
        return Hist(lite_s, initial_blocks(rng, lite_s, rb(16) if words[0].startswith("T") else key, wcnt), ops, (), label)

    out = []
    patterns = ["A A", "A A A", "A X A", "A E A", "A P A", "A P P P A", "A W A", "A W W A", "A W P W A", "A R A R",
                "A R1 R2 R3 R4 R5", "A R0", "A R4", "A R6", "T A", "T X A", "T A W A", "T A P A", "T A W P A W R", "Te E",
                "Te A", "Tn A", "To A", "T To A", "Tr A", "A T A", "A Tn A W", "X R", "X W", "R", "W", "A X R", "A X W",
                "A Q W Q A W", "S A", "A S", "Ab W Ab", "X1 A"]
    for lite_s in (False, True):
        for p in patterns:
            words = p.split()
            if not lite_s and "W" in words and words.count("W") == len(words):
                continue
            for rep_ in range(2 if T else 1):
                key = rb(16) if (rep_ or rng.random() < 0.8) else bytes(16)
                out.append(mk(lite_s, key, words, "pattern " + p))
    # every word of length <= 3 over a small alphabet (the orderings)
    alpha = ["A", "X", "W", "P", "R", "T"]
    words3 = [[a] for a in alpha] + [[a, b] for a in alpha for b in alpha] + \
             [[a, b, c] for a in alpha for b in alpha for c in alpha]
    for lite_s in (True, False):
        for words in words3:
            if not T and len(words) == 3 and rng.random() < (0.85 if lite_s else 0.95):
                continue
            out.append(mk(lite_s, rb(16), words, "word " + " ".join(words)))
    # write counter boundaries around a second mutual authentication
    for w0 in [0, 0xFD, 0xFE, 0xFF, 0xFFFD, 0xFFFE, 0xFFFF, 0xFFFFFA, 0xFFFFFD, 0xFFFFFE, 0xFFFFFF]:
        out.append(mk(True, rb(16), ["A", "W", "P", "A", "W"], "wcnt %06x" % w0, wcnt=w0))
    for i in range(120 if T else 16):
        n = rng.randrange(4, 9)
        words = [rng.choice(["A", "A", "A", "X", "E", "W", "W", "P", "R", "R", "Q", "T", "Tn", "K", "X1"]) for _ in range(n)]
        out.append(mk(bool(i % 3), rb(16) if i % 7 else bytes(16), words, "random " + " ".join(words)))
    return out


def tamper_rules(rng, T, clean, budget):
    """single modifications of a clean execution: (rules, label); neighbourhood of every exchange of every call"""
    out = []
    trace = clean.air.trace
    session, k = [], 0
    for c in clean.air.sent:                   # a session begins with the write of a challenge
        k += 1 if is_rc_write(c) else 0
        session.append(k)
    for (i, cmd, rsp) in trace:
        cands = []
        if cmd is not None and len(cmd) == 6 and cmd[1] == 0:
            rsp = None          # a polling answer with another IDm is taken over by the tag object: outside the model
        if rsp is not None:
            n = len(rsp)
            prot = sorted(protected_positions(cmd, rsp))
            for _ in range(3 if T else 1):
                if prot:
                    p = rng.choice(prot)
                    m = bytearray(n)
                    m[p] = 1 << rng.randrange(8)
                    cands.append(([("r", i, "xor", bytes(m))], "bit in MAC protected octet %d of response %d" % (p, i)))
            p = rng.randrange(n)
            m = bytearray(n)
            m[p] = 1 << rng.randrange(8)
            cands.append(([("r", i, "xor", bytes(m))], "bit in octet %d of response %d" % (p, i)))
            cands.append(([("r", i, "drop", None)], "response %d lost" % i))
            # a MAC-carrying response of the same length from ANOTHER session of the history (replay).  Within one
            # session the protocol cannot tell the answers to two reads apart (the MAC covers the data, not the
            # block numbers): that is a property of FeliCa Lite, not of the code, and is not generated.
            if prot:
                same = [r for (j, c, r) in trace if r is not None and len(r) == n and r != rsp
                        and session[j] != session[i] and protected_positions(c, r)]
                if same:
                    cands.append(([("r", i, "set", rng.choice(same))], "response %d replaced by one of another session" % i))
            if T:
                cands.append(([("r", i, "set", rsp[:-1] if rng.random() < 0.5 else bytes([n - 4]) + rsp[1:n - 4])],
                              "response %d truncated" % i))
        if cmd is not None:
            m = bytearray(len(cmd))
            m[rng.randrange(len(cmd))] = 1 << rng.randrange(8)
            cands.append(([("c", i, "xor", bytes(m))], "bit in command %d" % i))
            cands.append(([("c", i, "drop", None)], "command %d lost" % i))
        out.extend(cands)
    if len(out) > budget:
        out = [out[j] for j in sorted(rng.sample(range(len(out)), budget))]
    return out


def replay_histories(rng, T, det_os):
    """C20-r2m1 class: a device WITHOUT the key answers a later authenticate with the frames overheard
    in an earlier session of the same tag object"""
    def rb(n):
        return bytes(rng.randrange(256) for _ in range(n))

    out = []
    for lite_s in (False, True):
        for variant in range(6 if T else 3):
            key = rb(16)
            between = [[], [("r", [rng.randrange(1, 14)])], [("a", rb(16), rb(16))], [("p", rb(16), 3)],
                       [("a", key, rb(16))], [("r", [1, 2]), ("a", b"", rb(16))]][variant % 6]
            pre = [("a", key, rb(16)), ("r", [5, 6])] + between
            h0 = Hist(lite_s, initial_blocks(rng, lite_s, key), pre)
            r0 = Run(h0, det_os)
            if r0.steps[0]["result"] != "true":
                continue
            s0 = r0.steps[0]
            first = r0.air.trace[s0["x0"]:s0["x1"]]
            rd = r0.steps[1]
            # the device: another key; it acknowledges writes and answers reads with what it overheard
            ops = pre + [("s", 0x87, F.key_block(rb(16))), ("a", key, rb(16)), ("r", [5, 6])]
            n0 = r0.air.n
            rules = []
            nx = len(first)
            for j, (_, c, r) in enumerate(first):
                if r is not None:
                    rules.append(("r", n0 + j, "set", r))
            for j, (_, c, r) in enumerate(r0.air.trace[rd["x0"]:rd["x1"]]):
                if r is not None:
                    rules.append(("r", n0 + nx + j, "set", r))
            out.append(Hist(lite_s, h0.blocks, ops, rules, "replay of session 1 by a device without the key (%d calls between)"
                            % len(between)))
    return out


def retry_rules(clean):
    """the retry loop of send_cmd_recv_rsp: for every exchange of a clean execution, the answer (or the command) is
    lost twice in a row (the third attempt gets through: the card may have executed a write up to three times) and
    three times in a row (TagCommandError)"""
    out = []
    for (i, cmd, rsp) in clean.air.trace:
        for d in ("r", "c"):
            out.append(([(d, i, "drop", None), (d, i + 1, "drop", None)], "%s %d lost twice" % ("response" if d == "r" else "command", i)))
        out.append(([("r", i, "drop", None), ("c", i + 1, "drop", None), ("r", i + 2, "drop", None)], "exchange %d fails three times" % i))
    return out


def read_histories(rng, T):
    """C20-r2m2 class: read_with_mac with 0..6 blocks (the card delivers at most four blocks per command, the
    MAC block included) in the first and in a later session"""
    def rb(n):
        return bytes(rng.randrange(256) for _ in range(n))

    out = []
    for lite_s in (False, True):
        for n in range(0, 7):
            key = rb(16)
            blocks = rng.sample(range(0, 14), n)
            if n and rng.random() < 0.3:
                blocks[rng.randrange(n)] = rng.choice([0x82, 0x86])
            ops = [("a", key, rb(16)), ("r", blocks)]
            if n in (2, 4, 5) or T:
                ops = [("a", key, rb(16)), ("r", [1])] + ops           # the read under test is in the second session
            out.append(Hist(lite_s, initial_blocks(rng, lite_s, key), ops, (), "read_with_mac of %d blocks" % n))
    return out


def read_tamper_rules(rng, T, clean):
    """every exchange of the LAST call (a read_with_mac): bits of the block data and of the MAC (all of them in the
    thorough tier), other octets, whole blocks exchanged between two responses"""
    s = clean.steps[-1]
    out = []
    span = clean.air.trace[s["x0"]:s["x1"]]
    for (i, cmd, rsp) in span:
        if rsp is None:
            continue
        n = len(rsp)
        data = list(range(13, n)) if (cmd is not None and cmd[1] == 0x06 and n > 13) else list(range(n))
        bits = [8 * p + b for p in data for b in range(8)]
        if T and clean.h.lite_s and len(bits) > 160:
            bits = sorted(set(rng.sample(bits, 150)) | {bits[0], bits[-1]})
        if not T and len(bits) > 24:
            keep = {bits[0], bits[-1]}
            if n >= 13 + 16:
                keep |= {8 * (n - 16) + rng.randrange(8), 8 * (n - 9) + rng.randrange(8), 8 * (n - 8) + rng.randrange(8)}
            bits = sorted(keep | set(rng.sample(bits, 18)))
        for bit in bits:
            m = bytearray(n)
            m[bit // 8] = 1 << (bit % 8)
            out.append(([("r", i, "xor", bytes(m))], "bit %d of octet %d of response %d" % (bit % 8, bit // 8, i)))
        if n >= 13 + 32:
            out.append(([("r", i, "set", rsp[:13] + rsp[29:45] + rsp[13:29] + rsp[45:])], "blocks swapped in response %d" % i))
        for (j, _, other) in span:
            if j != i and other is not None and len(other) == n and other != rsp:
                out.append(([("r", i, "set", other)], "response %d replaced by response %d of the same read" % (i, j)))
    return out


# ----------------------------------------------------------------------------------------------- card mirror
def card_cases(rng, T):
    """(request line for the Lean card, reply of the Python card): single commands on random card states -
    reads of every kind of block list, plain writes, writes with MAC_A (right, stale counter, wrong MAC, no
    session), under random access conditions in MC, and damaged frames"""
    from sims import auth_des as D

    def rb(n):
        return bytes(rng.randrange(256) for _ in range(n))

    out = []
    pool = list(range(0, 16)) + [0x80, 0x81, 0x82, 0x83, 0x85, 0x86, 0x87, 0x88, 0x89, 0x90, 0x91, 0x92, 0x93, 0xFF]
    for i in range(3000 if T else 500):
        lite_s = rng.random() < 0.7
        tag = F.LiteTag(rb(16), lite_s)
        for n in range(15):
            tag.b[n] = bytearray(rb(16))
        tag.b[0x80] = bytearray(rb(16))
        mc = bytearray(rb(16))
        for j in (0, 1, 6, 7, 8, 9, 10, 11):
            mc[j] = rng.choice([0x00, 0xFF, 0xFF, rng.randrange(256)])
        mc[2] = rng.choice([0xFF, 0xFF, 0x00, rng.randrange(256)])
        mc[5] = rng.choice([0, 1, rng.randrange(256)])
        tag.b[0x88] = mc
        if lite_s:
            tag.b[0x90] = bytearray(rng.choice([0, 0xFF, 0xFFFF, 0xFFFFFE, 0xFFFFFF, rng.randrange(1 << 24)]).to_bytes(3, "little") + rb(13))
        tag.rc_written = rng.random() < 0.7
        tag.ext_auth = 1 if rng.random() < 0.5 else 0
        head = ["card", "S1" if lite_s else "S0", "I" + hx(F.IDM), "F%d%d" % (1 if tag.rc_written else 0, tag.ext_auth)]
        head += ["B%02x=%s" % (n, hx(v)) for n, v in sorted(tag.b.items())]
        kind = rng.choice(["read", "read", "write", "write", "wmac", "wmac", "wmac-bad", "junk"])
        idm = F.IDM
        if kind == "read":
            nums = [rng.choice(pool) for _ in range(rng.choice([0, 1, 1, 2, 2, 3, 4, 5]))]
            if nums and rng.random() < 0.5:
                nums[-1] = 0x81
            svc = rng.choice([b"\x0b\x00", b"\x0b\x00", b"\x09\x00", b"\x0f\x00"])
            body = b"\x01" + svc + bytes([len(nums)]) + b"".join(bytes([0x80, n]) for n in nums)
            cmd = bytes([2 + 8 + len(body), 0x06]) + idm + body
        elif kind == "write":
            n = rng.choice(pool)
            data = rb(16 if rng.random() < 0.9 else rng.choice([0, 15, 17, 32]))
            body = b"\x01" + rng.choice([b"\x09\x00", b"\x09\x00", b"\x0b\x00"]) + b"\x01" + bytes([0x80, n]) + data
            cmd = bytes([2 + 8 + len(body), 0x08]) + idm + body
        elif kind in ("wmac", "wmac-bad"):
            n = rng.choice(list(range(0, 15)) + [0x92, 0x92, 0x86, 0x87, 0x80, 0x90, 0x88, 0x82])
            d16 = rb(16) if n != 0x92 or rng.random() < 0.3 else bytes([1]) + bytes(15)
            w = bytes(tag.b[0x90][0:3]) if lite_s else rb(3)
            mac = D.lite_s_mac_a_write(tag.b[0x87], tag.b[0x80], w, n, d16)
            if kind == "wmac-bad":
                r = rng.random()
                if r < 0.4:
                    w = (D.le(w) ^ (1 << rng.randrange(24))).to_bytes(3, "little")     # stale / other counter, MAC over the card's
                elif r < 0.7:
                    w2 = ((D.le(w) - 1) % (1 << 24)).to_bytes(3, "little")               # MAC AND counter field of the previous value
                    mac, w = D.lite_s_mac_a_write(tag.b[0x87], tag.b[0x80], w2, n, d16), w2
                else:
                    mac = bytes([mac[0] ^ (1 << rng.randrange(8))]) + mac[1:]
            second = 0x91 if rng.random() < 0.93 else rng.choice(pool)
            body = b"\x01\x09\x00\x02" + bytes([0x80, n, 0x80, second]) + d16 + mac + w + bytes(5)
            cmd = bytes([2 + 8 + len(body), 0x08]) + idm + body
        else:
            cmd = rb(rng.randrange(0, 40))
            if cmd and rng.random() < 0.7:
                cmd = bytes([len(cmd)]) + cmd[1:]
        r = rng.random()
        if r < 0.12 and cmd:                                  # one bit of a well-formed command flipped
            j = rng.randrange(len(cmd))
            cmd = cmd[:j] + bytes([cmd[j] ^ (1 << rng.randrange(8))]) + cmd[j + 1:]
        elif r < 0.16 and len(cmd) > 2:
            cut = rng.randrange(1, len(cmd))
            cmd = bytes([cut]) + cmd[1:cut]
        if len(cmd) == 6 and len(cmd) > 1 and cmd[1] == 0:    # polling is not mirrored
            continue
        rsp = tag.command(cmd)
        out.append((" ".join(head + ["c:" + hx(cmd)]), "%s %s" % ("none" if rsp is None else hx(rsp), hx(tag.digest())),
                    kind, None if rsp is None else bytes(rsp[10:12])))
    return out


# ----------------------------------------------------------------------------------------------- tag.ndef
def ndef_histories(rng, T):
    """C20-r3m3 class: what `tag.ndef` hands out around authenticate() - NDEF data looked at BEFORE an
    authentication (read without MAC, cached in the tag object), then authenticate / protect / format, then
    tag.ndef / has_changed again; message lengths around the block and the three-blocks-per-MAC-read boundaries"""
    def rb(n):
        return bytes(rng.randrange(256) for _ in range(n))

    out = []
    patterns = ["N A N", "N A N N", "A N", "A N H", "N H A H", "N A H N", "N X N", "N A X N", "N A E N", "N A N P1 H N",
                "N P1 N H", "N T0 N", "T0 N A N", "N T0 A N H", "N T1 A N", "N Tn0 N A N", "N F N", "N A F N", "F N A N",
                "N A W N", "N A K N", "N A N K H", "N A R N", "N S N", "H", "N A P0 N H", "A N A N", "N A N A N"]
    lengths = [0, 1, 15, 16, 17, 40, 47, 48, 49, 64, 100, 208] if T else [0, 16, 17, 48, 49, 100]
    k = 0
    for lite_s in (False, True):
        for p in patterns:
            words = p.split()
            reps = 2 if T else 1
            for _ in range(reps):
                k += 1
                key, other = rb(16), rb(16)
                msg = rb(lengths[k % len(lengths)])
                blocks = initial_blocks(rng, lite_s, rb(16) if words[0].startswith("T") else key)
                formatted = words[0] != "F"
                if formatted:
                    F.store_ndef(blocks, msg, nbr=rng.choice([4, 4, 1, 2, 3, 13]))
                ops = []
                for w in words:
                    if w == "N":
                        ops.append(("n",))
                    elif w == "H":
                        ops.append(("h",))
                    elif w == "A":
                        ops.append(("a", key, rb(16)))
                    elif w == "X":
                        ops.append(("a", other, rb(16)))
                    elif w == "E":
                        ops.append(("a", b"", rb(16)))
                    elif w == "S":
                        ops.append(("a", rb(5), rb(16)))
                    elif w == "F":
                        ops.append(("f", rng.choice([None, None, 0x00, 0x5A])))
                    elif w in ("T0", "T1", "Tn0"):
                        ops.append(("t", None if w == "Tn0" else key, False, 0 if w.endswith("0") else 1, rb(16)))
                    elif w == "W":
                        ops.append(("w", rb(16), rng.randrange(1, 5)) if lite_s else ("p", rb(16), rng.randrange(1, 5)))
                    elif w == "P1":
                        ops.append(("p", rb(16), 1))
                    elif w == "P0":                                     # somebody rewrites the attribute block: shorter message
                        n = max(0, len(msg) - 5)
                        a = bytearray(blocks[0])
                        a[11:14] = n.to_bytes(3, "big")
                        a[14:16] = sum(a[0:14]).to_bytes(2, "big")
                        ops.append(("p", bytes(a), 0))
                    elif w == "K":
                        ops.append(("s", 0x87, F.key_block(rb(16))))
                    elif w == "R":
                        ops.append(("r", [1, 2]))
                    else:
                        raise ValueError(w)
                out.append(Hist(lite_s, blocks, ops, (), "ndef " + p + " (%d octets)" % len(msg), sys12fc=formatted))
    return out


def ndef_tamper_rules(rng, T, clean):
    """every exchange of every tag.ndef / has_changed call of a clean execution: a bit of the data area (the
    falsified unprotected read before authentication; the MAC protected read after it) and a lost frame"""
    out = []
    for s in clean.steps:
        if s["op"][0] not in ("n", "h"):
            continue
        span = [e for e in clean.air.trace[s["x0"]:s["x1"]] if e[2] is not None and e[1] is not None and e[1][1] == 0x06 and len(e[2]) > 13]
        if not T and len(span) > 1:                              # quick tier: one exchange per call (the last one is a data read)
            span = [span[rng.choice([0, len(span) - 1, rng.randrange(len(span))])]]
        for (i, cmd, rsp) in span:
            picks = [rng.randrange(13, len(rsp))] + ([rng.randrange(13, len(rsp))] if T else [])
            if T and len(rsp) >= 13 + 32:
                picks.append(13 + 16 + rng.randrange(16))
            for p_ in picks:
                m = bytearray(len(rsp))
                m[p_] = 1 << rng.randrange(8)
                out.append(([("r", i, "xor", bytes(m))], "bit in octet %d of response %d (tag.ndef)" % (p_, i)))
        if T and s["x1"] > s["x0"]:
            out.append(([("r", s["x0"], "drop", None)], "response %d lost" % s["x0"]))
    return out
