"""C14 part "crcuse" - CRC_A / CRC_B at their USE SITES in the drivers.

The main C14 check proves and ties the CRC helper functions.  This part runs
the REAL drivers (sense_tta, send_cmd_recv_rsp) against simulated chips that
honour the CRC enable settings the driver programs (sims/chip_transport.py:
Pn53xCiu, Rcs380Crc) and judges, for every driver that handles CRCs in
software and every SEL_RES value / Type 1 Tag raw command:

* a tag response with a correct CRC is returned as data WITHOUT the CRC octets,
* a tag response with a wrong CRC (every single-bit flip of short and 16 octet
  responses, of data and CRC octets) raises TransmissionError - whoever is in
  charge of the check, chip or driver, for the settings the driver made,
* the command leaves the antenna with a correct CRC exactly once (the driver
  adds it exactly when the chip does not).
L3 only (no model): keys wrong-crc-accepted, crc-octets-returned-as-data,
good-crc-response-altered, good-crc-response-rejected, command-without-crc.
"""
import logging

from common import hx, exc_name

logging.disable(logging.CRITICAL)

LEAN_TARGETS = []

REPR_SEL = [0x00, 0x04, 0x08, 0x09, 0x10, 0x11, 0x18, 0x19, 0x28, 0x88, 0x98, 0x20, 0x24, 0x40, 0x60, 0x80, 0x1F, 0x9F]


def devices():
    import nfc.clf.pn531, nfc.clf.pn532, nfc.clf.pn533, nfc.clf.rcs956, nfc.clf.acr122, nfc.clf.arygon, nfc.clf.rcs380
    from sims import chip_transport as T
    log = logging.getLogger("verif.c14.crcuse")
    out = []
    table = [("pn531", nfc.clf.pn531.Chipset, nfc.clf.pn531.Device, "pn531", b""),
             ("pn532", nfc.clf.pn532.Chipset, nfc.clf.pn532.Device, "pn532", b""),
             ("pn533", nfc.clf.pn533.Chipset, nfc.clf.pn533.Device, "pn533", b""),
             ("rcs956", nfc.clf.rcs956.Chipset, nfc.clf.rcs956.Device, "rcs956", b""),
             ("arygonA", nfc.clf.arygon.ChipsetA, nfc.clf.arygon.DeviceA, "pn531", b"2"),
             ("arygonB", nfc.clf.arygon.ChipsetB, nfc.clf.arygon.DeviceB, "pn532", b"2")]
    for name, ccls, dcls, fam, prefix in table:
        tr = T.Pn53xCiu(fam, prefix)
        chip = object.__new__(ccls)
        chip.transport, chip.log = tr, log
        dev = object.__new__(dcls)
        dev.chipset, dev.log = chip, log
        out.append((name, dev, tr, tr))
    tr = T.Acr122()
    tr.inner = T.Pn53xCiu("pn532")
    chip = object.__new__(nfc.clf.acr122.Chipset)
    chip.transport, chip.log = tr, log
    dev = object.__new__(nfc.clf.acr122.Device)
    dev.chipset, dev.log = chip, log
    out.append(("acr122", dev, tr, tr.inner))
    tr = T.Rcs380Crc()
    chip = object.__new__(nfc.clf.rcs380.Chipset)
    chip.transport, chip.log = tr, log
    dev = object.__new__(nfc.clf.rcs380.Device)
    dev.chipset, dev.log = chip, log
    out.append(("rcs380", dev, tr, tr))
    return out


def flips(frame, positions=None):
    for i in (range(len(frame)) if positions is None else positions):
        for b in range(8):
            m = bytearray(frame)
            m[i] ^= 1 << b
            yield bytes(m), (i, b)


def run_part(ck):
    import nfc.clf
    from sims import chip_transport as T
    rng = ck.rng
    ck.assumptions.append("crcuse: the simulated PN53x/RC-S380 apply CRC_A on send / check and strip it on receive exactly "
                          "as the TxCRCEn/RxCRCEn bits (add_crc/check_crc settings) programmed by the driver say")
    ck.trusted.append("harness/props/c14_crcuse.py, sims/chip_transport.py (Pn53xCiu, Rcs380Crc)")
    n_before = ck.evals

    def exchange(dev, tr, target, cmd):
        tr.arm()
        try:
            return "ok", bytes(dev.send_cmd_recv_rsp(target, bytearray(cmd), 0.1))
        except Exception as e:  # noqa
            return "exc", exc_name(e)

    def judge(name, what, cmd, good, body, res, chip, crcfn, flipped=None):
        replay = {"driver": name, "case": what, "command": hx(cmd), "tag_frame": hx(chip.tag_frame), "flipped": flipped,
                  "outcome": "%s %s" % (res[0], hx(res[1]) if res[0] == "ok" else res[1])}
        if flipped is None:
            if res[0] == "ok" and res[1] == good:
                ck.fail("crc-octets-returned-as-data", "%s %s: response returned with its CRC octets" % (name, what), replay)
            elif res[0] == "ok" and res[1] != body:
                ck.fail("good-crc-response-altered", "%s %s: %s returned for %s" % (name, what, hx(res[1]), hx(good)), replay)
            elif res[0] == "exc":
                ck.fail("good-crc-response-rejected", "%s %s: valid response raised %s" % (name, what, res[1]), replay)
        else:
            if res[0] == "ok":
                ck.fail("wrong-crc-accepted", "%s %s: frame with wrong CRC (octet %d bit %d flipped) accepted, returned %s"
                        % (name, what, flipped[0], flipped[1], hx(res[1])), replay)
            elif res[1] != "TransmissionError":
                ck.fail("wrong-crc-other-error", "%s %s: frame with wrong CRC raised %s" % (name, what, res[1]), replay)

    def air_check(name, what, chip, cmd, crcfn, replay_cmd):
        tx = chip.air_tx[-1] if chip.air_tx else b""
        if tx != bytes(cmd) + crcfn(bytes(cmd)):
            ck.fail("command-without-crc", "%s %s: command %s left the antenna as %s (expected exactly one correct CRC)"
                    % (name, what, hx(cmd), hx(tx)), {"driver": name, "case": what, "command": hx(cmd), "on_air": hx(tx)})

    block = bytes(range(0x10, 0x20))
    short = b"\x0a"
    for name, dev, tr, chip in devices():
        sels = list(range(256)) if ck.thorough else sorted(set(REPR_SEL + rng.sample(range(256), 10)))
        for sel in sels:
            chip.reset(sel) if name != "rcs380" else chip.reset()
            what = "SEL_RES %02X" % sel
            if name == "rcs380":
                target = nfc.clf.RemoteTarget("106A", sens_res=bytearray(b"\x04\x00"), sel_res=bytearray([sel]),
                                              sdd_res=bytearray(b"\x01\x02\x03\x04"))
            else:
                tr.arm()
                try:
                    target = dev.sense_tta(nfc.clf.RemoteTarget("106A"))
                except Exception as e:  # noqa
                    target = None
                    ck.fail("crcuse-sense-failed", "%s %s: sense_tta raised %s" % (name, what, exc_name(e)), {"driver": name, "sel_res": sel})
                if target is None or target.sel_res is None or target.sel_res[0] != sel:
                    ck.fail("crcuse-sense-failed", "%s %s: sense_tta returned %s" % (name, what, target), {"driver": name, "sel_res": sel})
                    continue
            full = sel in REPR_SEL
            for body, cmd in ((block, b"\x30\x04"), (short, b"\x30\x05")):
                good = body + T.crc_a(body)
                chip.tag_frame = good
                chip.air_tx = []
                res = exchange(dev, tr, target, cmd)
                ck.case(("crcuse", name, sel, len(body), "good"), True, "crcuse:good")
                judge(name, what, cmd, good, body, res, chip, T.crc_a)
                air_check(name, what, chip, cmd, T.crc_a, cmd)
                if len(body) > 1 and not (full and ck.thorough) and not (full and sel in (0x00, 0x08, 0x20)):
                    pos = rng.sample(range(len(good)), 2) + [len(good) - 1]
                else:
                    pos = None
                for bad, fl in flips(good, pos):
                    chip.tag_frame = bad
                    res = exchange(dev, tr, target, cmd)
                    ck.case(("crcuse", name, sel, len(body), fl), True, "crcuse:flip")
                    judge(name, what, cmd, good, body, res, chip, T.crc_a, fl)
        # Type 1 Tag commands sent through the CIU FIFO with CRC_B in software (PN532 / PN533 work-around)
        if name in ("pn532", "pn533", "arygonB"):
            target = nfc.clf.RemoteTarget("106A", sens_res=bytearray(b"\x00\x0c"), rid_res=bytearray.fromhex("120001020304"))
            for cmd in (bytes.fromhex("0203 0000000000000000 01020304"), bytes.fromhex("5405 1122334455667788 01020304")):
                body = bytes([cmd[1]]) + bytes(range(0x40, 0x48))
                good = body + T.crc_b(body)
                what = "Type 1 Tag command %02X" % cmd[0]

                def t1(frame):
                    chip.reset(0)
                    chip.tag_frame = frame
                    return exchange(dev, tr, target, cmd)
                res = t1(good)
                ck.case(("crcuse", name, "t1", cmd[0], "good"), True, "crcuse:good")
                judge(name, what, cmd, good, body, res, chip, T.crc_b)
                on_air = bytes(chip.fifo_in)
                if on_air != cmd + T.crc_b(cmd):
                    ck.fail("command-without-crc", "%s %s: command left the FIFO as %s" % (name, what, hx(on_air)),
                            {"driver": name, "case": what, "command": hx(cmd), "on_air": hx(on_air)})
                for bad, fl in flips(good, None if ck.thorough else rng.sample(range(len(good)), 4) + [len(good) - 1]):
                    res = t1(bad)
                    ck.case(("crcuse", name, "t1", cmd[0], fl), True, "crcuse:flip")
                    judge(name, what, cmd, good, body, res, chip, T.crc_b, fl)
    ck.notes.append("crcuse: %d driver exchanges judged (8 drivers, %s SEL_RES values, Type 1 FIFO path on PN532/PN533)"
                    % (ck.evals - n_before, "all 256" if ck.thorough else "representative + random"))
