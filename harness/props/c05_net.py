"""C05, routing layer: SEVERAL data link connection sockets per service access point.

Histories on two real LogicalLinkControllers (harness/sims/dlc_net.py): listening sockets,
connects by address and by name, accepted connections sharing the access point of the listener,
re-connects from the same source address while the socket of an earlier connection (CLOSE_WAIT,
DISCONNECT, SHUTDOWN - not yet closed by its application) is still in the sock_list, closes from
either side.  Every history is replayed on the Lean model NfcVerif.Model.DlcSap (driver lines
`N...`) and compared after EVERY step (result, frame on the wire, complete state of every socket,
contents of every sock_list), and judged by an oracle that does not use the model:

* routing: an I / RR / RNR PDU sent by the socket of a connection reaches the socket at the other
  end of that connection whenever that socket is in its access point and established; an
  established socket never takes a PDU of another connection;
* per connection: received is a prefix of accepted, nothing lost at quiescence, window, no FRMR,
  EMSGSIZE, consistent parameters and addresses after CONNECT / CC, only documented errnos.
"""
import itertools

from common import hx

OTHER = {"A": "B", "B": "A"}
EXPECTED = {"exc llcp.Error(11)", "exc llcp.Error(90)", "exc llcp.Error(32)", "exc llcp.Error(107)",
            "exc llcp.Error(9)", "exc llcp.Error(108)", "exc llcp.Error(98)", "exc llcp.Error(13)",
            "exc llcp.Error(14)", "exc llcp.Error(99)", "exc llcp.Error(95)", "exc llcp.Error(22)",
            "exc llcp.Error(106)", "exc llcp.Error(114)"}
KNOWN_EARLY = "dlc-data-before-connect-complete"
KNOWN_CLOSE = "dlc-close-unread-data-no-disc"


class NetWalk:
    def __init__(self, ck, link, agf, label):
        from sims.dlc_net import Net
        self.ck, self.label, self.cfg = ck, label, (link, 1 if agf else 0)
        self.net = Net(link, agf)
        self.lines = ["Ninit %d %d" % self.cfg]
        self.real = [None]
        self.acc, self.got = {}, {}          # id(socket) -> messages accepted by send() / returned by recv()
        self.tainted = set()                 # id(socket): connection hit by a known finding
        self.zombie = set()                  # id(socket): established, but its peer closed without DISC
        self.ev_seen = 0
        self.wl_seen = {"A": 0, "B": 0}
        self.cnt = 0
        self.dead = False
        self.stats = {}
        self.failed = set()
        self.delivered = 0
        self.reconnects = 0
        self.ncid = 0                        # ghost: number of connect() calls so far (both sides)
        self.cid = {}                        # id(socket) -> number of the connection attempt it belongs to
        self.hi = {}                         # (direction, ssap) -> highest number of a CONNECT seen on that wire

    # ------------------------------------------------------------------ helpers
    def stat(self, k, n=1):
        self.stats[k] = self.stats.get(k, 0) + n

    def fail(self, key, what):
        if key in self.failed:
            return
        self.failed.add(key)
        self.ck.fail(key, "%s [%s link=%d agf=%d, step %d]" % ((what, self.label) + self.cfg + (len(self.lines) - 1,)),
                     {"net": list(self.cfg), "ops": [l[1:] for l in self.lines[1:]]})

    def msg(self, n):
        self.cnt += 1
        head = bytes([self.cnt & 255, (self.cnt >> 8) & 255])
        return (head * (n // 2 + 1))[:n]

    def socks(self, x):
        return self.net.socks[x]

    def state(self, x, i):
        return str(self.net.socks[x][i].state)

    # ------------------------------------------------------------------ one step
    def do(self, line):
        if self.dead:
            return None
        n = self.net
        self.pre = None
        if line.startswith("close "):
            f = line.split(" ")
            if 0 <= int(f[2]) < len(n.socks[f[1]]):
                s = n.sock(f[1], f[2])
                self.pre = (str(s.state), len(s.recv_queue), n.listed(f[1], s))
        try:
            res = n.op(line)
        except Exception as e:  # noqa   (an unexpected exception inside the simulator glue is a failing input too)
            from common import Infra, exc_name
            if isinstance(e, Infra):
                raise
            res = "exc " + exc_name(e)
            self.fail("dlc-unexpected-exception", "%s raised %r outside a socket call" % (line, e))
            self.dead = True
        self.lines.append("N" + line)
        self.real.append(res + " | " + n.digest())
        self.judge(line, res)
        if n.link_down:
            self.fail("dlc-frame-codec", n.link_down)
            self.dead = True
            return res
        for x, i, kind in n.runnable():
            self.do("%s %s %d" % ("connfin" if kind == "connect" else "closefin", x, i))
        return res

    def judge(self, line, res):
        n = self.net
        f = line.split(" ")
        kind, x = f[0], f[1]
        self.stat("nop:" + kind)
        if res == "n/a" and kind not in ("connfin", "closefin"):
            return
        if res.startswith("exc ") or res.startswith("ret "):
            self.stat("nres:" + res)
            if res not in EXPECTED:
                self.fail("dlc-unexpected-exception", "%s -> %s" % (line, res))
        if kind == "send":
            s = n.sock(x, f[2])
            m = bytes.fromhex(f[3]) if f[3] != "-" else b""
            if res == "ok":
                self.acc.setdefault(id(s), []).append(m)
                if len(m) > s.send_miu:
                    self.fail("dlc-oversize-message-accepted", "send() accepted %d octets, connection MIU %d" % (len(m), s.send_miu))
            elif len(m) > s.send_miu and s.state.ESTABLISHED and res != "exc llcp.Error(90)":
                self.fail("dlc-oversize-message-not-refused", "send() of %d octets (MIU %d) -> %s" % (len(m), s.send_miu, res))
        elif kind == "recv" and res.startswith("ok "):
            s = n.sock(x, f[2])
            self.got.setdefault(id(s), []).append(bytes.fromhex(res[3:]) if res[3:] != "-" else b"")
            self.delivered += 1
        elif kind == "close" and res == "done" and self.pre and self.pre[0] == "ESTABLISHED" and self.pre[2]:
            s = n.sock(x, f[2])
            p = n.partner.get(id(s))
            self.tainted.add(id(s))
            if p is not None:
                self.tainted.add(id(p))
                if p.state.ESTABLISHED:
                    self.zombie.add(id(p))
            self.fail(KNOWN_CLOSE, "close() of the established socket %s with %d unread PDUs in its receive queue took one of "
                      "them for the DM: it returned at once, DISC was never sent and the peer %s stays ESTABLISHED"
                      % (n.name_of(s), self.pre[1], n.name_of(p) if p is not None else None))
        elif kind == "connect" and res == "pending":
            self.ncid += 1
            self.cid[id(n.sock(x, f[2]))] = self.ncid
        elif kind == "accept" and res.startswith("ok "):
            d = n.sock(x, res[3:])
            if id(d) in n.partner:
                self.cid[id(d)] = self.cid.get(id(n.partner[id(d)]), 0)
        elif kind == "connfin" and res == "ok":
            c = n.sock(x, f[2])
            p = n.partner.get(id(c))
            if p is None:
                self.fail("dlc-handshake-addresses", "connect() of %s completed but no socket accepted its CONNECT" % n.name_of(c))
            else:
                if c.peer != p.addr or p.peer != c.addr:
                    self.fail("dlc-handshake-addresses", "%s is connected to %s, the accepted socket %s has addr %s peer %s"
                              % (n.name_of(c), c.peer, n.name_of(p), p.addr, p.peer))
                if c.send_win != p.recv_win or p.send_win != c.recv_win or c.send_miu > p.recv_miu or p.send_miu > c.recv_miu:
                    self.fail("dlc-handshake-parameters", "after CONNECT/CC: %s has RW(R)=%s MIU=%s RW(L)=%s, %s has RW(L)=%s recv MIU %s RW(R)=%s"
                              % (n.name_of(c), c.send_win, c.send_miu, c.recv_win, n.name_of(p), p.recv_win, p.recv_miu, p.send_win))
                if c.addr in [q.addr for q in n.socks[x][:int(f[2])]]:
                    self.reconnects += 1
        # ---- routing: who got what
        evs = n.events[self.ev_seen:]
        self.ev_seen = len(n.events)
        for sender, target, p, tstate in evs:
            if sender is None or p.name not in ("I", "RR", "RNR"):
                continue
            self.stat("routed:" + p.name)
            partner = n.partner.get(id(sender))
            tx = n.side[id(target)][0]
            if p.name == "I" and tstate == "CONNECT" and partner is target:
                self.tainted.update((id(sender), id(target)))
                self.fail(KNOWN_EARLY, "I PDU N(S)=%d of the accepted socket %s reached %s while connect() had not completed "
                          "(state CONNECT): it is dropped, the message is lost and the next I PDU is answered with FRMR"
                          % (p.ns, n.name_of(sender), n.name_of(target)))
                continue
            if partner is not None and partner is not target and n.listed(tx, partner) and partner.state.ESTABLISHED:
                self.fail("dlc-pdu-routed-to-wrong-socket",
                          "%s PDU sent by %s (connection with %s, which is established and in the sock_list of SAP %s) "
                          "was handed to %s (state %s)" % (p.name, n.name_of(sender), n.name_of(partner), partner.addr,
                                                            n.name_of(target), tstate))
            elif tstate == "ESTABLISHED" and partner is not target and id(sender) in self.zombie:
                # consequence of the known finding: the half-open socket talks into the next connection of that SAP
                self.tainted.add(id(target))
                if id(target) in n.partner:
                    self.tainted.add(id(n.partner[id(target)]))
                self.fail(KNOWN_CLOSE, "%s PDU of the half-open socket %s was processed by the established socket %s of a later "
                          "connection from the same SAP" % (p.name, n.name_of(sender), n.name_of(target)))
            elif tstate == "ESTABLISHED" and partner is not target:
                self.fail("dlc-pdu-of-other-connection-processed",
                          "%s PDU sent by %s (connection with %s) was processed by the established socket %s"
                          % (p.name, n.name_of(sender), n.name_of(partner) if partner is not None else None, n.name_of(target)))
        if kind == "deliver":
            seen = set(id(e[2]) for e in evs)
            for sender, p in getattr(n, "last_delivery", []):
                if sender is None or p.name not in ("I", "RR", "RNR") or id(p) in seen:
                    continue
                partner = n.partner.get(id(sender))
                if partner is not None and n.listed(x, partner) and partner.state.ESTABLISHED:
                    self.fail("dlc-pdu-routed-to-wrong-socket", "%s PDU sent by %s reached no socket although %s is established "
                              "and in the sock_list of SAP %s" % (p.name, n.name_of(sender), n.name_of(partner), partner.addr))
        # ---- every PDU newly put on the wire
        for d in "AB":
            log = n.wirelog[d]
            while self.wl_seen[d] < len(log):
                sender, q = log[self.wl_seen[d]]
                self.wl_seen[d] += 1
                self.stat("npdu:" + q.name)
                if sender is not None and q.name in ("CONNECT", "I", "RR", "RNR"):
                    # the assumption `Disc` of theorem sap_route_reaches_connection, checked on the real traffic
                    k, key = self.cid.get(id(sender), 0), (d, q.ssap)
                    top = self.hi.get(key, 0)
                    if (q.name == "CONNECT" and not top < k) or (q.name != "CONNECT" and not top <= k):
                        self.fail("tie:c05-stream-discipline", "%s PDU of connection attempt %d from SAP %d follows the "
                                  "CONNECT of attempt %d from the same SAP" % (q.name, k, q.ssap, top))
                    if q.name == "CONNECT":
                        self.hi[key] = k
                    self.stat("discipline-checked")
                if q.name == "FRMR" and (sender is None or id(sender) not in self.tainted):
                    self.fail("dlc-frmr-generated", "%s sent %s" % (n.name_of(sender) if sender is not None else d, q))
        # ---- per connection
        for sid, p in list(n.partner.items()):
            if sid in self.tainted or id(p) in self.tainted:
                continue
            acc, got = self.acc.get(sid, []), self.got.get(id(p), [])
            if got != acc[:len(got)]:
                s = [q for q in n.socks["A"] + n.socks["B"] if id(q) == sid][0]
                self.fail("dlc-delivery-not-prefix", "%s received %d messages that are not a prefix of what %s sent"
                          % (n.name_of(p), len(got), n.name_of(s)))
            if len(acc) - len(got) > max(p.recv_win, 0):
                s = [q for q in n.socks["A"] + n.socks["B"] if id(q) == sid][0]
                self.fail("dlc-window-exceeded", "%s has %d messages accepted and not received by the application of %s, RW=%d"
                          % (n.name_of(s), len(acc) - len(got), n.name_of(p), p.recv_win))

    # ------------------------------------------------------------------ quiescence
    def drain(self, rounds=60):
        n = self.net
        for _ in range(rounds):
            moved = False
            for x in "AB":
                r = self.do("collect " + x)
                moved |= r is not None and r != "none"
                while True:
                    r = self.do("deliver " + OTHER[x])
                    if r is None or not r.startswith("ok"):
                        break
                    moved = True
            for x in "AB":
                for i, s in enumerate(n.socks[x]):
                    while (s.state.ESTABLISHED or s.state.CLOSE_WAIT) and len(s.recv_queue) > 0 and n.listed_sap(x, s):
                        r = self.do("recv %s %d" % (x, i))
                        if r is None or not (r.startswith("ok") or r == "none"):
                            break
                        moved = True
            if not moved or self.dead:
                break
        if self.dead:
            return
        for sid, p in list(n.partner.items()):
            if sid in self.tainted or id(p) in self.tainted:
                continue
            s = [q for q in n.socks["A"] + n.socks["B"] if id(q) == sid][0]
            if s.state.ESTABLISHED and p.state.ESTABLISHED and n.listed(n.side[sid][0], s) and n.listed(n.side[id(p)][0], p):
                if self.got.get(id(p), []) != self.acc.get(sid, []):
                    self.fail("dlc-message-lost", "after draining: %s accepted %d messages, %s received %d"
                              % (n.name_of(s), len(self.acc.get(sid, [])), n.name_of(p), len(self.got.get(id(p), []))))

    def finish(self):
        self.net.cleanup()
        return self


# ---------------------------------------------------------------------- generators
def connect_pair(w, cx, caddr, dest, rw, miu, listener, early=None):
    """client socket on side cx bound to caddr connects to `dest`; the server side accepts; returns (ci, si)"""
    sx = OTHER[cx]
    r = w.do("sock %s %d %d a%d" % (cx, rw, miu, caddr))
    if r is None or not r.startswith("ok "):
        return None
    ci = int(r[3:])
    w.do("connect %s %d %s" % (cx, ci, dest))
    w.do("collect " + cx)
    w.do("deliver " + sx)
    r = w.do("accept %s %d" % (sx, listener))
    if r is None or not r.startswith("ok "):
        return None
    si = int(r[3:])
    if early:
        early(ci, si)
    w.do("collect " + sx)
    w.do("deliver " + cx)
    return ci, si


def transfer(w, cx, ci, si, k, pattern, rng=None):
    """k messages each way between client (cx, ci) and the accepted socket (other side, si)"""
    sx = OTHER[cx]
    sent = {cx: 0, sx: 0}
    ends = {cx: ci, sx: si}
    for _ in range(8 * k + 8):
        if w.dead:
            return
        order = [cx, sx] if pattern != 1 else [sx, cx]
        for x in order:
            burst = 1 if pattern == 2 else 3
            for _b in range(burst):
                if sent[x] < k:
                    r = w.do("send %s %d %s" % (x, ends[x], hx(w.msg(2 + sent[x] % 3))))
                    if r == "ok":
                        sent[x] += 1
        for x in order:
            w.do("collect " + x)
            w.do("deliver " + OTHER[x])
            if pattern != 3:
                while (w.do("recv %s %d" % (OTHER[x], ends[OTHER[x]])) or "").startswith("ok "):
                    pass
        if sent[cx] == k and sent[sx] == k:
            break
    w.drain()


ENDINGS = ["cclose", "cclose-sclose", "sclose", "sclose-late", "open"]


def reconnect_walk(ck, endings, agf, pattern, by_name, rw, label="reconnect"):
    """earlier connections from the SAME client address, each ended in one of the ways of ENDINGS, then
    a last connection that must deliver everything in both directions"""
    w = NetWalk(ck, 248 if agf else 128, agf, label)
    dest = "n3" if by_name else "a40"
    w.do("sock B %d 128 %s" % (rw, dest))
    w.do("listen B 0 3")
    caddr = 33
    for e in endings:
        pr = connect_pair(w, "A", caddr, dest, rw, 128, 0)
        if pr is None:
            break
        ci, si = pr
        transfer(w, "A", ci, si, 2, 0)
        if e == "open":                       # stays established: the next client must use another address
            caddr += 1
            continue
        if e.startswith("cclose"):
            w.do("close A %d" % ci)
            w.drain()
            if e == "cclose-sclose":
                w.do("close B %d" % si)
        else:
            w.do("close B %d" % si)
            w.drain()
            if e == "sclose":
                w.do("close A %d" % ci)
                w.drain()
            else:                             # the client application closes before the DM left
                w.do("collect B")
                w.do("deliver A")
                w.do("close A %d" % ci)
                w.drain()
    pr = connect_pair(w, "A", caddr, dest, rw, 128, 0)
    if pr is not None:
        transfer(w, "A", pr[0], pr[1], 5, pattern)
    return w.finish()


def reconnect_family(ck, thorough):
    out = []
    gens = [1, 2, 3] if thorough else [1, 2]
    for g in gens:
        for endings in itertools.product(ENDINGS, repeat=g):
            for agf in (False, True):
                pats = [0, 1, 2, 3] if thorough or g == 1 else [ck.rng.randrange(4)]
                for pat in pats:
                    out.append(reconnect_walk(ck, endings, agf, pat, by_name=(len(out) % 3 == 2),
                                              rw=[1, 2, 15][len(out) % 3]))
    return out


LETTERS = ["sendC", "sendS", "collectA", "collectB", "deliverA", "deliverB", "recvS", "recvC", "recvStale", "closeStale"]
HANDSHAKE = ["accept", "collectB", "deliverA", "sendS", "sendC", "recvC", "collectA", "deliverB"]


def letter(w, a, st):
    """resolve a letter of the bounded-exhaustive alphabet in the current state (None = not applicable)"""
    fixed = {"collectA": "collect A", "collectB": "collect B", "deliverA": "deliver A", "deliverB": "deliver B",
             "accept": "accept B 0"}
    if a in fixed:
        return fixed[a]
    if a == "sendC":
        return "send A %d %s" % (st["c"], hx(w.msg(2)))
    if a == "recvC":
        return "recv A %d" % st["c"]
    last = len(w.socks("B")) - 1
    if a == "sendS":
        return "send B %d %s" % (last, hx(w.msg(2))) if last > st["stale"] else None
    if a == "recvS":
        return "recv B %d" % last if last > st["stale"] else None
    if a == "closeStale":
        return "close B %d" % st["stale"]
    if a == "recvStale":
        return "recv B %d" % st["stale"]


def exhaustive_reconnect(ck, depth, agf, alphabet, label, established):
    """all sequences of `depth` letters from a state with a listener on SAP 40 and the accepted socket of an earlier
    connection from SAP 33 still in the sock_list (CLOSE_WAIT, DISC not yet read).  established: a second connection
    from SAP 33 is complete (its accepted socket stands in front of the stale one); otherwise the CONNECT of the
    second connection waits in the backlog and the history decides the order of accept / CC / first data"""
    out = []
    for hist in itertools.product(alphabet, repeat=depth):
        w = NetWalk(ck, 128, agf, label)
        w.do("sock B 2 128 a40")
        w.do("listen B 0 2")
        pr = connect_pair(w, "A", 33, "a40", 2, 128, 0)
        if pr is None:
            out.append(w.finish())
            continue
        w.do("close A %d" % pr[0])
        w.drain()
        st = {"stale": pr[1]}
        if established:
            pr2 = connect_pair(w, "A", 33, "a40", 2, 128, 0)
            if pr2 is None:
                out.append(w.finish())
                continue
            st["c"] = pr2[0]
        else:
            r = w.do("sock A 2 128 a33")
            st["c"] = int(r[3:]) if r and r.startswith("ok ") else 0
            w.do("connect A %d a40" % st["c"])
            w.do("collect A")
            w.do("deliver B")
        for a in hist:
            line = letter(w, a, st)
            if line is not None:
                w.do(line)
        w.drain()
        out.append(w.finish())
    return out


def random_net_walk(ck, steps, label):
    rng = ck.rng
    link = rng.choice([128, 128, 140, 248, 2175])
    agf = rng.random() < 0.5
    w = NetWalk(ck, link, agf, label)
    listeners = {"A": [], "B": []}
    dests = []

    def new_listener(x):
        to = rng.choice(["a40", "a41", "n3", "n4"])
        rw = rng.choice([0, 1, 1, 2, 3, 7, 15, 15, 20])
        miu = rng.choice([128, 128, link, rng.randrange(128, link + 40)])
        r = w.do("sock %s %d %d %s" % (x, rw, miu, to))
        if r and r.startswith("ok "):
            i = int(r[3:])
            w.do("listen %s %d %d" % (x, i, rng.choice([0, 1, 1, 2, 3])))
            listeners[x].append(i)
            dests.append((x, to if to[0] == "n" else to))
    new_listener("B")
    if rng.random() < 0.3:
        new_listener("A")
    pool = {"A": [33, 33, 34, 36], "B": [33, 35]}
    base = {"client": 1.0, "accept": 1.5, "send": 6, "recv": 5, "collect": 6, "deliver": 6, "busy": 0.3, "poll": 0.4,
            "close": 0.8, "micro": 0.4, "listener": 0.05, "connect": 0.3}
    kinds = list(base)
    wt = None
    for step in range(steps):
        if w.dead:
            break
        if step % 50 == 0:
            wt = [base[k] * rng.choice([0.3, 1, 1, 2]) for k in kinds]
        k = rng.choices(kinds, wt)[0]
        x = rng.choice("AB") if k != "client" else rng.choice("AAAB")
        socks = w.socks(x)
        if k in ("send", "recv", "busy", "poll") and rng.random() < 0.9:
            if not any(str(q.state) == "ESTABLISHED" for q in socks):
                x = OTHER[x]
                socks = w.socks(x)
                if not any(str(q.state) == "ESTABLISHED" for q in socks):
                    k, x = "client", rng.choice("AAAB")
                    socks = w.socks(x)
                    if all(w.net.L[x].sap[a] is not None for a in pool[x]):
                        k = rng.choice(["collect", "deliver", "accept", "close"])
        if k == "accept" and rng.random() < 0.9 and not any(len(socks[i].recv_queue) for i in listeners[x] if w.state(x, i) == "LISTEN"):
            k = rng.choice(["collect", "deliver"])
        if k == "listener":
            new_listener(x)
        elif k == "client":
            rw = rng.choice([0, 1, 1, 2, 2, 3, 7, 15, 16])
            miu = rng.choice([128, 128, link, rng.randrange(128, link + 40)])
            free = [a for a in pool[x] if w.net.L[x].sap[a] is None]
            r = w.do("sock %s %d %d a%d" % (x, rw, miu, rng.choice(free if free and rng.random() < 0.9 else pool[x])))
            if r and r.startswith("ok ") and rng.random() < 0.9:
                ds = [d for sx, d in dests if sx != x] or ["a40"]
                dest = rng.choice(ds) if rng.random() < 0.92 else rng.choice(["a50", "n9", "a33"])
                w.do("connect %s %d %s" % (x, int(r[3:]), dest))
                if rng.random() < 0.7:        # usually the whole handshake runs before anything else happens
                    y = OTHER[x]
                    w.do("collect " + x)
                    w.do("deliver " + y)
                    for i in listeners[y]:
                        if w.state(y, i) == "LISTEN" and len(w.socks(y)[i].recv_queue):
                            w.do("accept %s %d" % (y, i))
                    w.do("collect " + y)
                    w.do("deliver " + x)
        elif k == "connect":
            bound = [i for i in range(len(socks)) if socks[i].addr is not None]
            cand = [i for i in bound if w.state(x, i) in ("CLOSED",) and i not in listeners[x]] or bound
            if cand:
                ds = [d for sx, d in dests if sx != x] or ["a40"]
                w.do("connect %s %d %s" % (x, rng.choice(cand), rng.choice(ds)))
        elif k == "accept":
            cand = [i for i in listeners[x] if w.state(x, i) == "LISTEN" and len(socks[i].recv_queue)]
            if cand or listeners[x]:
                i = rng.choice(cand or listeners[x])
                r = w.do("accept %s %d" % (x, i))
                if r and r.startswith("ok ") and rng.random() < 0.75:     # usually the handshake completes before data
                    w.do("collect " + x)
                    w.do("deliver " + OTHER[x])
        elif k in ("send", "recv", "busy", "poll", "close"):
            if not socks:
                continue
            est = [i for i in range(len(socks)) if w.state(x, i) == "ESTABLISHED"]
            i = rng.choice(est) if est and rng.random() < 0.93 else rng.randrange(len(socks))
            s = socks[i]
            if k == "send":
                r = rng.random()
                n = rng.randrange(1, 9) if r < 0.85 else 0 if r < 0.88 else max(0, s.send_miu + rng.choice([-1, 0, 1, 2, 30]))
                w.do("send %s %d %s" % (x, i, hx(w.msg(n))))
            elif k == "recv":
                w.do("recv %s %d" % (x, i))
            elif k == "busy":
                w.do("busy %s %d %d" % (x, i, rng.randrange(2)))
            elif k == "poll":
                w.do("poll %s %d %s" % (x, i, rng.choice(["recv", "send", "acks"])))
            else:
                st = w.state(x, i)
                # applications rarely tidy up the socket of a connection the peer has closed; clients close often
                p = {"ESTABLISHED": 0.5, "CLOSE_WAIT": 0.15, "SHUTDOWN": 0.15, "LISTEN": 0.03, "CLOSED": 0.1}.get(st, 0.1)
                if rng.random() < p:
                    w.do("close %s %d" % (x, i))
        elif k in ("collect", "deliver"):
            w.do("%s %s" % (k, x))
        elif k == "micro":
            saps = [a for a in range(2, 64) if w.net.L[x].sap[a] is not None] + [1]
            a = rng.choice(saps)
            if rng.random() < 0.7:
                w.do("sdeq %s %d %d" % (x, a, rng.choice([link, link, rng.randrange(-2, 12), rng.randrange(0, link + 1)])))
            elif a != 1:
                w.do("sack %s %d" % (x, a))
    w.drain()
    return w.finish()


WITNESS_EARLY = ["sock B 2 128 a40", "listen B 0 1", "sock A 2 128 a33", "connect A 0 a40", "collect A", "deliver B",
                 "accept B 0", "send B 1 01", "collect B", "collect B", "deliver A", "deliver A", "connfin A 0",
                 "collect A", "collect B"]
WITNESS_HALF_OPEN = ["sock B 2 128 a40", "listen B 0 1", "sock A 2 128 a33", "connect A 0 a40", "collect A", "deliver B",
                     "accept B 0", "collect B", "deliver A", "send B 1 05", "collect B", "deliver A",
                     "close A 0", "collect A", "deliver B", "collect B", "deliver A",
                     "sock A 2 128 a33", "connect A 1 a40", "collect A", "deliver B", "accept B 0",
                     "collect B", "deliver A", "send B 2 07", "collect B", "deliver A", "send B 1 09",
                     "collect B", "deliver A", "recv A 1", "recv A 1"]


def witness_walks(ck):
    """the history of the counter-example theorem net_early_data_counterexample, and the history of theorem
    net_close_unread_repaired (close() with unread data, then a re-connect from the same SAP) on the real code: without
    the repair fixes/C05/0002 the second connection delivers a message of the half-open socket of the first one"""
    out = []
    for label, ops in (("witness-early-data", WITNESS_EARLY), ("witness-half-open", WITNESS_HALF_OPEN)):
        w = NetWalk(ck, 128, False, label)
        last = None
        for op in ops:
            if op.startswith("connfin"):      # issued automatically as soon as the answer has arrived
                continue
            last = w.do(op)
        if label == "witness-half-open" and not w.dead:
            n = w.net
            got = w.got.get(id(n.socks["A"][1]), []) if len(n.socks["A"]) > 1 else None
            sent = w.acc.get(id(n.socks["B"][2]), []) if len(n.socks["B"]) > 2 else None
            if got == [b"\x07", b"\x09"] and sent == [b"\x07"]:
                w.fail(KNOWN_CLOSE, "the second connection from SAP 33 delivered %r to its application, its peer sent only %r: "
                       "the message 09 comes from the half-open socket of the first connection" % (got, sent))
        out.append(w.finish())
    return out


def run_net(ck, model):
    """all histories of the routing layer; returns (walks, disagreements)"""
    walks = []
    walks += witness_walks(ck)
    walks += reconnect_family(ck, ck.thorough)
    nfam = len(walks)
    walks += exhaustive_reconnect(ck, 4 if ck.thorough else 3, True, LETTERS, "exhaustive-reconnect", True)
    walks += exhaustive_reconnect(ck, 4, False, HANDSHAKE if ck.thorough else HANDSHAKE[:5], "exhaustive-handshake", False)
    nexh = len(walks) - nfam
    for i in range(400 if ck.thorough else 90):
        walks.append(random_net_walk(ck, ck.rng.randrange(60, 500 if ck.thorough else 300), "net"))
    lines = [l for w in walks for l in w.lines]
    replies = model.ask_many(lines)
    pos, dis, nops = 0, 0, 0
    for w in walks:
        n = len(w.lines)
        rep = replies[pos:pos + n]
        pos += n
        bad = None
        for i in range(1, n):
            nops += 1
            if rep[i] != w.real[i]:
                bad = i
                break
        refused = sum(v for k, v in w.stats.items() if k.startswith("nres:"))
        ck.case(("net", w.cfg, tuple(w.lines[1:])), w.delivered + refused > 0, "walk:" + w.label,
                sample={"net": list(w.cfg), "steps": len(w.lines) - 1, "first_steps": w.lines[1:9],
                        "delivered": w.delivered, "reconnects": w.reconnects} if w.label == "net" and w.reconnects else None)
        for k, v in w.stats.items():
            ck.count(k, v)
        ck.count("net-messages-delivered", w.delivered)
        ck.count("net-reconnects-same-sap", w.reconnects)
        if bad is not None:
            dis += 1
            ck.fail("tie:c05-model-vs-sap", "step %d `%s` [%s]: model %r, implementation %r"
                    % (bad, w.lines[bad], w.label, rep[bad], w.real[bad]),
                    {"net": list(w.cfg), "ops": [l[1:] for l in w.lines[1:bad + 1]], "model": rep[bad], "impl": w.real[bad]})
    ck.tie("controller model with several sockets per access point vs two real controllers (histories)",
           cases=len(walks), disagreements=dis, exhaustive=False)
    ck.count("net-steps-compared", nops)
    ck.notes.append("routing layer: %d reconnect scenarios (every way the earlier connections from the same SAP ended x "
                    "aggregation x traffic pattern), %d bounded-exhaustive histories from the state `stale accepted socket + "
                    "new client on the same SAP`, %d random histories with listeners, connects by address and by name, "
                    "closes and re-connects; %d steps compared with the model after every step"
                    % (nfam, nexh, len(walks) - nfam - nexh, nops))
    return walks
