"""C15 part `drv` - the REAL drivers under the frontend lock.

The main part of the check puts a recording proxy in the place of the driver.  That cannot see what a
driver does on its own: a driver that defers work to a timer or a helper thread touches the reader
while no frontend operation (and therefore no lock) covers it (seed C15-r5m3).  This part

* (T, in translate_lock.py -> Gen/ClfLock.facts -> theorem clf_facts) states as a source fact that no
  module of nfc/clf starts a thread, timer, executor, signal handler or exit hook;
* (L3) runs every real driver class (pn531/532/533, rcs956, arygon, acr122, rcs380) on the scripted
  transports of the C13 rig behind a real ContactlessFrontend whose lock records its owner, lets every
  driver method the frontend uses run the way the frontend calls it (under the lock, through the public
  entry points where the simulated chip supports it), waits, and demands that EVERY access to the host
  transport was made by the thread that held the frontend lock at that moment.
"""
import logging
import threading
import time

logging.disable(logging.CRITICAL)


class OwnerLock(object):
    """threading.Lock that knows which thread holds it"""

    def __init__(self):
        self._l = threading.Lock()
        self.owner = None

    def acquire(self, *a, **k):
        r = self._l.acquire(*a, **k)
        if r:
            self.owner = threading.get_ident()
        return r

    def release(self):
        self.owner = None
        self._l.release()

    def locked(self):
        return self._l.locked()

    def __enter__(self):
        self.acquire()
        return self

    def __exit__(self, *exc):
        self.release()


def run_part(ck):
    import importlib
    import nfc.clf
    c13 = importlib.import_module("props.c13")
    from sims import chip_transport as T
    ck.rule += (" | drv: cases = (real driver class, driver method or frontend entry point, transport access) observed "
                "on the scripted transports; non-trivial = the call reached the transport")
    ck.assumptions += ["drv: the scripted transports of harness/sims/chip_transport.py stand for the USB/TTY link; a "
                       "deferred driver action is observed if it fires within 0.8 s of wall-clock time"]
    clock = T.Clock()
    rigs = []
    events = []          # (driver, op, access, thread is lock owner, thread name)
    mutex = threading.Lock()
    names = [n for n in c13.KINDS if n != "udp"]
    for name in names:
        rig = c13.Rig(name, clock)
        lock = OwnerLock()
        rig.clf.lock = lock
        cur = [None]

        def wrap(fn, what, name=name, lock=lock, cur=cur, tr=rig.tr):
            def inner(*a, **k):
                ok = lock.owner == threading.get_ident()
                with mutex:
                    events.append((name, cur[0], what, ok, threading.current_thread().name))
                if what == "write" and name == "acr122" and bytes(a[0])[10:13] == b"\xff\x00\x40":
                    # LED / buzzer control of the reader itself (not a PN532 command): acknowledged with 90 00
                    tr.queue = [b"\x80\x02\x00\x00\x00" + bytes(5) + b"\x90\x00"]
                    return None
                return fn(*a, **k)
            return inner
        rig.tr.read = wrap(rig.tr.read, "read")
        rig.tr.write = wrap(rig.tr.write, "write")
        rigs.append((name, rig, lock, cur))

    def guarded(fn):
        try:
            fn()
        except (IOError, nfc.clf.Error, ValueError, AssertionError, NotImplementedError):
            pass

    for name, rig, lock, cur in rigs:
        dev = rig.dev
        kinds_i, kinds_t = c13.KINDS[name]
        # public entry points that the simulated chip supports: exchange as initiator / as target
        for d, kinds in (("i", kinds_i[:2]), ("t", kinds_t[:1])):
            for kind in kinds:
                cur[0] = "exchange:%s:%s" % (d, kind)
                before = len(events)
                try:
                    rig.run(d, kind, True)
                except Exception as e:  # noqa: the rig reports outcomes as text; anything else is C13's business
                    ck.notes.append("drv: rig.run %s %s %s ended %s" % (name, d, kind, type(e).__name__))
                ck.case(("drv", name, cur[0]), len(events) > before, "drv:exchange")
        # the remaining driver methods, called the way the frontend calls them: under its lock
        target = rig.target("i", kinds_i[0])
        for meth, args in (("turn_on_led_and_buzzer", ()), ("turn_off_led_and_buzzer", ()), ("mute", ()),
                           ("get_max_send_data_size", (target,)), ("get_max_recv_data_size", (target,))):
            cur[0] = meth
            before = len(events)
            rig.tr.arm()

            def call(meth=meth, args=args, dev=dev, lock=lock):
                with lock:
                    getattr(dev, meth)(*args)
            guarded(call)
            ck.case(("drv", name, meth), len(events) > before, "drv:" + meth)
        cur[0] = "(after the last frontend operation returned)"
    # anything a driver deferred fires now, while no frontend operation is running
    time.sleep(0.8 if not ck.thorough else 2.0)
    for name, rig, lock, cur in rigs:
        if name.startswith("arygon"):
            continue             # the Arygon close() writes a reset to the TTY itself, which the scripted link lacks
        cur[0] = "close"
        rig.tr.arm()
        guarded(rig.clf.close)
    bad = [e for e in events if not e[3]]
    ck.count("drv: transport accesses observed", len(events))
    ck.count("drv: real driver classes", len(rigs))
    seen = set()
    for name, op, what, ok, th in bad:
        if (name, op) in seen:
            continue
        seen.add((name, op))
        ck.fail("driver-io-without-frontend-lock:" + name,
                "driver %s: transport %s on thread %s while that thread does not hold the frontend lock (%s)"
                % (name, what, th, op),
                {"driver": name, "operation": op, "access": what, "thread": th,
                 "how": "harness/props/c15_drv.py: real driver on the scripted transport of the C13 rig, frontend lock "
                        "replaced by an owner-recording lock"})
