"""C01, part vendor - the round trip on the product classes of nfc.tag.tt2_nxp (Mifare Ultralight / Ultralight C /
EV1, NTAG203, NTAG21x, NTAG I2C) with their real memory sizes and factory control TLVs.  (The Type 1 product
classes of tt1_broadcom - Topaz, Topaz-512 - are what the Type 1 simulators of the main part activate.)

L2: the same model (NfcVerif.Model.Tlv, driver drv_t12) as for the generic Type 2 Tag: the product classes must
    not change offset, capacity, flags, skip set, write commands or the read-back.
L3: product class recognised; capacity fits the layout; oversize rejected with no command; write -> fresh
    activation (of the same product) -> same octets.
"""
from common import Model, hx, exc_name

LEAN_TARGETS = ["drv_t12"]


def run_part(ck):
    from sims.c01_vendor import PRODUCTS, VT2, vendor_layout, with_old
    from sims.t12_run import read_line, show_cmds, hdr
    from sims.t12_tags import activate
    rng = ck.rng
    ck.rule += (" | vendor: case = (NXP product, image of the product's memory size with its factory control TLVs, "
                "0-1 further control TLVs, 0-3 NULL TLVs, previous message, message); lengths {0,1,253..256,cap-1,cap,cap+1}")
    model = Model("drv_t12")
    jobs = []
    for product in PRODUCTS:
        try:
            one_product(ck, product, jobs)
        except Exception as e:  # noqa
            ck.fail("t2-vendor-unexpected-behaviour", "%s: the exploration ended with %s" % (product[0], exc_name(e)),
                    {"product": product[0], "exception": repr(e)})
    replies = model.ask_many([j[0] for j in jobs])
    dis = 0
    for (req, real, replay), rep in zip(jobs, replies):
        if rep != real:
            dis += 1
            ck.fail("tie:t2-vendor-model-vs-nfcpy", "%s: model %r, implementation %r" % (replay["product"], rep[:300], real[:300]),
                    dict(replay, model=rep[:3000], impl=real[:3000]))
    ck.tie("Tlv model vs tt2_nxp product classes (offset, capacity, flags, skip set, commands, read-back)",
           cases=len(jobs), disagreements=dis, exhaustive=False)


def one_product(ck, product, jobs):
    from sims.c01_vendor import VT2, vendor_layout, with_old
    from sims.t12_run import read_line, show_cmds, hdr
    rng = ck.rng
    if True:
        name = product[0]
        for rep in range(4 if ck.thorough else 2):
            lay = None
            for _ in range(30):
                lay = vendor_layout(rng, product)
                if lay["ok"]:
                    lay = with_old(rng, lay, rng.choice([0, 5, 254, 255, 300]))
                    if lay is not None:
                        break
            if lay is None or not lay.get("ok"):
                continue
            base = bytes(lay["mem"])
            free = lay["free"]
            spec_cap = free - (4 if free > 256 else 2)
            lens = sorted(set(n for n in [0, 1, 253, 254, 255, 256, spec_cap - 1, spec_cap, spec_cap + 1,
                                          rng.randrange(spec_cap + 2)] if 0 <= n <= spec_cap + 1))
            if not ck.thorough and len(lens) > 6:
                lens = sorted(set([0, spec_cap, spec_cap + 1] + rng.sample(lens, 3)))
            for n in lens:
                data = bytes(rng.randrange(256) for _ in range(n))
                replay = {"product": name, "memory": base.hex(), "data": data.hex(), "request": "w t2 %s %s 0" % (hx(base), hx(data))}
                sim = VT2(base, product)
                try:
                    before, tag, nd = read_line("t2", sim)
                except Exception as e:  # noqa
                    ck.fail("t2-vendor-activation-raises", "%s: %s" % (name, exc_name(e)), replay)
                    continue
                ck.case((name, base, data), nd is not None, "vendor:%s" % name)
                if type(tag).__name__ != name:
                    ck.fail("t2-vendor-product-not-recognised", "%s activated as %s" % (name, type(tag).__name__), replay)
                if nd is None:
                    ck.fail("t2-vendor-wellformed-layout-not-read", "%s: fresh activation reads %s" % (name, before), replay)
                    continue
                cap = nd.capacity
                if cap + hdr(cap) > free:
                    ck.fail("t12-capacity-exceeds-layout", "%s: capacity %d needs %d bytes, layout has %d free"
                            % (name, cap, cap + hdr(cap), free), replay)
                if bytes(nd.octets) != lay["old"] or nd._ndef_tlv_offset != lay["off"]:
                    ck.fail("t12-read-differs", "%s: stored message / offset read wrongly" % name, replay)
                sim.arm(None)
                n0 = sim.ncmd
                try:
                    nd.octets = data
                    wrote = "ok"
                except Exception as e:  # noqa
                    wrote = "exc " + exc_name(e)
                ncmd = sim.ncmd - n0
                cmds = list(sim.writes)
                try:
                    after, tag2, nd2 = read_line("t2", VT2(bytes(sim.mem), product))
                    back = None if nd2 is None else (bytes(nd2.octets), nd2.capacity)
                except Exception as e:  # noqa
                    after, back = "exc " + exc_name(e), None
                jobs.append((replay["request"], "%s | %s | %s | %s" % (before, wrote, show_cmds(cmds), after), replay))
                if n > cap:
                    if wrote != "exc ValueError" or ncmd != 0 or bytes(sim.mem) != base:
                        ck.fail("t12-oversize-not-rejected", "%s: %d bytes > capacity %d: %s after %d commands"
                                % (name, n, cap, wrote, ncmd), replay)
                elif wrote != "ok":
                    ck.fail("t12-write-raises", "%s: writing %d bytes (capacity %d) raised %s" % (name, n, cap, wrote[4:]), replay)
                elif back != (data, cap):
                    ck.fail("t12-roundtrip-mismatch", "%s: wrote %d bytes, fresh activation reads %s"
                            % (name, n, "None" if back is None else "%d bytes, capacity %d" % (len(back[0]), back[1])), replay)
