"""C07 - bytes from the remote peer cannot crash or hang the stack.

L1: theorems of NfcVerif.Props.C07 about the executable models of every decoder the
    peer reaches (NFC-DEP frames, LLCP PDUs, general bytes, Type 3 Tag commands), of
    dispatch -> enqueue for every socket kind/state (does the link loop wait?) and of
    the try/except structure from llc.exchange up to ContactlessFrontend.connect.
L2: the models against the REAL code on the same octets: exhaustive short frames,
    header-exhaustive prefixes, grammar-aware mutations of valid frames, boundary
    sizes - result and exception class compared; the exception-flow table against
    the real handlers by raising every exception class at every site.
L3: byte injectors at every protocol position of the real code (sims/peer_inject.py,
    sims/peer_llc.py): two nfc.dep roles with a scripted peer, llc.activate, a real
    LogicalLinkController with sockets of every kind in every state (waits of the
    link loop raise Hang; a daemon-thread guard with a hard limit is the backstop),
    application calls in progress, the run loops, connect(llcp=..)/connect(card=..)
    on a scripted device, the SNEP/handover servers and the SNEP client on scripted
    sockets, the Type 3 Tag emulation.  Oracle: only documented exception classes,
    no hang, run loop terminated, connect() returns.
"""
import itertools
import logging
import struct

from common import Model, hx, exc_name, INTERNAL, Infra

logging.disable(logging.CRITICAL)

LEAN_TARGETS = ["NfcVerif.Props.C07", "drv_c07", "NfcVerif.Props.TablesPdu"]

THEOREMS = ["NfcVerif.C07." + t for t in (
    "pdu_decode_total", "dep_decode_total", "dep_decode_counterexample", "dep_decode_is_c04", "dep_decode_total_c04",
    "dep_rtox_total", "dep_rtox_counterexample", "dep_target_rtox_total", "dep_target_rtox_counterexample",
    "dep_after_deselect_total", "dep_after_deselect_counterexample",
    "pax_total", "pax_counterexample", "t3emu_total", "t3emu_counterexample",
    "dispatch_total", "peer_octets_dispatch_total", "linkloop_never_waits", "linkloop_never_waits_counterexample", "second_cc_ignored",
    "peer_bytes_flow", "peer_bytes_flow_counterexample", "flow_contains", "connect_returns_normally",
    "card_loop_contains", "card_loop_counterexample",
    "t3emu_total_any_services", "t3emu_status_flag_octet", "t3emu_status_flag_counterexample", "card_session_returns", "t3emu_response_framed",
    "snep_request_total", "snep_request_safe", "snep_serve_total", "snep_request_is_c06",
    "snep_client_get_total", "snep_client_put_total")]

COMM = {"TimeoutError", "TransmissionError", "ProtocolError", "BrokenLinkError", "CommunicationError"}


def rb(rng, n):
    return bytes(rng.randrange(256) for _ in range(n))


def fr(brty, body):
    f = bytes([(len(body) + 1) & 255]) + body
    return (b"\xF0" + f) if brty == "106A" else f


def mutate(rng, b, lenpos=()):
    """grammar-aware mutation: length fields +-1, truncation, extension, flips, substitution"""
    b = bytearray(b)
    r = rng.random()
    if r < 0.2 and lenpos:
        i = rng.choice(lenpos)
        if i < len(b):
            b[i] = (b[i] + rng.choice([1, -1, 2, -2])) & 255 if rng.random() < 0.7 else rng.choice([0, 1, 2, 3, 255])
    elif r < 0.4 and b:
        del b[rng.randrange(len(b)):]
    elif r < 0.5:
        b += rb(rng, rng.randrange(1, 4))
    elif r < 0.7 and b:
        b[rng.randrange(len(b))] ^= 1 << rng.randrange(8)
    elif r < 0.85 and b:
        b[rng.randrange(len(b))] = rng.choice([0, 1, 2, 3, 255, 0xD4, 0xD5, 0xF0, rng.randrange(256)])
    elif b:
        i = rng.randrange(len(b))
        del b[i:i + rng.randrange(1, 3)]
    return bytes(b)


class Ctx(object):
    pass


# ====================================================================== variants present in the tree
def probe(P, L):
    """which repairs does the tree under test contain (selects the model variant for the ties)"""
    v = {}
    v["frame"] = P.dep_decode(0, "212F", b"") == "exc TransmissionError"
    v["atr"] = P.dep_decode(0, "212F", bytes([3, 0xD5, 1])) == "exc ProtocolError"
    ATR = bytes([0xD5, 1]) + bytes(15) + b"\x32" + b"Ffm\x01\x01\x11"
    st, _ = P.dep_initiator("212F", [fr("212F", ATR), fr("212F", bytes([0xD5, 7, 0x90]))])
    v["rtox"] = dict(st).get("exchange") == "exc ProtocolError"
    v["gb"] = P.llc_activate(1, b"Ffm\x01\x05\x11")[0] == "ok False"
    from sims.t34_sims import EmuLink
    v["t3"] = P.t3_command(EmuLink(bytes(16)), b"")[0].startswith("ok none")
    w = L.World()
    r = L.guarded(lambda: w.inject(b"\x90\xe0"))
    w.close()
    v["f39"] = r[0] == "ok"
    w = L.World()
    s = w.socks["connect"]
    L.guarded(lambda: w.inject(bytes([35 << 2 | 1, 0x80 | 40]) * 1))
    L.guarded(lambda: w.inject(bytes([35 << 2 | 1, 0x80 | 40]) * 1))
    v["cc"] = len(s.recv_queue) == 1
    w.close()
    return v


# ====================================================================== A. NFC-DEP frame decoder
def dep_frames(ck, rng):
    """octet strings aimed at decode_frame: yields (brty, req, frame, bucket)"""
    for brty in ("106A", "212F"):
        for req in (0, 1):
            yield brty, req, b"", "short"
            for a in range(256):
                yield brty, req, bytes([a]), "short"
            for a in range(256):
                for b in range(256):
                    yield brty, req, bytes([a, b]), "short"
            # three octets: every length octet x every second octet (sample in the quick tier) x code classes
            third = [0, 1, 4, 5, 6, 7, 8, 9, 10, 11, 0xD4, 0xD5, 0xF0, 3, 0xFF, 2]
            seconds = range(256) if ck.thorough else [0, 1, 2, 3, 4, 5, 0xD4, 0xD5, 0xF0, 0xFF] + [rng.randrange(256) for _ in range(6)]
            for a in range(256):
                for b in seconds:
                    for c in (third if ck.thorough else third[:9]):
                        yield brty, req, bytes([a, b, c]), "three"
            # header-exhaustive: correct framing, every code octet pair class, several tails
            c0s = [0xD4, 0xD5, 0x00, 0xFF]
            for c0 in c0s:
                for c1 in range(256) if ck.thorough else list(range(16)) + [255, 128]:
                    for tail in (b"", b"\x00", b"\x0c", b"\x0c\x01", b"\x0c\x01\x02", bytes(14), bytes(15), bytes(16), bytes(3)):
                        yield brty, req, fr(brty, bytes([c0, c1]) + tail), "header"
            # every PFB octet of DEP with 0..3 following octets
            for pfb in range(256):
                for n in range(4):
                    yield brty, req, fr(brty, bytes([0xD4 if req else 0xD5, 6 if req else 7, pfb]) + bytes(n)), "pfb"
            # valid PDUs of every kind, mutated; boundary sizes up to the largest frame
            nv = 400 if ck.thorough else 60
            for _ in range(nv):
                k = rng.choice(["dep", "dep", "dsl", "rls", "atr", "atr", "psl"])
                code = bytes([0xD4 if req else 0xD5])
                if k == "dep":
                    pfb = rng.choice([0, 1, 4, 5, 8, 9]) << 4 | rng.randrange(16)
                    body = code + bytes([6 if req else 7, pfb]) + rb(rng, rng.choice([0, 1, 2, 3, 10, 200, 249, 250, 251, 252]))
                elif k in ("dsl", "rls"):
                    body = code + bytes([(8 if k == "dsl" else 10) + (0 if req else 1)]) + rb(rng, rng.choice([0, 1, 1, 2]))
                elif k == "atr":
                    n = rng.choice([0, 1, 13, 14, 15, 16, 17, 30, 62, 251])
                    body = code + bytes([0 if req else 1]) + rb(rng, n)
                else:
                    body = code + bytes([4 if req else 5]) + rb(rng, rng.choice([0, 1, 2, 3, 4]))
                body = body[:254]
                f = fr(brty, body)
                yield brty, req, f, "valid:" + k
                lenpos = (1,) if brty == "106A" else (0,)
                for _ in range(6):
                    yield brty, req, mutate(rng, f, lenpos), "mutated:" + k
            for n in (253, 254, 255, 256, 257, 300):
                body = bytes([0xD4 if req else 0xD5, 6 if req else 7, 0]) + bytes(n - 3)
                yield brty, req, fr(brty, body), "boundary"


def part_dep_decode(cx):
    ck, P, rng, V = cx.ck, cx.P, cx.ck.rng, cx.V
    reqs, reals = [], []
    fixbits = "%d" % (V["frame"] and V["atr"])
    mixed = V["frame"] != V["atr"]
    for brty, req, f, bucket in dep_frames(ck, rng):
        real = P.dep_decode(req, brty, f)
        ck.case(("depdec", brty, req, f), len(f) > 0, "dep-decode:" + bucket,
                sample={"position": "decode_frame", "brty": brty, "req": req, "frame": f.hex(), "impl": real} if rng.random() < 2e-5 else None)
        if real.startswith("exc") and real[4:] not in ("ProtocolError", "TransmissionError"):
            kind = "empty-frame" if len(f) < (2 if brty == "106A" else 1) else "short-atr" if real[4:] == "ValueError" else "other"
            ck.fail("dep-decode-%s-%s" % (kind, real[4:]), "decode_frame(%s, %s) of %s raised %s" % (brty, "Target" if req else "Initiator", f.hex() or "<empty>", real[4:]),
                    {"position": "dep.decode_frame", "brty": brty, "role": "target" if req else "initiator", "frame": f.hex()})
        if not mixed:
            reqs.append("dep %s %d %d %s" % (fixbits, brty == "106A", req, hx(f)))
            reals.append(real)
    replies = cx.model.ask_many(reqs)
    dis = 0
    for line, real, rep in zip(reqs, reals, replies):
        if rep != real:
            dis += 1
            ck.fail("tie:dep-decode-frame", "model %r, implementation %r" % (rep, real), {"request": line, "model": rep, "impl": real})
    ck.tie("decodeFrameV vs Initiator/Target.decode_frame (both framings)", cases=len(reqs), disagreements=dis, exhaustive=False)
    ck.notes.append("decode_frame: all frames of <= 2 octets exhaustive for both roles and framings; 3-octet frames: %s"
                    % ("256 x 256 x 16 code classes" if ck.thorough else "256 x 16 x 9 sampled"))


# ====================================================================== B. NFC-DEP protocol positions
def part_dep_protocol(cx):
    ck, P, rng, V, model = cx.ck, cx.P, cx.ck.rng, cx.V, cx.model
    GB = b"Ffm\x01\x01\x11"
    n = 1500 if ck.thorough else 250
    reqs = []   # (model line, real outcome, replay)

    def judge(role, steps, replay):
        for step, r in steps:
            if r.startswith("exc") and r[4:] not in COMM:
                ck.fail("dep-%s-%s-%s" % (role, step, r[4:]), "%s.%s raised %s" % (role, step, r[4:]), replay)
            if r in ("exc Budget",):
                ck.fail("dep-%s-%s-endless" % (role, step), "frames exchanged without end", replay)

    def res_frames(brty, req):
        """a response/request frame for the data exchange phase, often malformed"""
        code = bytes([0xD4 if req else 0xD5, 6 if req else 7])
        r = rng.random()
        if r < 0.25:
            pfb = rng.choice([0, 1, 4, 5, 8, 9]) << 4 | rng.choice([0, 1, 2, 3, 4, 8, 12])
            body = code + bytes([pfb]) + rb(rng, rng.choice([0, 0, 1, 2, 5]))
        elif r < 0.45:
            body = code + bytes([0x90 | rng.randrange(4)]) + rb(rng, rng.choice([0, 0, 1, 1, 2]))     # RTOX
        elif r < 0.55:
            k = rng.choice([8, 10, 0, 4]) + (0 if req else 1)
            body = bytes([code[0], k]) + rb(rng, rng.choice([0, 1, 2, 3, 14, 15, 16]))
        elif r < 0.6:
            return rng.choice(["T", "X", "B"])
        elif r < 0.7:
            return rb(rng, rng.randrange(0, 4))
        else:
            body = code + bytes([rng.randrange(4)]) + rb(rng, rng.choice([1, 2, 3]))
        f = fr(brty, body)
        return mutate(rng, f, (1,) if brty == "106A" else (0,)) if rng.random() < 0.35 else f

    for i in range(n):
        brty = rng.choice(["106A", "212F"])
        did = rng.choice([None, None, 1, 5])
        # ---- initiator
        atr = bytes([0xD5, 1]) + rb(rng, 10) + bytes([did or 0, 0, 0, rng.randrange(16), 0x32]) + GB
        if rng.random() < 0.3:
            atr = mutate(rng, atr)
        active = rng.random() < 0.2
        script = [] if active else [fr(brty, atr) if rng.random() < 0.85 else mutate(rng, fr(brty, atr), (1,) if brty == "106A" else (0,))]
        brs = rng.choice([0, 0, 1, 2])
        if brs > ("106A", "212F").index(brty) and not active:
            script.append(fr(brty, bytes([0xD5, 5]) + rb(rng, rng.choice([1, 1, 0, 2]))))
        script += [res_frames(brty, 0) for _ in range(rng.randrange(0, 6))]
        payloads = [rb(rng, rng.choice([1, 2, 70, 300])) for _ in range(rng.randrange(1, 3))]
        replay = {"position": "nfc.dep.Initiator", "brty": brty, "did": did, "brs": brs,
                  "active_atr_res": atr.hex() if active else None,
                  "frames": [x if isinstance(x, str) else x.hex() for x in script], "payloads": [p.hex() for p in payloads]}
        steps, clf = P.dep_initiator(brty, script, did=did, brs=brs, active_atr=atr if active else None, payloads=payloads,
                                     release=rng.random() < 0.5)
        judge("initiator", steps, replay)
        ck.case(("depi", brty, did, brs, tuple(map(str, script))), True, "dep-initiator:" + "/".join(s + ":" + r.split()[0] + (" " + r.split()[1] if r.startswith("exc") else "") for s, r in steps)[:60],
                sample=dict(replay, impl=steps) if i < 1 else None)
        # ---- target
        atr_req = bytes([0xD4, 0]) + rb(rng, 10) + bytes([did or 0, 0, 0, 0x32]) + GB
        if rng.random() < 0.15:
            # what listen() can deliver: the drivers recognise ATR_REQ by D4 00, ContactlessFrontend.listen checks 16..64 octets
            atr_req = (b"\xD4\x00" + mutate(rng, atr_req)[2:] + bytes(16))[:max(16, min(64, len(atr_req) + rng.randrange(-3, 3)))]
        first = bytes([0xD4, 6, 0 | (4 if did else 0)]) + (bytes([did]) if did else b"") + rb(rng, 2)
        if rng.random() < 0.3:
            first = mutate(rng, first) if rng.random() < 0.6 else rng.choice([bytes([0xD4, 0]) + rb(rng, rng.randrange(0, 16)), bytes([0xD4, 8]), bytes([0xD4, 4, 0, 0, 0]), b"\xD4", b""])
        script = [res_frames(brty, 1) for _ in range(rng.randrange(0, 6))]
        rtox = rng.choice([None, None, 3])
        replay = {"position": "nfc.dep.Target", "brty": brty, "atr_req": atr_req.hex(), "first_dep_req": first.hex(),
                  "frames": [x if isinstance(x, str) else x.hex() for x in script], "rtox": rtox}
        steps, clf = P.dep_target(brty, atr_req, first, script, payloads=payloads, rtox=rtox)
        judge("target", steps, replay)
        ck.case(("dept", brty, atr_req, first, tuple(map(str, script))), True, "dep-target:" + "/".join(s + ":" + r.split()[0] + (" " + r.split()[1] if r.startswith("exc") else "") for s, r in steps)[:60])
    # ---- the RTOX value and the frame after deselect: model vs code on the exact positions
    ATR = bytes([0xD5, 1]) + bytes(15) + b"\x32" + GB
    ATQ = bytes([0xD4, 0]) + bytes(13) + b"\x32" + GB
    datas = [b""] + [bytes([v]) for v in range(256)] + [bytes([v, 7]) for v in (0, 1, 59, 60, 255)]
    for brty in ("106A", "212F"):
        for d in datas if ck.thorough else datas[:70] + datas[250:]:
            steps, _ = P.dep_initiator(brty, [fr(brty, ATR), fr(brty, bytes([0xD5, 7, 0x90]) + d)])
            real = dict(steps).get("exchange", "?")
            # after a valid RTOX the scripted peer is silent -> TimeoutError; the model only decides the RTOX value
            want = model_line = "rtox %d %s" % (V["rtox"], hx(d))
            reqs.append((model_line, "rtox", real, {"position": "Initiator.exchange RTOX", "brty": brty, "data": d.hex()}))
            steps, _ = P.dep_target(brty, ATQ, bytes([0xD4, 6, 0, 0, 0]), [fr(brty, bytes([0xD4, 6, 0x90]) + d)], rtox=3)
            real = dict(steps).get("rtox", "?")
            reqs.append(("trtox %d %s" % (V["rtox"], hx(d)), "trtox", real, {"position": "Target.send_timeout_extension", "brty": brty, "data": d.hex()}))
            for step, r in steps:
                if r.startswith("exc") and r[4:] not in COMM:
                    ck.fail("dep-target-%s-%s" % (step, r[4:]), "Target.%s raised %s" % (step, r[4:]),
                            {"position": "nfc.dep.Target", "brty": brty, "rtox_answer_data": d.hex()})
        nxt = [None, bytes([0xD4, 6, 1, 1, 1]), bytes([0xD4, 8]), bytes([0xD4, 10]), bytes([0xD4, 0]) + bytes(14) + b"\x00", bytes([0xD4, 4, 0, 0, 0]),
               bytes([0xD4, 0, 1]), b"\x00", bytes([0xD4, 6])]
        for x in nxt:
            for code in (8, 10):
                script = [fr(brty, bytes([0xD4, code]))] + ([fr(brty, x)] if x is not None else [])
                steps, _ = P.dep_target(brty, ATQ, bytes([0xD4, 6, 0, 0, 0]), script, payloads=[b"\x01\x02"])
                real = steps[2][1] if len(steps) > 2 else "?"
                reqs.append(("desel %d %d %s" % (V["desel"], brty == "106A", "none" if x is None else hx(fr(brty, x))), "desel", real,
                             {"position": "Target.exchange after DSL/RLS", "brty": brty, "next": None if x is None else x.hex()}))
                for step, r in steps:
                    if r.startswith("exc") and r[4:] not in COMM:
                        ck.fail("dep-target-after-deselect-%s" % r[4:], "Target.%s raised %s" % (step, r[4:]),
                                {"position": "Target.exchange after DSL/RLS", "brty": brty, "frames": [s.hex() for s in script]})
    replies = model.ask_many([r[0] for r in reqs])
    dis = 0
    for (line, kind, real, replay), rep in zip(reqs, replies):
        ck.case((line,), True, "dep-value:" + kind)
        if kind == "rtox":
            ok = (rep.startswith("exc") and real == rep) or (rep.startswith("ok") and real in ("exc TimeoutError", "exc ProtocolError"))
        elif kind == "trtox":
            ok = rep == real
        else:
            # the model says what Target.exchange gets; the code then returns None / raises TimeoutError (silent peer)
            ok = (rep.startswith("exc") and real == rep) or (rep == "ok none" and real in ("ok none", "exc TimeoutError")) \
                or (rep == "ok dep" and not (real.startswith("exc") and real[4:] in INTERNAL))
        if not ok:
            dis += 1
            ck.fail("tie:dep-" + kind, "model %r, implementation %r" % (rep, real), dict(replay, request=line))
    ck.tie("rtoxOf / tRtoxOf / afterDeselect vs Initiator.exchange, Target.send_timeout_extension, Target.exchange",
           cases=len(reqs), disagreements=dis, exhaustive=ck.thorough)


# ====================================================================== C. general bytes
def part_gb(cx):
    ck, P, rng, V, model = cx.ck, cx.P, cx.ck.rng, cx.V, cx.model
    gbs = [None, b"", b"F", b"Ff", b"Ffm", b"Ffm\x01", b"Ffm\x01\x01", b"Ffx\x01\x01\x11", b"ffm\x01\x01\x11"]
    head = b"Ffm"
    for a in range(256):
        for b in (0, 1, 2, 3, 4, 255):
            gbs.append(head + bytes([a, b, 0x11]))
            gbs.append(head + bytes([1, 1, 0x11, a, b]))
    for t in range(16):
        for ln in range(5):
            for have in range(ln + 2):
                gbs.append(head + bytes([t, ln]) + bytes([0x21] * have) + (b"" if have <= ln else b"\x04\x01\x05"))
    good = head + b"\x01\x01\x11\x02\x02\x07\xff\x03\x02\x00\x13\x04\x01\x96\x07\x01\x03"
    gbs.append(good)
    for _ in range(3000 if ck.thorough else 500):
        r = rng.random()
        if r < 0.5:
            gbs.append(mutate(rng, good, (4, 7, 11, 15, 18)))
        elif r < 0.8:
            gbs.append(head + b"".join(bytes([rng.choice([1, 2, 3, 4, 7, 0, 5, 6, 9, 200]), n]) + rb(rng, max(0, n - rng.choice([0, 0, 0, 1])))
                                       for n in [rng.choice([0, 1, 2, 3, 255]) for _ in range(rng.randrange(1, 5))]))
        else:
            gbs.append(head + rb(rng, rng.randrange(0, 45)))
    lines, reals = [], []
    for gb in gbs:
        for ini in (1, 0):
            real, llc = P.llc_activate(ini, gb)
            ck.case(("gb", ini, gb), gb is not None and len(gb) > 5, "general-bytes:" + " ".join(real.split()[:2]),
                    sample={"position": "llc.activate", "gb": None if gb is None else gb.hex(), "impl": real} if rng.random() < 0.002 else None)
            if real.startswith("exc"):
                ck.fail("llc-activate-%s" % real[4:], "llc.activate raised %s for general bytes %s" % (real[4:], gb.hex()),
                        {"position": "llc.activate (general bytes)", "role": "initiator" if ini else "target", "general_bytes": gb.hex()})
            if ini:
                lines.append("gb %d %s" % (V["gb"], "none" if gb is None else hx(gb)))
                reals.append(real)
    replies = model.ask_many(lines)
    dis = 0
    for line, real, rep in zip(lines, reals, replies):
        if rep != real:
            dis += 1
            ck.fail("tie:llc-activate-general-bytes", "model %r, implementation %r" % (rep, real), {"request": line})
    ck.tie("activateGb vs LogicalLinkController.activate", cases=len(lines), disagreements=dis, exhaustive=False)


# ====================================================================== D. LLC: decode -> dispatch -> collect
def hdr(d, t, s):
    return bytes([(d << 2) | (t >> 2), ((t & 3) << 6) | s])


def agf(items, fix_len=True):
    b = b"\x00\x80"
    for p in items:
        b += struct.pack(">H", len(p)) + p
    return b


SPECIAL = [b"\x00", b"\x7f", b"\x80", b"\xff", b"\xc3\x28", b"\xe2\x82", b"\xf0\x28\x8c\xbc", b"\xed\xa0\x80", b"\xc0\xaf",
           b"urn:nfc:sn:\xff", b"urn:nfc:sn:sn\x00ep", bytes(range(0x78, 0x88)), b"%s{0}\n\r", b"\xfe\xff\x00h"]


def octet_values(thorough):
    if thorough:
        return list(range(256))
    return sorted(set(list(range(0, 0x21)) + list(range(0x7d, 0x83)) + list(range(0xbf, 0xc4)) + [0xdf, 0xe0, 0xe1, 0xef, 0xf0, 0xf4, 0xf5, 0xf8, 0xfe, 0xff]))


def payload_forms(p):
    """the payload as service data, behind a sequence octet, and as the value of every TLV type"""
    return [p, b"\x00" + p] + [bytes([x, len(p)]) + p for x in range(0, 13)] + [bytes([8, len(p) + 1, 7]) + p, bytes([9, 2, 7]) + p[:1]]


def nasty_pdus(thorough, world=True):
    """PDUs of EVERY type 0..15 carrying every octet class (0x00, 0x7f, 0x80, 0xff, invalid UTF-8 ..) as
    payload / service name / parameter value; yields bare octets (the caller also wraps them in aggregates)"""
    dsaps = {0: (0,), 1: (0,), 2: (0,), 9: (1,), 10: (0,), 4: (1, 33, 4), 3: (36, 43, 16), 12: (36, 37), 6: (35, 36), 7: (35, 38, 36)}
    for t in range(16):
        ds = dsaps.get(t, (36, 33))
        ss = {0: 0, 1: 0, 2: 0, 9: 1, 10: 0}.get(t, 32)
        for p in SPECIAL:
            for f in payload_forms(p):
                for d in (ds if world else ds[:1]):
                    yield hdr(d, t, ss) + f
        for v in octet_values(thorough):
            p = bytes([v])
            for f in (p, bytes([6, 1]) + p, bytes([8, 2, 7]) + p, b"\x00" + p, bytes([6, 3, 0x61]) + p + b"\x62"):
                yield hdr(ds[0], t, ss) + f


def format_oracle(ck, pdu, q, octets, where):
    """formatting a decoded PDU never raises: str()/repr()/format of the PDU and of every aggregated PDU"""
    try:
        str(q)
        repr(q)
        "{0} {0!r}".format(q)
        "%s %r" % (q, q)
        if q.name == "AGF":
            for x in q:
                str(x)
                repr(x)
    except Exception as e:  # noqa
        ck.fail("pdu-format-%s" % exc_name(e), "str() of the PDU decoded from %s raises %s" % (octets.hex()[:80], exc_name(e)),
                {"position": where, "octets": octets.hex(), "pdu_type": q.name})
        return False
    return True


def pdu_tails(rng, t):
    """information fields aimed at the PDU type"""
    if t == 12:
        return [b"", b"\x00", b"\x00abc", b"\x10x", b"\x21" + bytes(128), b"\x00" + bytes(129), b"\xf5z"]
    if t in (13, 14):
        return [b"", b"\x00", b"\x01", b"\x0f", b"\x01\x00"]
    if t == 7:
        return [b"", b"\x00", b"\x02", b"\x00\x00"]
    if t == 8:
        return [b"", bytes(4), b"\x8c\x12\x34\x56", bytes(3), bytes(5)]
    if t in (4, 6):
        return [b"", b"\x02\x02\x00\x10", b"\x05\x01\x02", b"\x06\x0furn:nfc:sn:snep", b"\x06\x03abc", b"\x02\x02\x00", b"\x05\x01", b"\x06\x00", b"\x02\x01\x00"]
    if t == 9:
        return [b"", b"\x08\x02\x01a", b"\x09\x02\x01\x10", b"\x08\x0f\x07urn:nfc:sn:sdp", b"\x08\x00", b"\x09\x01\x00"]
    if t == 3:
        return [b"", b"abc", bytes(128), bytes(129), bytes(249)]
    return [b"", b"\x00", b"\x01\x02\x03\x04", bytes(200)]


def part_llc(cx):
    ck, P, L, rng, V, model = cx.ck, cx.P, cx.L, cx.ck.rng, cx.V, cx.model
    import nfc.llcp.pdu as pdu
    from sims import pdu_ref
    fl = "%d%d" % (V["f39"], V["cc"])
    addrs = sorted(set(L.World.ADDR.values())) + [0, 1, 2, 45, 63]
    ssaps = list(range(64)) if ck.thorough else [0, 1, 32, 33, 40, 41, 50, 63]
    cases = []   # octets
    for d in addrs:
        for t in range(16):
            for s in ssaps:
                cases.append(hdr(d, t, s))
            for s in (32, 41, 1, rng.randrange(64)):
                for tail in pdu_tails(rng, t):
                    cases.append(hdr(d, t, s) + tail)
    # every 1-octet string, the empty string
    cases += [b""] + [bytes([a]) for a in range(256)]
    # aggregates: same SAP several times, nesting, wrong lengths, boundary size
    for d in addrs:
        for _ in range(6 if ck.thorough else 2):
            items = []
            for _ in range(rng.randrange(1, 5)):
                t = rng.randrange(16)
                items.append(hdr(d, t, rng.choice([32, 41, 33])) + rng.choice(pdu_tails(rng, t)))
            cases.append(agf(items))
            cases.append(mutate(rng, agf(items), (2, 3)))
    # every PDU type with every octet class as payload / name / parameter value, bare and aggregated
    for b in nasty_pdus(ck.thorough):
        cases.append(b)
        if b[:2] != b"\x00\x80":
            cases.append(agf([b]))
            if rng.random() < 0.15:
                cases.append(agf([b"\x00\x00", b, hdr(36, 13, 32) + b"\x00"]))
    # one aggregate carrying a PDU of EVERY type 0..15, each with the same octet class as payload / name / parameter value:
    # dispatch formats every aggregated PDU eagerly (log.debug("     " + str(p))) before it looks at the type
    for p in SPECIAL + [bytes([v]) for v in (0, 0x7f, 0x80, 0xc3, 0xff)]:
        for k, f in enumerate(payload_forms(p)):
            items = []
            for t in range(16):
                if t == 2:
                    continue        # an aggregate inside an aggregate is refused as a whole
                b = hdr({0: 0, 1: 0, 9: 1, 10: 0, 4: 1}.get(t, 36), t, {0: 0, 1: 0, 9: 1, 10: 0}.get(t, 32)) + f
                try:
                    pdu.decode(b)
                    items.append(b)
                except Exception:  # noqa - judged where the octets are injected on their own
                    pass
            cases.append(agf(items))
            if k % 4 == 0 and len(items) > 2:
                cases.append(agf(items[::-1]))
                cases.append(agf([items[-1], items[1], items[-1], items[2], items[0]]))
    # formatting sweep without a controller: all 256 octet values in every position, all types
    nfmt = 0
    for b in nasty_pdus(True, world=False):
        for o in (b, agf([b])):
            try:
                q = pdu.decode(o)
            except pdu.DecodeError:
                continue
            except Exception as e:  # noqa
                ck.fail("pdu-decode-%s" % exc_name(e), "pdu.decode(%s) raised %s" % (o.hex()[:80], exc_name(e)), {"position": "pdu.decode", "octets": o.hex()})
                continue
            nfmt += 1
            format_oracle(ck, pdu, q, o, "str(pdu) after pdu.decode")
            ck.case(("fmt", o), True, "pdu-format:" + q.name)
    ck.notes.append("formatting oracle: str/repr/format of %d decoded PDUs of all types with every octet value in payload, service name and "
                    "parameter positions, bare and aggregated" % nfmt)
    cases.append(agf([agf([hdr(36, 3, 32)])]))
    nest = hdr(36, 3, 32)
    for _ in range(520):
        nest = agf([nest])
    cases.append(nest[-2190:])
    cases.append(nest)
    cases.append(agf([hdr(36, 3, 32)] * 400))
    cases.append(b"\x00\x80" + b"\xff\xff" + bytes(100))
    for _ in range(4000 if ck.thorough else 600):
        cases.append(rb(rng, rng.choice([2, 3, 4, 5, 8, 30])) if rng.random() < 0.5 else
                     mutate(rng, hdr(rng.choice(addrs), rng.randrange(16), rng.choice([32, 41])) + rng.choice(pdu_tails(rng, rng.randrange(16)))))
    lines, reals, replays = [], [], []
    dec_lines, dec_reals = [], []
    state = {}

    def run_all():
        for b in cases:
            w = L.World()
            try:
                # ---- decoder: result and exception class, model vs code
                try:
                    q = pdu.decode(b)
                    format_oracle(ck, pdu, q, b, "str(pdu) after pdu.decode")
                    dreal = "ok " + pdu_ref.text(pdu_ref.from_obj(pdu, q))
                    dst = q.dsap if q.name != "AGF" else (q.first.dsap if q.count else 0)
                    same = q.name != "AGF" or all(x.dsap == dst for x in q)
                except Exception as e:  # noqa
                    dreal, dst, same = "exc " + exc_name(e), None, False
                    if exc_name(e) != "DecodeError":
                        ck.fail("pdu-decode-%s" % exc_name(e), "pdu.decode(%s) raised %s" % (b.hex()[:80], exc_name(e)),
                                {"position": "pdu.decode", "octets": b.hex()})
                dec_lines.append("pdu " + hx(b))
                dec_reals.append(dreal)
                # ---- dispatch on the live controller
                sap = w.llc.sap[dst] if dst is not None else None
                spec = None
                if same and sap is not None and isinstance(sap, L.llcmod.ServiceAccessPoint) and sap.sock_list:
                    socks = list(sap.sock_list)
                    name = b"urn:nfc:sn:snep" if dst == 4 else None
                    spec = "sap %s %d %s %s %s" % (fl, dst, hx(name) if name else "-", ",".join(L.sock_spec(s) for s in socks), hx(b))
                    snap = {}

                    def obs():
                        snap["r"] = "ok %s send=%s sdp=%s:%d" % (",".join(L.sock_after(s) for s in socks), L.canon_list(sap.send_list),
                                                                 L.canon_list(w.llc.sap[1].dmpdu), len(w.llc.sap[1].sdres))
                    w.after_dispatch = obs
                try:
                    r = w.inject(b)
                    bad = w.drain_users()
                    for exc, where, msg in P.PROBE.take():
                        ck.fail("log-format-%s" % exc, "dispatch of %s: the log record of %s (%r) cannot be formatted: %s" % (b.hex()[:60], where, msg, exc),
                                {"position": "formatting of a log record during dispatch", "octets": b.hex(), "where": where})
                    for name, exc in w.format_all():
                        ck.fail("llc-format-%s" % exc, "after dispatch of %s str(%s) raises %s" % (b.hex()[:60], name, exc),
                                {"position": "str() of controller/socket/queued PDU", "octets": b.hex(), "object": name})
                    real = snap.get("r") if spec else None
                except L.Hang:
                    r, bad, real = "hang", [], "hang"
                except L.Budget:
                    r, bad, real = "budget", [], "budget"
                except Exception as e:  # noqa
                    r, bad, real = "exc " + exc_name(e), [], "exc " + exc_name(e)
                replay = {"position": "llc: pdu.decode -> dispatch -> collect", "octets": b.hex() if len(b) < 400 else b[:40].hex() + "...(%d octets)" % len(b),
                          "sap": dst, "sockets": spec.split(" ")[4] if spec else None}
                if r == "hang":
                    ck.fail("llc-linkloop-hang", "dispatch(%s) makes the link loop wait for ever (socket %s)" % (b.hex()[:40], replay["sockets"]), replay)
                elif r not in ("dispatched", "decode-error"):
                    ck.fail("llc-dispatch-%s" % r.replace("exc ", ""), "dispatch/collect of %s: %s" % (b.hex()[:60], r), replay)
                for name, call, exc in bad:
                    ck.fail("llc-socket-%s-%s" % (call, exc), "after dispatch of %s the application's %s() on socket '%s' raises %s"
                            % (b.hex()[:60], call, name, exc), replay)
                ck.case(("llc", b), len(b) >= 2, "llc:" + ("agf" if b[:2] == b"\x00\x80" else r),
                        sample=dict(replay, impl=real or r) if rng.random() < 0.0005 else None)
                if spec and real is not None and r in ("dispatched", "hang"):
                    lines.append(spec)
                    reals.append(real)
                    replays.append(replay)
            finally:
                w.close()
        state["done"] = True
    g = L.guarded(run_all, 600 if ck.thorough else 200)
    if g[0] != "ok":
        if g[0] == "exc":
            raise g[1]
        ck.fail("llc-dispatch-hard-timeout", "the dispatch exploration did not finish (%s) after %d cases" % (g[0], len(dec_lines)),
                {"position": "llc dispatch", "last_octets": cases[min(len(dec_lines), len(cases) - 1)].hex()[:200]})
    replies = model.ask_many(dec_lines)
    dis = 0
    for line, real, rep in zip(dec_lines, dec_reals, replies):
        if rep != real:
            dis += 1
            ck.fail("tie:pdu-decode", "model %r, implementation %r" % (rep[:200], real[:200]), {"request": line[:600]})
    ck.tie("Pdu.Impl.decode vs pdu.decode on the injected octets", cases=len(dec_lines), disagreements=dis, exhaustive=False)
    replies = model.ask_many(lines)
    dis = 0
    for line, real, rep, replay in zip(lines, reals, replies, replays):
        if rep != real:
            dis += 1
            ck.fail("tie:llc-dispatch-reaction", "model %r, implementation %r" % (rep, real), dict(replay, request=line[:600]))
    ck.tie("dispatch/sapEnqueue/sockEnqueue reaction vs live LogicalLinkController (every socket kind and state)",
           cases=len(lines), disagreements=dis, exhaustive=False)
    ck.notes.append("dispatch: every (DSAP of the %d-socket world, PTYPE 0..15, SSAP %s) header with type-aware tails; all 1-octet strings; "
                    "aggregates incl. 520-fold nesting and 400 elements" % (len(L.World.ADDR), "0..63" if ck.thorough else "of 8 classes"))


# ====================================================================== E. application calls in progress
def part_user(cx):
    ck, L, rng = cx.ck, cx.L, cx.ck.rng
    import nfc.llcp

    def pool(me, peer):
        out = []
        for t in range(16):
            for tail in pdu_tails(rng, t)[:4]:
                out.append(hdr(me, t, peer) + tail)
        return out

    def conn(w):
        s = w.llc.socket(2)
        w.llc.bind(s, 50)
        w.socks["new"] = s
        w.llc.connect(s, 40)
        return str(s.state)

    def acc(w):
        c = w.llc.accept(w.socks["listen"])
        w.socks["acc"] = c
        return str(c.state)

    def rcv(w):
        return w.llc.recv(w.socks["estab"])

    def cls(w):
        return w.llc.close(w.socks["estab"])

    def snd(w):
        s = w.socks["estab"]
        s.send_win = 1
        w.llc.send(s, b"x", 0)
        return w.llc.send(s, b"y", 0)

    def res(w):
        return w.llc.resolve(b"urn:nfc:sn:x")

    def rfrom(w):
        return w.llc.recvfrom(w.socks["ldl"])

    ops = [("connect", conn, 50, 40), ("accept", acc, 33, 60), ("recv", rcv, 36, 32), ("close", cls, 36, 32), ("send", snd, 36, 32),
           ("resolve", res, 1, 1), ("recvfrom", rfrom, 43, 32)]
    n = 0

    def run_all():
        nonlocal n
        for name, fn, me, peer in ops:
            pl = pool(me, peer)
            scripts = [[p] for p in pl] + [[]]
            for t in (3, 4, 6, 7, 9, 11, 12):
                for pay in SPECIAL[:9]:
                    for f in (pay, bytes([6, len(pay)]) + pay, b"\x00" + pay):
                        b = hdr(1 if t == 9 else me, t, 1 if t == 9 else peer) + f
                        scripts.append([b])
                        scripts.append([agf([b])])
            # every ordered pair of PDU types in one aggregate and in two consecutive frames
            rep = [hdr(me, t, peer) + pdu_tails(rng, t)[1 if t in (7, 8, 12, 13, 14) else 0] for t in (3, 4, 5, 6, 7, 8, 12, 13)]
            for a in rep:
                for b in rep:
                    scripts.append([agf([a, b])])
                    scripts.append([a, b])
            for _ in range(300 if ck.thorough else 60):
                k = rng.randrange(1, 4)
                items = [rng.choice(pl) for _ in range(k)]
                scripts.append([agf(items)] if rng.random() < 0.5 else items)
            for script in scripts:
                w = L.World()
                replay = {"position": "application call %s() in progress" % name, "frames": [s.hex() for s in script]}
                try:
                    try:
                        w.user(lambda: fn(w), script)
                        out = "ok"
                    except nfc.llcp.Error as e:
                        out = "llcp.Error"
                    except L.Hang as e:
                        out = "hang"
                        ck.fail("llc-%s-hang" % name, "%s() with peer frames %s: %s" % (name, replay["frames"], e), replay)
                    except L.Budget as e:
                        out = "budget"
                        ck.fail("llc-%s-endless" % name, str(e), replay)
                    except Exception as e:  # noqa
                        out = exc_name(e)
                        ck.fail("llc-%s-%s" % (name, out), "%s() raised %s" % (name, out), replay)
                    try:
                        bad = w.drain_users()
                    except (L.Hang, L.Budget) as e:
                        bad = [("?", "recv", type(e).__name__)]
                    for sock, call, exc in bad:
                        ck.fail("llc-socket-%s-%s" % (call, exc), "after %s() with peer frames %s the next %s() on socket '%s' raises %s"
                                % (name, replay["frames"], call, sock, exc), replay)
                    ck.case(("user", name, tuple(script)), bool(script), "user:%s:%s" % (name, out))
                    n += 1
                finally:
                    w.close()
    g = L.guarded(run_all, 300)
    if g[0] != "ok":
        if g[0] == "exc":
            raise g[1]
        ck.fail("llc-user-hard-timeout", "application-call exploration did not finish (%s)" % g[0], {"position": "application calls"})


# ====================================================================== F. run loops, connect(), exception flow
class Boom(Exception):
    pass


def part_flow(cx):
    ck, P, L, rng, V, model = cx.ck, cx.P, cx.L, cx.ck.rng, cx.V, cx.model
    import errno
    import nfc.clf
    import nfc.llcp
    import nfc.llcp.pdu as pdu
    SYMM = b"\x00\x00"
    GB = b"Ffm\x01\x01\x11\x04\x01\x0a"

    def excs():
        return [("IndexError", IndexError("x")), ("ValueError", ValueError("x")), ("TypeError", TypeError("x")),
                ("struct.error", struct.error("x")), ("KeyError", KeyError("x")), ("AttributeError", AttributeError("x")),
                ("RuntimeError", RuntimeError("x")), ("DecodeError", pdu.DecodeError("x")), ("EncodeError", pdu.EncodeError("x")),
                ("TimeoutError", nfc.clf.TimeoutError("x")), ("TransmissionError", nfc.clf.TransmissionError("x")),
                ("ProtocolError", nfc.clf.ProtocolError("x")), ("BrokenLinkError", nfc.clf.BrokenLinkError("x")),
                ("UnsupportedTargetError", nfc.clf.UnsupportedTargetError("x")), ("CommunicationError", nfc.clf.CommunicationError("x")),
                ("IOError(5)", IOError(errno.EIO, "x")), ("llcp.Error(32)", nfc.llcp.Error(errno.EPIPE))]
    lines, reals = [], []
    term_in_finally = False

    def show(r, c):
        return ("returns" if r == "ok" else "raises " + r[4:]) + (" terminated" if c.link.SHUTDOWN else " not-terminated")

    def run_all():
        nonlocal term_in_finally
        # ---- the handler table: every exception class raised at every site of the real code
        for name, e in excs():
            for ini in (1, 0):
                r, c, mac = L.run_loop(ini, [SYMM, e], with_sockets=False)
                real_run = show(r, c)
                lines.append(("flow x %s" % name, "run"))
                reals.append(real_run)
                # dispatch raising
                c2 = None
                orig = L.llcmod.LogicalLinkController.dispatch

                def boom(self, p, e=e):
                    raise e
                L.llcmod.LogicalLinkController.dispatch = boom
                try:
                    r, c2, mac = L.run_loop(ini, [SYMM, SYMM], with_sockets=False)
                finally:
                    L.llcmod.LogicalLinkController.dispatch = orig
                lines.append(("flow d %s" % name, "run"))
                reals.append(show(r, c2))
        # ---- the run loops with the peer's octets: every ending is terminate() + normal return
        pool = [SYMM, b"\x01\x40", b"", b"\x00", b"\x90\xe0", b"\x84\xfc", agf([b"\x90\xe0", b"\x93\x20\x00ab"]), b"\x00\x80\x00\x09\x00", "T", "X", "P", "B", "N",
                hdr(36, 12, 32) + b"\x00data", hdr(36, 5, 32), hdr(33, 4, 60), hdr(1, 4, 60) + b"\x06\x0furn:nfc:sn:snep", hdr(1, 9, 1) + b"\x08\x03\x01ab",
                b"\x05\x20", b"\x00\x40\x01\x01"]
        nasty = [b for b in nasty_pdus(False, world=False)]
        pool = pool + [agf([x]) for x in rng.sample(nasty, 40)] + rng.sample(nasty, 20)
        # every PDU type with a non-ascii / invalid UTF-8 payload, bare and aggregated, as the one frame of a run
        singles = []
        for t in range(16):
            for pay in (b"\xff", b"\xc3\x28", b"\x00"):
                for f in (pay, bytes([6, len(pay)]) + pay, bytes([8, len(pay) + 1, 7]) + pay, bytes([10, len(pay)]) + pay):
                    d, s_ = {0: (0, 0), 1: (0, 0), 2: (0, 0), 9: (1, 1), 10: (0, 0), 4: (1, 32)}.get(t, (36, 32))
                    singles.append(hdr(d, t, s_) + f)
        for b in singles:
            for script in ([SYMM, b, SYMM], [SYMM, agf([b]), SYMM]):
                for ini in (True, False):
                    r, c, mac = L.run_loop(ini, script, with_sockets=True, terminate_after=4)
                    replay = {"position": "llc.run_as_%s" % ("initiator" if ini else "target"), "llc_octets_per_exchange": [x.hex() for x in script]}
                    if r == "hang":
                        ck.fail("llc-linkloop-hang", "run loop blocked for ever", replay)
                    elif r != "ok":
                        ck.fail("llc-run-%s" % r.replace("exc ", ""), "run loop ended with %s" % r, replay)
                    elif not (c.link.SHUTDOWN and mac.deactivated == 1 and not any(c.sap)):
                        ck.fail("llc-run-not-terminated", "run loop returned but link=%s" % c.link, replay)
                    ck.case(("run1", ini, tuple(script)), True, "run-loop-octet-classes:" + r)
        for i in range(600 if ck.thorough else 120):
            ini = rng.random() < 0.5
            script = [rng.choice(pool) if rng.random() < 0.8 else rb(rng, rng.randrange(0, 6)) for _ in range(rng.randrange(0, 8))]
            ta = rng.choice([None, None, 3])
            r, c, mac = L.run_loop(ini, script, with_sockets=True, terminate_after=ta)
            replay = {"position": "llc.run_as_%s" % ("initiator" if ini else "target"), "llc_octets_per_exchange": [x if isinstance(x, str) else x.hex() for x in script],
                      "terminate_after": ta}
            ok = r == "ok" and c.link.SHUTDOWN and mac.deactivated == 1 and not any(c.sap)
            if r == "hang":
                ck.fail("llc-linkloop-hang", "run loop blocked for ever", replay)
            elif r != "ok":
                ck.fail("llc-run-%s" % r.replace("exc ", ""), "run loop ended with %s" % r, replay)
            elif not ok:
                ck.fail("llc-run-not-terminated", "run loop returned but link=%s deactivated=%d open saps=%d" % (c.link, mac.deactivated, sum(1 for s in c.sap if s)), replay)
            ck.case(("run", ini, tuple(map(str, script)), ta), bool(script), "run-loop:" + r)
        # ---- connect(llcp=..) on a scripted device
        ATR_RES = bytes([0xD5, 1]) + bytes(10) + bytes([0, 0, 0, 8, 0x32]) + GB
        ATR_REQ = bytes([0xD4, 0]) + bytes(10) + bytes([0, 0, 0, 0x32]) + GB

        def dep(brty, req, pni, data):
            return fr(brty, bytes([0xD4 if req else 0xD5, 6 if req else 7, pni & 3]) + data)
        llc_pool = [SYMM, SYMM, b"\x01\x40", b"\x90\xe0", b"\x00", hdr(33, 4, 60), hdr(36, 12, 32) + b"\x00d", agf([SYMM, hdr(4, 4, 33)])]
        llc_pool = llc_pool + [agf([x]) for x in rng.sample(nasty, 12)] + rng.sample(nasty, 6) + [agf([hdr(1, 4, 32) + b"\x06\x01\xff"]), hdr(1, 4, 32) + b"\x06\x01\xff"]
        for i in range(500 if ck.thorough else 100):
            brty = rng.choice(["106A", "212F"])
            mode = rng.choice(["i-passive", "i-passive", "i-active", "t", "t"])
            req = mode == "t"
            gb = GB if rng.random() < 0.6 else mutate(rng, GB + b"\x02\x02\x00\x80", (4, 7, 10)) if rng.random() < 0.7 else GB + b"\x02\x02\x07"
            atr = (ATR_REQ if req else ATR_RES)[:-len(GB)] + gb
            if rng.random() < 0.2:
                atr = mutate(rng, atr)
                if mode != "i-passive":      # delivered by the driver, which recognises the PDU by its code octets
                    atr = (b"\xD4\x00" if req else b"\xD5\x01") + atr[2:]
            frames = []
            if mode == "i-passive":
                frames.append(fr(brty, atr))
            pni = 1 if req else 0
            for _ in range(rng.randrange(0, 6)):
                x = rng.random()
                if x < 0.6:
                    frames.append(dep(brty, req, pni, rng.choice(llc_pool)))
                    pni += 1
                elif x < 0.8:
                    frames.append(mutate(rng, dep(brty, req, pni, rng.choice(llc_pool)), (1,) if brty == "106A" else (0,)))
                elif x < 0.9:
                    frames.append(rng.choice(["T", "X", "B"]))
                else:
                    frames.append(fr(brty, bytes([0xD4 if req else 0xD5, rng.choice([7, 6, 8, 9, 0, 1, 4, 5, 10, 11]), 0x90]) + rb(rng, rng.randrange(0, 2))))
            first = bytes([0xD4, 6, 0]) + SYMM if rng.random() < 0.8 else rng.choice([bytes([0xD4, 6, 0]), bytes([0xD4, 6, 0x90]), bytes([0xD4, 0, 0]), bytes([0xD4, 8]), b"\xD4"])
            dev = L.ScriptDevice(mode, frames, atr=atr, first=first, brty=brty)
            opts = {"role": "target" if req else "initiator", "brs": 0 if brty == "106A" else 1}
            out, clf = L.connect(dev, dict(llcp=opts))
            replay = {"position": "ContactlessFrontend.connect(llcp=%s)" % opts["role"], "mode": mode, "brty": brty,
                      "atr": atr.hex(), "first_dep_req": first.hex() if req else None, "frames": [x if isinstance(x, str) else x.hex() for x in frames]}
            if out == "hang":
                ck.fail("llc-linkloop-hang", "connect(llcp) blocked for ever", replay)
            elif not out.startswith("ok"):
                ck.fail("connect-llcp-%s" % out.replace("exc ", ""), "connect(llcp=..) ended with %s" % out, replay)
            ck.case(("connect", mode, brty, atr, tuple(map(str, frames))), True, "connect-llcp:" + out, sample=dict(replay, impl=out) if i < 1 else None)
        # ---- activation raising inside connect(): table site a
        for name, e in excs():
            orig = L.llcmod.LogicalLinkController.activate

            def boom(self, mac, e=e, **kw):
                raise e
            L.llcmod.LogicalLinkController.activate = boom
            try:
                out, clf = L.connect(L.ScriptDevice("none", []), dict(llcp={"role": "initiator"}))
            finally:
                L.llcmod.LogicalLinkController.activate = orig
            lines.append(("flow a %s" % name, "connect"))
            reals.append(("returns" if out.startswith("ok") else "raises " + out[4:]) + " not-terminated")
    g = L.guarded(run_all, 400)
    if g[0] != "ok":
        if g[0] == "exc":
            raise g[1]
        ck.fail("flow-hard-timeout", "run loop / connect exploration did not finish (%s)" % g[0], {"position": "run loop / connect"})
    replies = model.ask_many([l[0] for l in lines])
    dis = 0
    for (line, field), real, rep in zip(lines, reals, replies):
        got = dict(kv.split("=", 1) for kv in rep.replace(" terminated", "_terminated").replace(" not-terminated", "_not-terminated").replace("raises ", "raises_").split(" "))
        m = got.get(field, "?").replace("_", " ")
        ck.case((line, real), True, "flow-table")
        if m != real:
            # fixes/C09/0007 (terminate in `finally`) changes only the terminated flag of unhandled exceptions
            if m.replace(" not-terminated", " terminated") == real and real.startswith("raises"):
                cx.c09_finally = True
                continue
            dis += 1
            ck.fail("tie:exception-flow-table", "model %r, implementation %r" % (m, real), {"request": line})
    ck.tie("handler tables (llc.exchange, run loops, connect) vs the real handlers, every exception class at every site",
           cases=len(lines), disagreements=dis, exhaustive=True)
    if getattr(cx, "c09_finally", False):
        ck.notes.append("the tree terminates the link in the run loop's `finally` (fixes/C09/0007): unhandled exceptions also reach terminate()")


# ====================================================================== G. emulated Type 3 Tag
def part_t3(cx):
    ck, P, L, rng, V, model = cx.ck, cx.P, cx.L, cx.ck.rng, cx.V, cx.model
    from sims.t34_sims import EmuLink, IDM, PMM
    ids = hx(IDM + PMM + b"\x12\xFC")
    cmds = [b""] + [bytes([a]) for a in range(256)]
    for a in range(0, 12):
        for b in (0, 4, 6, 8, 0x0A, 0x0C, 255):
            cmds.append(bytes([a, b]))
            cmds.append(bytes([a, b]) + IDM[:max(0, a - 2)])
    for tail in (b"", b"\x00", b"\x00\x00", b"\x01\x00", b"\x00\x00\x00"):
        for sc in (b"\xff\xff", b"\x12\xfc", b"\x12\xfd"):
            c = b"\x00" + sc + tail
            cmds.append(bytes([len(c) + 1]) + c)
    base = []
    for code in (6, 8):
        for nsvc, svcs in ((1, b"\x09\x00"), (1, b"\x0b\x00"), (2, b"\x09\x00\x0b\x00"), (1, b"\x0f\x00"), (0, b""), (16, b"\x09\x00" * 16)):
            for nblk in (0, 1, 2, 15, 16):
                bl = b"".join(bytes([0x80 | rng.randrange(0, 2), rng.randrange(0, 6)]) if rng.random() < 0.7 else bytes([rng.randrange(0, 2), rng.randrange(6), 0])
                              for _ in range(nblk))
                data = bytes(16 * nblk) if code == 8 else b""
                body = IDM + bytes([nsvc]) + svcs + bytes([nblk]) + bl + data
                if len(body) + 2 < 256:
                    base.append(bytes([len(body) + 2, code]) + body)
    cmds += base
    for c in base:
        for k in range(10, len(c), 1 if ck.thorough else 3):
            t = bytearray(c[:k])
            t[0] = len(t)
            cmds.append(bytes(t))         # truncated, length octet consistent
        for _ in range(4):
            m = bytearray(mutate(rng, c, (0, 10, 13)))
            if m and rng.random() < 0.7:
                m[0] = len(m) & 255
            cmds.append(bytes(m))
    for _ in range(3000 if ck.thorough else 400):
        n = rng.randrange(1, 40)
        c = bytearray(rb(rng, n))
        c[0] = n
        if rng.random() < 0.7 and n >= 10:
            c[2:10] = IDM
            c[1] = rng.choice([4, 6, 8, 0x0C])
        cmds.append(bytes(c))
    lines, reals = [], []
    for c in cmds:
        store = bytes(rng.randrange(256) for _ in range(16 * rng.choice([1, 4, 6])))
        link = EmuLink(store)
        real, unchanged = P.t3_command(link, c)
        ck.case(("t3", c, store), len(c) > 0, "t3-command:" + " ".join(real.split()[:2])[:20],
                sample={"position": "Type3TagEmulation.process_command", "cmd": c.hex(), "impl": real[:120]} if rng.random() < 0.001 else None)
        if real.startswith("exc") and real != "exc TypeError":
            ck.fail("t3emu-command-%s" % real[4:], "process_command(%s) raised %s" % (c.hex(), real[4:]),
                    {"position": "Type3TagEmulation.process_command", "command": c.hex()})
        if real == "exc TypeError" and not (len(c) > 1 and c[1] == 8):
            ck.fail("t3emu-command-TypeError", "process_command(%s) raised TypeError outside the write callback" % c.hex(),
                    {"position": "Type3TagEmulation.process_command", "command": c.hex()})
        lines.append("t3 %d %s %s %s" % (V["t3"], ids, hx(store), hx(c)))
        reals.append(real)
    replies = model.ask_many(lines)
    dis = 0
    for line, real, rep in zip(lines, reals, replies):
        if rep != real:
            dis += 1
            ck.fail("tie:t3emu-process-command", "model %r, implementation %r" % (rep[:100], real[:100]), {"request": line[:400]})
    ck.tie("processCommandR vs Type3TagEmulation.process_command", cases=len(lines), disagreements=dis, exhaustive=False)

    # ---- through connect(card=..): commands arrive from the scripted device
    def startup(t):
        t.brty = "212F"
        t.sensf_res = bytearray(b"\x01" + IDM + PMM + b"\x12\xFC")
        return t

    def on_connect(tag):
        tag.add_service(9, lambda bn, rb_, re: bytearray(16) if bn < 4 else None, lambda bn, d, wb, we: bn < 4)
        return True

    def run_all():
        pool = [c for c in cmds if 0 < len(c) < 60]
        for i in range(400 if ck.thorough else 80):
            first = rng.choice(pool)[1:] if rng.random() < 0.8 else rb(rng, rng.randrange(0, 5))
            frames = [rng.choice(pool) if rng.random() < 0.85 else rng.choice(["T", "X", b""]) for _ in range(rng.randrange(0, 6))]
            dev = L.ScriptDevice("card", frames, tt3_cmd=first)
            out, clf = L.connect(dev, dict(card={"on-startup": startup, "on-connect": on_connect}))
            replay = {"position": "ContactlessFrontend.connect(card=..)", "first_command_without_length": first.hex(),
                      "commands": [x if isinstance(x, str) else x.hex() for x in frames]}
            if not out.startswith("ok"):
                ck.fail("connect-card-%s" % out.replace("exc ", ""), "connect(card=..) ended with %s" % out, replay)
            ck.case(("card", first, tuple(map(str, frames))), True, "connect-card:" + out)
    g = L.guarded(run_all, 200)
    if g[0] != "ok":
        if g[0] == "exc":
            raise g[1]
        ck.fail("card-hard-timeout", "connect(card) exploration did not finish (%s)" % g[0], {"position": "connect(card)"})
    # table sites c / s
    lines2 = ["flow c IndexError", "flow c ProtocolError", "flow s TimeoutError", "flow s BrokenLinkError", "flow s IndexError"]
    cx.card_flow = model.ask_many(lines2)


# ====================================================================== H. SNEP / handover
def part_snep(cx):
    ck, P, rng = cx.ck, cx.P, cx.ck.rng
    import ndef
    good = b"".join(ndef.message_encoder([ndef.TextRecord("hello"), ndef.UriRecord("http://a.b")]))
    hr = b"".join(ndef.message_encoder([ndef.HandoverRequestRecord("1.2", 1234)]))
    n = 6000 if ck.thorough else 900
    for i in range(n):
        k = rng.randrange(5)
        if k == 0:
            frags = [rb(rng, rng.randrange(0, 12)) for _ in range(rng.randrange(1, 4))]
        elif k == 1:
            body = mutate(rng, good) if rng.random() < .7 else good
            h = struct.pack(">BBL", rng.choice([0x10, 0x10, 0x20, 0x11, 0]), rng.choice([1, 2, 2, 3, 0x81]),
                            rng.choice([len(body), len(body) + 1, max(0, len(body) - 1), 0, 2000, 0xffffffff]))
            if h[1] == 1:
                body = struct.pack(">L", rng.choice([0, 10, 1000])) + body
            m = h + body
            cut = rng.randrange(1, len(m) + 1)
            frags = [m[:cut]] + ([m[cut:]] if cut < len(m) else [])
            if rng.random() < .3:
                frags = [mutate(rng, f) for f in frags]
        elif k == 2:
            frags = [mutate(rng, struct.pack(">BBL", 0x10, 2, len(good)) + good)]
        elif k == 3:
            # every octet of the record header replaced once in a while: type length, flags, non-ascii type
            g2 = bytearray(good)
            g2[rng.randrange(0, 4)] = rng.choice([0x80, 0xd5, 0xff, 0, 0x11, 0x1f])
            frags = [struct.pack(">BBL", 0x10, 2, len(g2)) + bytes(g2)]
        else:
            frags = [struct.pack(">BBL", 0x10, 2, len(good)) + good] * 2
        miu = rng.choice([128, 6, 1, 2175])
        r, s = P.snep_server(frags, miu)
        if not r.startswith("ok"):
            ck.fail("snep-server-thread-%s" % r[4:], "SnepServer._serve ended with %s: the serving thread dies" % r[4:],
                    {"position": "snep server", "fragments": [f.hex() for f in frags], "send_miu": miu})
        ck.case(("snep-s", tuple(frags), miu), True, "snep-server:" + r.split()[0])
        if k == 0:
            hf = frags
        else:
            m = mutate(rng, hr) if rng.random() < .8 else hr
            if k == 3:
                m2 = bytearray(hr)
                m2[rng.randrange(0, 5)] = rng.choice([0x80, 0xd2, 0xd5, 0xff, 0, 0x12])
                m = bytes(m2)
            cut = rng.randrange(1, len(m) + 1) if m else 0
            hf = [m[:cut]] + ([m[cut:]] if cut < len(m) else [])
        r, s = P.handover_server(hf, rng.choice([128, 6, 1]))
        if not r.startswith("ok"):
            ck.fail("handover-server-thread-%s" % r[4:], "HandoverServer.serve ended with %s: the serving thread dies" % r[4:],
                    {"position": "handover server", "fragments": [f.hex() for f in hf]})
        ck.case(("ho-s", tuple(hf)), True, "handover-server:" + r.split()[0])
        rs = struct.pack(">BBL", rng.choice([0x10, 0x20, 0]), rng.choice([0x81, 0x81, 0x80, 0xC0, 0xE1, 0]),
                         rng.choice([len(good), len(good) + 3, 0, 5000, 0xffffffff])) + good
        cf = [mutate(rng, rs)] if rng.random() < .5 else [rs[:rng.randrange(len(rs) + 1)], rb(rng, rng.randrange(0, 9))]
        for op in ("get", "put"):
            r, s = P.snep_client(cf, op)
            if r.startswith("exc") and r[4:] != "SnepError":
                ck.fail("snep-client-%s" % r[4:], "SnepClient.%s_octets raised %s" % (op, r[4:]),
                        {"position": "snep client", "operation": op, "fragments": [f.hex() for f in cf]})
            ck.case(("snep-c", op, tuple(cf)), True, "snep-client:" + (r if r.startswith("exc") else "ok"))


# ====================================================================== main
def run(ck):
    ck.tables("TablesPdu")   # T-tie for constants: source tables re-extracted, bridge theorems re-proved
    from sims import peer_inject as P
    from sims import peer_llc as L
    ck.rule = ("a case = one octet string (or script of octet strings) injected at one protocol position of the real code: "
               "decode_frame, Initiator/Target activation/exchange/deactivation, llc.activate, pdu.decode->dispatch->collect on a live "
               "controller with 14 sockets, an application call in progress, run loop, connect(llcp/card), process_command, SNEP/handover "
               "serve loops; non-trivial = at least one octet from the peer; distinct by hash of (position, parameters, octets)")
    ck.assumptions += [
        "the driver hands complete frames to nfc.dep / the tag emulation (device double at the send_cmd_recv_rsp/send_rsp_recv_cmd/"
        "listen_dep/sense_* boundary); driver internals are C13/C14; an ATR_REQ/ATR_RES reported by listen_dep/sense_dep starts with its "
        "code octets (all drivers select it by D4 00 / build it with D5 01) and listen() checks 16..64 octets",
        "llcp/sec.py is outside (sec=False in all runs); ndef.message_decoder (third party) is exercised, not modelled",
        "\"does not block for ever\" is decided as: no untimed Condition.wait() on the link-loop thread and every loop of the modelled "
        "decoders terminates; thread liveness itself is C09",
        "application callbacks of the tag emulation return (tagtool's services: a write to the read-only service raises its own TypeError; "
        "t3emu_total_any_services: any services whose read callbacks return None or at most 16 octets)",
        "SNEP: decoder / process_get_request / process_put_request / encoder keep the contract AppOk (response codes are octets, only "
        "ndef.DecodeError, ValueError, ndef.EncodeError are raised); send() does not raise EMSGSIZE (MIU >= 128 by LLCP; ties use MIU >= 6)",
        "the models agree with the code outside the compared inputs (the ties are exhaustive only where stated)",
    ]
    ck.trusted += ["hand-written Lean models NfcVerif.Model.PeerDep/PeerPax/PeerDispatch/PeerT3Gen/PeerSnep (+ Pdu, NfcDep, T3Emu, Snep of C11/C04/C01/C06), tied by differential runs",
                   "sims/peer_inject.py GenEmu (services of the emulated tag), _NdefProxy (records what ndef and the application did with each SNEP information field; the model takes it as its App parameter)",
                   "harness/sims/peer_inject.py, peer_llc.py (scripted peer, PeerCondition: an untimed wait on the link loop = hang)",
                   "fixes/C09/0001 (F39) is owned by C09; C07 models its effect"]
    ck.lean("NfcVerif.Props.C07", THEOREMS)
    if ck.thorough:
        ck.leanchecker(["NfcVerif.Props.C07"])
    cx = Ctx()
    cx.ck, cx.P, cx.L = ck, P, L
    seen, orig_fail = {}, ck.fail

    def fail(key, what, replay):
        # at most two witnesses per kind of failure, so that every kind reaches the replay file
        seen[key] = seen.get(key, 0) + 1
        if seen[key] <= 2:
            orig_fail(key, what, replay)
    ck.fail = fail
    cx.seen = seen
    cx.model = Model("drv_c07")
    g = L.guarded(lambda: probe(P, L), 60)
    if g[0] != "ok":
        # the probe only runs witnesses of repaired defects through the real code: whatever goes wrong there is behaviour of the
        # tree under test; go on with the repaired variants so that the ties and oracles locate it
        if g[0] == "exc" and isinstance(g[1], (OSError, MemoryError, Infra)):
            raise g[1]
        orig_fail("c07-probe-unexpected-%s" % (exc_name(g[1]) if g[0] == "exc" else g[0]),
                  "the witnesses of the repaired defects could not be replayed: %r" % (g[1],), {"position": "variant probe", "outcome": g[0]})
        g = ("ok", {k: True for k in ("frame", "atr", "rtox", "gb", "t3", "f39", "cc")})
    cx.V = g[1]
    # afterDeselect: probe separately (needs the frame decoder to accept the follow-up frame)
    ATQ = bytes([0xD4, 0]) + bytes(13) + b"\x32" + b"Ffm\x01\x01\x11"
    try:
        st, _ = P.dep_target("212F", ATQ, bytes([0xD4, 6, 0, 0, 0]), [fr("212F", bytes([0xD4, 8])), fr("212F", bytes([0xD4, 8]))], payloads=[b"\x01"])
        cx.V["desel"] = not any(r == "exc AttributeError" for _, r in st)
    except Exception as e:  # noqa
        orig_fail("c07-probe-unexpected-%s" % exc_name(e), "DSL_REQ twice could not be replayed: %r" % (e,), {"position": "variant probe (after deselect)"})
        cx.V["desel"] = True
    ck.notes.append("repairs present in the tree under test: " + ", ".join("%s=%d" % kv for kv in sorted(cx.V.items())))
    if not all(cx.V.values()):
        ck.notes.append("REGRESSION: repairs missing in the tree: %s - the theorems are about the repaired code; the ties use the as-found "
                        "variant for these and the oracle reports the failing octets" % ", ".join(k for k, v in sorted(cx.V.items()) if not v))
    def log_errors(part):
        for exc, where, msg in P.PROBE.take():
            ck.fail("log-format-%s" % exc, "a log record of %s (%r) cannot be formatted: %s" % (where, msg, exc),
                    {"position": "formatting of a log record during " + part, "where": where, "message": msg})
    from props import c07_more as M

    def guarded_part(part):
        # an exception that escapes a part does not take the other parts down: raised inside nfcpy it is a concrete failing
        # execution of the code under test (seed/tier reproduce it), otherwise the correspondence run of that part is broken
        try:
            part(cx)
        except (KeyboardInterrupt, SystemExit, OSError, MemoryError, Infra):
            raise                   # machinery (model driver, file system), not the code under test
        except Exception as e:  # noqa
            import os
            import traceback
            from common import REPO, VERIF
            tb = traceback.extract_tb(e.__traceback__)
            frames = ["%s:%d %s" % (os.path.relpath(f.filename, REPO) if f.filename.startswith(REPO) else
                                    os.path.relpath(f.filename, VERIF), f.lineno, f.name) for f in tb[-8:]]
            inner = tb[-1].filename if tb else ""
            name = part.__name__.replace("part_", "")
            if inner.startswith(os.path.join(REPO, "src") + os.sep) and exc_name(e) in INTERNAL:
                orig_fail("uncaught-internal-exception-%s" % type(e).__name__,
                          "%s raised inside nfcpy (%s) ended the exploration of %s: %s" % (type(e).__name__, frames[-1], name, e),
                          {"position": part.__name__, "exception": repr(e), "frames": frames})
            else:
                orig_fail("tie:exploration-aborted-%s" % name, "the harness could not complete %s: %s: %s" % (part.__name__, type(e).__name__, e),
                          {"position": part.__name__, "exception": repr(e), "frames": frames})
    try:
        guarded_part(part_dep_decode)
        # from here on with debug logging as an application would have it: every record is formatted
        P.enable_logging()
        for part in (part_dep_protocol, part_gb, part_llc, part_user, part_flow, part_t3, M.part_t3gen, part_snep,
                     M.part_snep_model, M.part_handover):
            guarded_part(part)
            log_errors(part.__name__)
        ck.notes.append("%d log records of the code under test formatted (str()/repr() of PDUs, sockets, targets, frames)" % P.PROBE.records)
    finally:
        P.disable_logging()
        L.uninstall()
    if seen:
        ck.notes.append("failing inputs by kind: " + ", ".join("%s x%d" % kv for kv in sorted(seen.items())))
