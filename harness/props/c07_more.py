"""C07, round 3: entry points driven over their WHOLE command / field space, model-tied.

part_t3gen      Type3TagEmulation.process_command with ANY set of services (sims.peer_inject.GenEmu vs
                Lean PeerT3.processCommandR, driver command `t3g`): every length-consistent command up to a
                small length, polling with every request code / time slot, and the structured space of
                READ/WRITE WITHOUT ENCRYPTION: 0..16 blocks, service lists of 0..16 entries (known, unknown,
                repeated, read-only, sparse, default callbacks), 2- and 3-octet block list elements, and a
                failing element (block beyond the tag, block the service refuses, service list position that
                does not exist, truncated element, write to a read-only service) at EVERY list position, so that
                the status flag / length octet arithmetic is compared for every position; short SENSF_RES.
                The same commands reach connect(card=..) through the scripted device.
part_snep_model the SNEP server: process_snep_request for every request code x every message length 0..12 x
                information field patterns, and _serve on scripted connections (every header length vs
                length field vs payload, versions, oversize, reassembly with early close, pipelined requests,
                fragmented responses with / without Continue) vs Lean PeerSnep.processRequest / serve
                (`snepreq`, `snepsrv`); the client's response path vs PeerSnep.getOctets / putOctets (`snepcli`).
part_handover   handover server and client on scripted connections: all short octet strings, every record
                header octet, mutations and every fragmentation of valid request / select messages.
"""
import struct

from common import hx, exc_name

LE16 = struct.Struct("<H")


# ====================================================================== Type 3 Tag emulation, any services
def t3cmd(code, idm, svcs, elems, data=b"", nsvc=None, nblk=None, cut=None):
    body = idm + bytes([len(svcs) if nsvc is None else nsvc]) + b"".join(LE16.pack(s) for s in svcs)
    body += bytes([len(elems) if nblk is None else nblk]) + b"".join(elems) + data
    c = bytearray(bytes([0, code]) + body)
    if cut is not None:
        del c[cut:]
    c[0] = len(c) & 255
    return bytes(c)


def elem(si, bn, three=False):
    if three or bn > 255:
        return bytes([si & 15, bn & 255, (bn >> 8) & 255])
    return bytes([0x80 | (si & 15), bn])


TABLES = {
    "tagtool": [(0x0009, "rw"), (0x000B, "ro")],
    "one": [(0x0009, "rw")],
    "four": [(0x0009, "rw"), (0x000B, "ro"), (0x1009, "even"), (0x2009, "deflt")],
    "none": [],
}


def t3_structured(ck, rng, idm):
    """READ / WRITE WITHOUT ENCRYPTION over the whole field space -> (table name, store blocks, cmd, bucket)"""
    quick = not ck.thorough
    svc_lists = [[9], [11], [9, 11], [11, 9], [9, 9], [], [0x0F], [9, 0x0F], [0x1009], [0x2009, 9]]
    if not quick:
        svc_lists += [[9] * 16, [9, 11, 0x1009, 0x2009], [11, 11, 9], [0x0F, 9], [9] * 15 + [11]]
    for code in (6, 8):
        maxblk = 16 if code == 6 else 13
        for svcs in svc_lists:
            for nblk in range(0, maxblk + 1):
                kinds = ["beyond", "svcidx", "trunc", "refuse"]
                for failpos in [None] + list(range(nblk)):
                    for kind in (kinds if failpos is not None else ["none"]):
                        if quick and failpos is not None and kind in ("trunc", "refuse") and (failpos + nblk) % 3:
                            continue
                        nstore = 16
                        order = list(range(nstore))
                        rng.shuffle(order)
                        elems = []
                        for i in range(nblk):
                            si = rng.randrange(len(svcs)) if svcs else 0
                            three = rng.random() < 0.3
                            bn = order[i % nstore]
                            if svcs and svcs[si] == 0x1009:
                                bn &= ~1
                            if i == failpos:
                                if kind == "beyond":
                                    bn = rng.choice([nstore, nstore + 1, 255, 256, 0xFFFF]) if not (svcs and svcs[si] == 0x1009) else nstore + 2
                                elif kind == "svcidx":
                                    si = rng.choice([len(svcs), 15]) if len(svcs) < 15 else 15
                                elif kind == "refuse":
                                    # a block the addressed service refuses: read-only service on write, odd block of the sparse service
                                    if 11 in svcs and code == 8:
                                        si = svcs.index(11)
                                    elif 0x1009 in svcs:
                                        si, bn = svcs.index(0x1009), bn | 1
                                    elif 0x2009 in svcs:
                                        si = svcs.index(0x2009)
                                    else:
                                        bn = nstore + i
                            elems.append(elem(si, bn, three))
                        data = b"".join(bytes([0x40 + i]) * 16 for i in range(nblk)) if code == 8 else b""
                        cut = None
                        if kind == "trunc":
                            # the command ends inside element `failpos` (length octet consistent)
                            cut = 2 + len(idm) + 1 + 2 * len(svcs) + 1 + sum(len(e) for e in elems[:failpos]) + rng.randrange(0, len(elems[failpos]))
                        c = t3cmd(code, idm, svcs, elems, data, cut=cut)
                        if len(c) > 255:
                            continue
                        yield "four", nstore, c, "t3g:%s:%s" % ("read" if code == 6 else "write", kind)
    # a reader reading past the end of an n block tag with one command, all four tables
    for name in ("tagtool", "one", "four"):
        for nstore in (1, 4, 8, 9, 10, 14, 15, 16):
            for nblk in range(1, 16):
                for three in (False, True):
                    yield name, nstore, t3cmd(6, idm, [9], [elem(0, i, three) for i in range(nblk)]), "t3g:read:past-end"
                    if nblk <= 13:
                        yield name, nstore, t3cmd(8, idm, [9], [elem(0, i, three) for i in range(nblk)], bytes(16 * nblk)), "t3g:write:past-end"
    # write: data field of every length around the block boundary; block count / service count octets inconsistent
    for nblk in (0, 1, 2, 3):
        for dl in list(range(0, 50)) if not quick else (0, 1, 15, 16, 17, 31, 32, 33, 48):
            yield "tagtool", 4, t3cmd(8, idm, [9], [elem(0, i) for i in range(nblk)], bytes(dl)), "t3g:write:data-length"
    for code in (6, 8):
        for nsvc in list(range(0, 18)) + [255]:
            for nblk in list(range(0, 18)) + [255]:
                if quick and (nsvc + nblk) % 2:
                    continue
                yield "tagtool", 4, t3cmd(code, idm, [9], [elem(0, 1)], bytes(16) if code == 8 else b"", nsvc=nsvc, nblk=nblk), "t3g:count-octets"


def t3_short(ck, rng, idm):
    """every length-consistent command up to a small length, polling, every command code"""
    yield b""
    for a in range(256):
        yield bytes([a])
        yield bytes([2, a])
        for b in (range(256) if ck.thorough else (0, 1, 4, 6, 8, 12, 255)):
            yield bytes([3, a, b])
            yield bytes([a, b])
    # polling: every request code and time slot, system codes around the emulated one
    for sc in (b"\xff\xff", b"\x12\xfc", b"\x12\xfd", b"\xff\xfe", b"\x12\xff", b"\xff\xfc"):
        for rc in range(256):
            for ts in (range(256) if ck.thorough and sc[0] in (0xff, 0x12) and sc[1] in (0xff, 0xfc) else (0, 1, 3, 15, 255)):
                yield bytes([6, 0]) + sc + bytes([rc, ts])
        for n in range(2, 9):
            c = bytearray(bytes([0, 0]) + sc + bytes(n))
            del c[n:]
            c[0] = len(c)
            yield bytes(c)
    # every command code behind the IDm with every body of <= 1 octet (<= 2 for the four known codes when thorough)
    for code in range(256):
        yield bytes([10, code]) + idm
        for x in range(256):
            yield bytes([11, code]) + idm + bytes([x])
    for code in (4, 6, 8, 12):
        for x in range(256):
            for y in (range(256) if ck.thorough else (0, 1, 9, 0x0b, 0x80, 255)):
                yield bytes([12, code]) + idm + bytes([x, y])
    # one service, every block count octet and first element octet
    for code in (6, 8):
        for nblk in range(256) if ck.thorough else list(range(20)) + [127, 128, 255]:
            for b0 in (0x80, 0x00, 0x81, 0x8f, 0x0f, 0x7f, 0xff):
                yield t3cmd(code, idm, [9], [bytes([b0, 0]), bytes([b0, 1, 0])], nblk=nblk)


def part_t3gen(cx):
    ck, P, L, rng, model = cx.ck, cx.P, cx.L, cx.ck.rng, cx.model
    from sims.t34_sims import IDM, PMM
    full = b"\x01" + IDM + PMM + b"\x12\xFC"
    lines, reals, replays = [], [], []
    card_pool = []

    def run(sensf, tname, nstore, cmd, bucket):
        table = TABLES[tname]
        store = bytes((7 * i + 3) & 255 for i in range(16 * nstore))
        emu = P.GenEmu(store, table, sensf)
        try:
            real = emu.command(cmd)
        except Exception as e:  # noqa - the harness twin itself must not take the run down
            real = "exc(harness) " + exc_name(e)
        if any(m == "deflt" for _, m in table):
            real = real.split(" calls=")[0]
        replay = {"position": "Type3TagEmulation.process_command", "command": cmd.hex(), "services": emu.tabtext(),
                  "blocks_in_store": nstore, "sensf_res": bytes(sensf).hex()}
        ck.case(("t3g", sensf, tname, nstore, cmd), len(cmd) > 0, bucket + ":" + " ".join(real.split()[:1]),
                sample=dict(replay, impl=real[:120]) if rng.random() < 0.0005 else None)
        if not real.startswith("ok"):
            what = real.split()[-1] if real.startswith("exc") else "bad-return"
            ck.fail("t3emu-command-%s" % what, "process_command(%s) with services %s: %s" % (cmd.hex(), emu.tabtext(), real[:80]), replay)
        lines.append("t3g %s %s %s %s" % (emu.ids(), emu.tabtext(), hx(store), hx(cmd)))
        reals.append(real)
        replays.append(replay)

    for tname, nstore, cmd, bucket in t3_structured(ck, rng, IDM):
        run(full, tname, nstore, cmd, bucket)
        if len(cmd) < 80 and rng.random() < 0.05:
            card_pool.append(cmd)
    card_pool.append(t3cmd(6, IDM, [9], [elem(0, 0)]))
    nshort = 0
    for cmd in t3_short(ck, rng, IDM):
        run(full, "tagtool", 4, cmd, "t3g:short")
        nshort += 1
    # SENSF_RES shorter than IDm + PMm + system code: the ids are whatever the slices give
    for n in (19, 18, 17, 13, 9, 8, 5, 2, 1, 0):
        sensf = full[:n]
        idm = sensf[1:9]
        for cmd in [b"", bytes([1]), bytes([2, 6]), bytes([2, 4]), bytes([2, 8]), bytes([2, 12]), bytes([6, 0, 255, 255, 1, 0]), bytes([6, 0, 255, 255, 0, 0]),
                    bytes([6, 0, 0x12, 0xfc, 1, 0]), bytes([4, 0, 0x12, 0xfc]), bytes([3, 0, 0x12]), bytes([2 + len(idm), 4]) + idm, bytes([2 + len(idm), 12]) + idm,
                    bytes([10, 4]) + IDM, t3cmd(6, idm, [9], [elem(0, 0)]), t3cmd(6, IDM, [9], [elem(0, 0)]), t3cmd(8, idm, [9], [elem(0, 0)], bytes(16)),
                    t3cmd(6, idm, [9], [elem(0, i) for i in range(15)]), t3cmd(6, idm, [9], [elem(0, 9)] * 15)]:
            run(sensf, "tagtool", 4, cmd, "t3g:short-sensf")
    replies = model.ask_many(lines)
    dis = 0
    for line, real, rep, replay in zip(lines, reals, replies, replays):
        if " calls=" not in real and rep.startswith("ok"):
            rep = rep.split(" calls=")[0]
        if rep != real:
            dis += 1
            ck.fail("tie:t3emu-any-services", "model %r, implementation %r" % (rep[:100], real[:100]), dict(replay, request=line[:400]))
    ck.tie("PeerT3.processCommandR (any services, bytearray range checks) vs Type3TagEmulation.process_command",
           cases=len(lines), disagreements=dis, exhaustive=False)
    ck.notes.append("Type 3 emulation: %d commands; every length-consistent command of <= 2 octets%s, every command code with bodies of <= 1 octet, "
                    "polling with every request code; READ/WRITE with 0..16/0..13 blocks, a failing element of 4 kinds at every list position"
                    % (len(lines), " and <= 3 octets" if ck.thorough else ""))

    # ---- the same space through connect(card=..): process_command -> send_response on the scripted device;
    #      the responses handed to the device and the way connect() ends are compared with PeerT3.cardSession
    def run_card():
        scripts = []
        for pos in range(0, 15):
            for three in (False, True):
                # the first `pos` blocks can be served, the next one cannot (block beyond the tag / missing service list position /
                # read-only service)
                scripts.append([t3cmd(6, IDM, [9], [elem(0, i % 4, three) for i in range(pos)] + [elem(0, 9, three)])])
                scripts.append([t3cmd(6, IDM, [9], [elem(0, i % 4, three) for i in range(pos)] + [elem(1, 0, three)])])
                if pos < 13:
                    scripts.append([t3cmd(8, IDM, [9], [elem(0, i % 4, three) for i in range(pos)] + [elem(0, 9, three)], bytes(16 * (pos + 1)))])
                    scripts.append([t3cmd(8, IDM, [9, 11], [elem(0, i % 4, three) for i in range(pos)] + [elem(1, 0, three)], bytes(16 * (pos + 1)))])
                    scripts.append([t3cmd(8, IDM, [9], [elem(0, i % 4, three) for i in range(pos)] + [elem(3, 0, three)], bytes(16 * (pos + 1)))])
        for _ in range(400 if ck.thorough else 60):
            scripts.append([rng.choice(card_pool) if rng.random() < 0.85 else rng.choice(["T", "X", "B", b"", b"\x01"]) for _ in range(rng.randrange(1, 6))])
        firsts = [b"\x00\x12\xFC\x00\x00", b"\x00\xFF\xFF\x01\x00", b"\x00", b"\x04" + IDM, b"\x06" + IDM + b"\x01\x09\x00\x01\x80\x00", b"\x06" + IDM]
        for k, frames in enumerate(scripts):
            first = firsts[0] if k % 3 else rng.choice(firsts)
            tname = rng.choice(["tagtool", "one", "four"])
            g = P.GenEmu(bytes((5 * i + 1) & 255 for i in range(64)), TABLES[tname], full)
            store0 = bytes(g.store)

            def startup(t):
                t.brty = "212F"
                t.sensf_res = bytearray(full)
                return t

            def on_connect(tag, g=g):
                for code, mode in g.table:
                    if mode == "deflt":
                        tag.add_service(code, None, None)
                    else:
                        tag.add_service(code, g._reader(mode), g._writer(mode))
                return True
            dev = L.ScriptDevice("card", list(frames), tt3_cmd=first)
            out, clf = L.connect(dev, dict(card={"on-startup": startup, "on-connect": on_connect}), rounds=1000)
            replay = {"position": "ContactlessFrontend.connect(card=..)", "first_command_without_length": first.hex(), "services": g.tabtext(),
                      "commands": [x if isinstance(x, str) else x.hex() for x in frames]}
            if not out.startswith("ok"):
                ck.fail("connect-card-%s" % out.replace("exc ", ""), "connect(card=..) ended with %s" % out, replay)
            ck.case(("card2", first, tname, tuple(frames)), True, "connect-card:" + out)
            real = ("returns" if out.startswith("ok") else "raises " + out[4:] if out.startswith("exc") else out) + \
                " sent=" + (",".join("none" if x is None else hx(x) for x in dev.clf.sent) or "-")
            clines.append("cardsess %s %s %s %s %s" % (g.ids(), g.tabtext(), hx(store0), hx(bytes([len(first) + 1]) + first),
                                                       ",".join(x if isinstance(x, str) else hx(x) for x in frames) or "none"))
            creals.append(real)
            creplays.append(replay)
    clines, creals, creplays = [], [], []
    g = L.guarded(run_card, 200)
    if g[0] != "ok":
        if g[0] == "exc":
            ck.fail("connect-card-harness-%s" % exc_name(g[1]), "connect(card) exploration ended with %r" % (g[1],), {"position": "connect(card)"})
        else:
            ck.fail("card-hard-timeout", "connect(card) exploration did not finish (%s)" % g[0], {"position": "connect(card)"})
    n = min(len(clines), len(creals))
    replies = model.ask_many(clines[:n])
    dis = 0
    for line, real, rep, replay in zip(clines, creals, replies, creplays):
        if rep != real:
            dis += 1
            ck.fail("tie:card-session", "model %r, implementation %r" % (rep[:160], real[:160]), dict(replay, request=line[:600]))
    ck.tie("PeerT3.cardSession vs connect(card=..) on a scripted device (responses handed to the device, how connect() ends)",
           cases=n, disagreements=dis, exhaustive=False)


# ====================================================================== SNEP
def snep_info_fields(rng, ndef):
    good = b"".join(ndef.message_encoder([ndef.TextRecord("hello"), ndef.UriRecord("http://a.b")]))
    big = b"".join(ndef.message_encoder([ndef.TextRecord("x" * 300)]))
    return good, big


def snep_requests(ck, rng, good):
    """process_snep_request over request code x message length x information field -> (data, modes)"""
    fills = [bytes(12), b"\x10\x00\x00\x00\x00\x03\xd0\x00\x00\xd0\x00\x00", bytes([0xff] * 12), b"\x10\x00\x00\x00\x00\x07\x00\x00\x00\x03\xd0\x00\x00"]
    for code in range(256):
        for n in range(0, 14):
            for fill in fills:
                d = bytearray(fill + bytes(2))[:n]
                if n > 1:
                    d[1] = code
                yield bytes(d), ("default",) if code not in (0, 1, 2, 3, 0x81, 0xff) and not ck.thorough else ("default", "echo", "enc")
    # GET: acceptable length around the size of the answer, information field good / mutated / truncated at every octet
    for acc in (0, 1, len(good) - 1, len(good), len(good) + 1, 0xffffffff):
        for cut in range(len(good) + 1):
            info = good[:cut]
            yield struct.pack(">BBLL", 0x10, 1, 4 + len(info), acc) + info, ("default", "echo", "enc")
    for cut in range(len(good) + 1):
        yield struct.pack(">BBL", 0x10, 2, cut) + good[:cut], ("default", "enc")
    from props.c07 import mutate
    for _ in range(3000 if ck.thorough else 400):
        info = mutate(rng, good)
        if rng.random() < 0.5:
            yield struct.pack(">BBLL", 0x10, 1, 4 + len(info), rng.choice([0, 10, 1000])) + info, ("echo",)
        else:
            yield struct.pack(">BBL", 0x10, 2, len(info)) + info, ("default",)
    # every octet of the first record header replaced by every value (type length, flags, non-ascii type)
    for pos in range(0, 5):
        for v in range(256) if ck.thorough else (0, 1, 0x10, 0x11, 0x1f, 0x7f, 0x80, 0x91, 0xd0, 0xd5, 0xfe, 0xff):
            g2 = bytearray(good)
            g2[pos] = v
            yield struct.pack(">BBL", 0x10, 2, len(g2)) + bytes(g2), ("default",)
            yield struct.pack(">BBLL", 0x10, 1, 4 + len(g2), 100) + bytes(g2), ("echo",)


def snep_scripts(ck, rng, good, big):
    """_serve: fragment scripts -> (fragments, miu, max_len, mode)"""
    from props.c07 import mutate, rb
    # every header length 0..12 against every length field 0..8 / beyond, for the request codes that matter
    for code in (1, 2, 0, 3, 0x81, 0xff) if ck.thorough else (1, 2, 0x7f):
        for ver in (0x10, 0x11, 0x1f, 0x20, 0x00, 0xff) if ck.thorough else (0x10, 0x20, 0x00):
            for lf in (0, 1, 2, 3, 4, 5, 6, 7, 8, 20, 1024, 1025, 0xffffffff):
                info = struct.pack(">L", 100) + b"\xd0\x00\x00" if code == 1 else b"\xd0\x00\x00\xd0\x00\x00\x00"
                for have in range(0, 8):
                    m = struct.pack(">BBL", ver, code, lf) + info[:have]
                    yield [m], 128, 1024, "default"
                    if have < len(info):
                        yield [m, info[have:]], 128, 1024, "echo"
                        if not ck.thorough and (lf + have) % 2:
                            continue
                        yield [m, info[have:have + 1], info[have + 1:]], 128, 1024, "default"
                        yield [m, b"", info[have:]], 128, 1024, "default"
    if ck.thorough:
        # header-exhaustive: every version octet x every request code, without and with a complete information field
        for ver in range(256):
            for code in range(256):
                yield [struct.pack(">BBL", ver, code, 0)], 128, 1024, "default"
                yield [struct.pack(">BBL", ver, code, 7) + b"\x00\x00\x00\x64\xd0\x00\x00"], 128, 1024, "default"
    for n in range(0, 7):
        for v in (0x10, 0x00, 0xff):
            yield [bytes([v]) * n], 128, 1024, "default"
            yield [bytes([v]) * n, b"\x10\x02\x00\x00\x00\x00"], 128, 1024, "default"
    # complete requests, cut into fragments at every position; pipelined requests; the partial message when the peer leaves
    reqs = [struct.pack(">BBL", 0x10, 2, len(good)) + good, struct.pack(">BBLL", 0x10, 1, 4 + len(good), 1000) + good,
            struct.pack(">BBLL", 0x10, 1, 4 + len(good), 3) + good, struct.pack(">BBL", 0x10, 2, 3) + b"\xd0\x00\x00", struct.pack(">BBLL", 0x10, 1, 4, 0),
            struct.pack(">BBLL", 0x10, 1, 7, 0xffffffff) + b"\xd0\x00\x00"]
    for m in reqs:
        for cut in range(0, len(m) + 1) if ck.thorough else list(range(0, 14)) + [len(m) - 1, len(m)]:
            for mode in ("default", "echo"):
                yield [m[:cut], m[cut:]], 128, 1024, mode
                yield [m[:cut]], 128, 1024, mode
                yield [m[:cut], m[cut:], reqs[3]], 128, 1024, mode
    # fragmented responses: send MIU below the response size, the client continues / rejects / sends something else / leaves
    bigget = struct.pack(">BBLL", 0x10, 1, 4 + len(big), 2000) + big
    for miu in (6, 7, 20, 128, 309, 310, 311, 2175):
        for nxt in ([], [b"\x10\x00\x00\x00\x00\x00"], [b"\x10\x7f\x00\x00\x00\x00"], [b"\x10\x00\x00\x00\x00"], [b""], [b"\x10\x00\x00\x00\x00\x00", reqs[3]],
                    [reqs[3]]):
            yield [bigget[:100], bigget[100:]] + nxt, miu, 4096, "echo"
            yield [reqs[1]] + nxt, miu, 1024, "echo"
    # max_acceptable_length boundaries
    for mx in (0, 1, len(good) - 1, len(good), len(good) + 4, 0xffffffff, 0x100000000):
        yield [reqs[0]], 128, mx, "default"
        yield [reqs[1]], 128, mx, "echo"
    for _ in range(4000 if ck.thorough else 500):
        k = rng.randrange(4)
        if k == 0:
            frags = [rb(rng, rng.randrange(0, 14)) for _ in range(rng.randrange(1, 4))]
        elif k == 1:
            m = mutate(rng, rng.choice(reqs), (2, 3, 4, 5))
            cut = rng.randrange(0, len(m) + 1)
            frags = [m[:cut], m[cut:]] if rng.random() < 0.6 else [m]
        elif k == 2:
            frags = [rng.choice(reqs) for _ in range(rng.randrange(1, 4))]
        else:
            h = struct.pack(">BBL", rng.choice([0x10, 0x10, 0x20, 0x11, 0]), rng.choice([1, 2, 2, 3, 0x81]),
                            rng.choice([len(good), len(good) + 1, len(good) - 1, 0, 2000, 0xffffffff]))
            m = h + (struct.pack(">L", rng.choice([0, 10, 1000])) if h[1] == 1 else b"") + good
            cut = rng.randrange(1, len(m) + 1)
            frags = [m[:cut]] + ([m[cut:]] if cut < len(m) else [])
        yield frags, rng.choice([128, 128, 6, 30, 2175]), rng.choice([1024, 1024, 10, 0]), rng.choice(["default", "echo", "enc"])


def snep_responses(ck, rng, good):
    """the client's response path: fragments from the server -> (fragments, acceptable length)"""
    from props.c07 import mutate, rb
    for n in range(0, 8):
        for v in (0x10, 0x00, 0x81, 0xff):
            yield [bytes([v]) * n], 1024
            yield [bytes([0x10, v]) + bytes(n)], 1024
    for st in range(256):
        for lf in (0, 1, 3, 4, 1024, 1025, 0xffffffff):
            for have in (0, 1, 3, 4):
                m = struct.pack(">BBL", 0x10, st, lf) + b"\xd0\x00\x00\x00"[:have]
                if not ck.thorough and st not in (0, 0x80, 0x81, 0xc0, 0xc2, 0xff) and (lf, have) not in ((0, 0), (3, 3), (4, 3)):
                    continue
                yield [m], 1024
                yield [m, b"\xd0\x00\x00\x00"[have:]], 1024
                yield [m, b"\x00", b"\x00\x00\x00"], 1024
    full = struct.pack(">BBL", 0x10, 0x81, len(good)) + good
    for cut in range(0, len(full) + 1):
        for acc in (1024, len(good), len(good) - 1, 0):
            yield [full[:cut], full[cut:]], acc
            yield [full[:cut]], acc
            yield [full[:cut], full[cut:cut + 1], full[cut + 1:]], acc
    for _ in range(2000 if ck.thorough else 300):
        m = mutate(rng, full, (2, 3, 4, 5))
        cut = rng.randrange(0, len(m) + 1)
        yield ([m[:cut], m[cut:]] if rng.random() < 0.5 else [m, rb(rng, rng.randrange(0, 9))]), rng.choice([1024, 10, 0])


def part_snep_model(cx):
    ck, P, rng, model = cx.ck, cx.P, cx.ck.rng, cx.model
    import ndef
    good, big = snep_info_fields(rng, ndef)
    # ---- process_snep_request
    lines, reals, replays = [], [], []
    for data, modes in snep_requests(ck, rng, good):
        for mode in modes:
            real, table = P.snep_request_tie(data, mode)
            replay = {"position": "SnepServer.process_snep_request", "request": data.hex(), "application": mode}
            ck.case(("snepreq", data, mode), len(data) > 0, "snep-request:" + (real if real.startswith("exc") else "ok " + real[5:7]))
            if real.startswith("exc") and not (len(data) < 2 and real == "exc IndexError"):
                # _serve never hands over less than six octets; everything else must be answered
                ck.fail("snep-server-thread-%s" % real[4:], "process_snep_request(%s) raised %s: the serving thread dies" % (data.hex(), real[4:]), replay)
            lines.append("snepreq %s %s" % (table, hx(data)))
            reals.append(real)
            replays.append(replay)
    replies = model.ask_many(lines)
    dis = 0
    for line, real, rep, replay in zip(lines, reals, replies, replays):
        if rep != real:
            dis += 1
            ck.fail("tie:snep-process-request", "model %r, implementation %r" % (rep[:100], real[:100]), dict(replay, request=line[:400]))
    ck.tie("PeerSnep.processRequest vs SnepServer.process_snep_request (every request code x message length 0..13)",
           cases=len(lines), disagreements=dis, exhaustive=False)
    # ---- _serve
    lines, reals, replays = [], [], []
    for frags, miu, mx, mode in snep_scripts(ck, rng, good, big):
        frags = [bytes(f) for f in frags]
        replay = {"position": "snep server", "fragments": [f.hex() for f in frags], "send_miu": miu, "max_acceptable_length": mx, "application": mode}
        # L3 on the untouched module (default application), then the recorded run for the model
        if mode == "default":
            r0, s0 = P.snep_server(frags, miu, mx)
            if not r0.startswith("ok"):
                ck.fail("snep-server-thread-%s" % r0[4:], "SnepServer._serve ended with %s: the serving thread dies" % r0[4:], replay)
        real, table, sock = P.snep_serve_tie(frags, miu, mx, mode)
        ck.case(("snepsrv", tuple(frags), miu, mx, mode), any(frags), "snep-serve:" + (real if real.startswith("exc") else "ok %d sent" % len(sock.sent)))
        if not real.startswith("ok"):
            ck.fail("snep-server-thread-%s" % real[4:], "SnepServer._serve ended with %s: the serving thread dies" % real[4:], replay)
        if miu >= 6:
            lines.append("snepsrv %d %d %s %s" % (miu, min(mx, 0xFFFFFFFF), table, ",".join(hx(f) for f in frags) or "none"))
            reals.append(real)
            replays.append(replay)
    replies = model.ask_many(lines)
    dis = 0
    for line, real, rep, replay in zip(lines, reals, replies, replays):
        if rep != real:
            dis += 1
            ck.fail("tie:snep-serve", "model %r, implementation %r" % (rep[:160], real[:160]), dict(replay, request=line[:600]))
    ck.tie("PeerSnep.serve vs SnepServer._serve on scripted connections (messages sent, in order)", cases=len(lines), disagreements=dis, exhaustive=False)
    # ---- client response path
    lines, reals, replays = [], [], []
    for frags, acc in snep_responses(ck, rng, good):
        frags = [bytes(f) for f in frags if f is not None]
        for op in ("get", "put"):
            real, sock = P.snep_client_tie(frags, op, acc)
            replay = {"position": "snep client", "operation": op, "fragments": [f.hex() for f in frags], "acceptable_length": acc}
            ck.case(("snepcli", op, tuple(frags), acc), any(frags), "snep-client:" + " ".join(real.split()[:2]))
            if not real.startswith("ok"):
                ck.fail("snep-client-%s" % (real[4:] if real.startswith("exc") else "bad-return"), "SnepClient.%s_octets: %s" % (op, real[:80]), replay)
            if len(lines) % 7 == 0:
                # a request above the send MIU: the first fragment from the server is the answer to the first request fragment
                for pre in ([], [b"\x10\x80\x00\x00\x00\x00"]):
                    r2, s2 = P.snep_client(pre + frags, op, send_miu=20, octets=b"\xd1\x01\x60\x54" + bytes(0x60))
                    if r2.startswith("exc") and r2[4:] != "SnepError":
                        ck.fail("snep-client-%s" % r2[4:], "SnepClient.%s_octets (fragmented request) raised %s" % (op, r2[4:]),
                                dict(replay, fragments=[f.hex() for f in pre + frags], send_miu=20))
                    ck.case(("snepcli-frag", op, tuple(pre + frags), acc), True, "snep-client-fragmented:" + r2.split()[0])
            # an empty fragment is an empty I PDU: the script socket hands it over like any other
            lines.append("snepcli %s %d %s" % (op, acc, ",".join(hx(f) for f in frags) or "none"))
            reals.append(real)
            replays.append(replay)
    replies = model.ask_many(lines)
    dis = 0
    for line, real, rep, replay in zip(lines, reals, replies, replays):
        if rep != real:
            dis += 1
            ck.fail("tie:snep-client-response", "model %r, implementation %r" % (rep[:100], real[:100]), dict(replay, request=line[:400]))
    ck.tie("PeerSnep.getOctets/putOctets vs SnepClient.get_octets/put_octets (response path)", cases=len(lines), disagreements=dis, exhaustive=False)


# ====================================================================== handover
def handover_messages(ck, rng, ndef):
    from props.c07 import mutate, rb
    hr = b"".join(ndef.message_encoder([ndef.HandoverRequestRecord("1.2", 1234)]))
    hs = b"".join(ndef.message_encoder([ndef.HandoverSelectRecord("1.2")]))
    hr2 = b"".join(ndef.message_encoder([ndef.HandoverRequestRecord("1.2", 1), ndef.Record("application/vnd.bluetooth.ep.oob", "0", b"\x08\x00" + bytes(6))]))
    out = [[b""], [], [b"", b""]]
    for a in range(256):
        out.append([bytes([a])])
        for b in (range(256) if ck.thorough else (0, 1, 2, 3, 0x80, 0xff)):
            out.append([bytes([a, b])])
            for c in (0, 1, 2, 0xff):
                out.append([bytes([a, b, c])])
                out.append([bytes([a, b, c]) + b"Hr\x12" + bytes(2)])
    for m in (hr, hs, hr2):
        for cut in range(0, len(m) + 1):
            out.append([m[:cut], m[cut:]])
            out.append([m[:cut]])
            out.append([m[:cut], m[cut:cut + 1], m[cut + 1:]])
        for pos in range(min(len(m), 8)):
            for v in range(256) if ck.thorough else (0, 1, 2, 0x10, 0x11, 0x12, 0x48, 0x7f, 0x80, 0x91, 0xd1, 0xd2, 0xd5, 0xff):
                m2 = bytearray(m)
                m2[pos] = v
                out.append([bytes(m2)])
        out.append([m, m])
        out.append([m + m])
    for _ in range(3000 if ck.thorough else 400):
        m = mutate(rng, rng.choice([hr, hs, hr2]))
        cut = rng.randrange(0, len(m) + 1)
        out.append([m[:cut], m[cut:]] if rng.random() < 0.5 else [m, rb(rng, rng.randrange(0, 6))])
    return out


def part_handover(cx):
    ck, P, rng = cx.ck, cx.P, cx.ck.rng
    import ndef
    for frags in handover_messages(ck, rng, ndef):
        frags = [bytes(f) for f in frags]
        replay = {"position": "handover server", "fragments": [f.hex() for f in frags]}
        r, s = P.handover_server(frags, rng.choice([128, 128, 6, 1]))
        if not r.startswith("ok"):
            ck.fail("handover-server-thread-%s" % r[4:], "HandoverServer.serve ended with %s: the serving thread dies" % r[4:], replay)
        ck.case(("ho-s2", tuple(frags)), any(frags), "handover-server:" + r.split()[0])
        for timeout in (None, 0.5):
            r, s = P.handover_client(frags, timeout)
            if not r.startswith("ok"):
                # what did the peer do: left the message incomplete (recv_octets -> None) or sent octets ndef refuses with ValueError
                ck.fail("handover-client-recv-%s" % r[4:], "HandoverClient.recv_records raised %s for the server's octets %s"
                        % (r[4:], [f.hex() for f in frags]), dict(replay, position="handover client recv_records", timeout=timeout))
            ck.case(("ho-c", tuple(frags), timeout), any(frags), "handover-client:" + r[:14])
