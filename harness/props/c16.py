"""C16 - tag commands retry transient errors and fail only as TagCommandError.

L1: theorems of NfcVerif.Props.C16 about the executable model
    (Model/Retry.lean): the retry primitives of Type 1/2/3/4 tags, every
    public tag operation as a command program over them, and sessions of
    several operations on one tag object (NDEF cache, Type 2 target lost,
    ISO-DEP error memory).
L2: every public operation (ndef read, ndef write, presence check, format,
    format+wipe, protect, protect with password, authenticate, dump and the
    low level commands of each class) of 21 simulated tags (generic Type
    1/2/3/4 and the Topaz, Ultralight, Ultralight C, Ultralight EV1, NTAG203,
    NTAG210/213, NTAG I2C, FeliCa Standard, FeliCa Lite / Lite-S classes) is
    run on the REAL code behind a fault-injecting frontend (sims/retry_sims.py)
    and on the Lean model with the same fault script and the same script of
    clf.sense() results; outcome class, the complete exchange log (which
    command, how often, which attempt was answered), the write commands
    executed by the tag and whether the tag object / the frontend still have a
    target are compared.  Sessions of two and three operations on the same tag
    object (first one failing with each reason code, the next one meeting a
    transient fault) are compared the same way for the Type 2 and Type 4
    families.  Histories on one FeliCa Lite / Lite-S tag object (op1 fault-free; op2 failing at command k with a
    burst of each class; op3 on a healthy link) are compared operation by operation with Model/RetryObj.lean,
    including the object state (session key, _authenticated, installed NDEF service accessors, NDEF cache,
    polled system code); histories of the same shape on every other class go through the session comparison.
L3: the property stated on the real runs alone: outcome is a documented
    value or a TagCommandError whose general reason code matches the last
    failure; per primitive call at most the budgeted number of exchanges and
    nothing after the answered one; a burst within the budget is invisible
    (same result and same tag memory as the fault-free run); exchange() is
    never called without a target; an ISO-DEP answer is never taken for a
    command the card has not executed; a write that reports success is in the
    tag memory; nothing is sent after an unrecoverable ISO-DEP error.
"""
import contextlib
import io
import logging
import re

from common import Model, exc_name

logging.disable(logging.CRITICAL)

LEAN_TARGETS = ["NfcVerif.Props.C16", "drv_c16", "NfcVerif.Props.TablesTag"]

THEOREMS = [
    "NfcVerif.C16.transceive_bounded",
    "NfcVerif.C16.transceive_errno",
    "NfcVerif.C16.isodep_bounded",
    "NfcVerif.C16.isodep_errno",
    "NfcVerif.C16.op_outcome_documented",
    "NfcVerif.C16.op_outcome_documented_partial",
    "NfcVerif.C16.tag_object_stays_sound",
    "NfcVerif.C16.t3_format_documented",
    "NfcVerif.C16.write_not_duplicated",
    "NfcVerif.C16.session_outcomes_documented",
    "NfcVerif.C16.session_outcomes_documented_partial",
    "NfcVerif.C16.isodep_error_remembered",
    "NfcVerif.C16.isodep_silent_after_error",
    "NfcVerif.C16.isodep_session_silent_after_error",
    "NfcVerif.C16.read_nak_reactivation",
    "NfcVerif.C16.t2_silent_when_gone",
    "NfcVerif.C16.t2_protectpw_silent_when_gone",
    "NfcVerif.C16.unknown_commerror_counterexample",
    "NfcVerif.C16.presence_check_not_retried",
    "NfcVerif.C16.lost_answer_write_twice",
    "NfcVerif.C16.once_refused_on_retry",
    "NfcVerif.C16.object_session_outcomes_documented",
    "NfcVerif.C16.object_session_keeps_invariant",
    "NfcVerif.C16.object_session_write_not_duplicated",
    "NfcVerif.C16.failed_authenticate_resets_session",
    "NfcVerif.C16.plain_ok_of_table",
    "NfcVerif.C16.late_reset_counterexample",
]

BASE_OPS = ["ndef", "write", "present", "format", "formatw", "protect", "protectpw", "auth", "dump"]
DOCUMENTED = {"ndef": {"ndef", "none"}, "write": {"unit", "none"}, "write2": {"unit", "none"}, "present": {"true", "false"},
              "format": {"true", "false", "none"}, "formatw": {"true", "false", "none"},
              "protect": {"true", "false", "none"}, "protectpw": {"true", "false", "none"},
              "protectrd": {"true", "false", "none"},
              "auth": {"true", "false", "none"}, "auth0": {"true", "false", "none"}, "dump": {"list"}, "sig": {"data"},
              "changed": {"data", "none"}}
FOOTER = {"ulc": 4, "ntag203": 2, "ntag213": 5, "ntag210": 4, "ulev1": 4, "nt3h": 7}
PASSWORD = b"0123456789abcdef"
NEWDATA = b"\xd1\x01\x03\x54\x02\x65\x6e"
NEWDATA2 = b"\xd1\x01\x03\x54\x02\x64\x65"
BLOCK16 = bytes(range(0x40, 0x50))
BIGDATA = bytes((5 * i + 3) & 255 for i in range(600))      # Type 4: UPDATE BINARY commands of two ISO-DEP blocks
L3ONLY = {"t4chain"}      # chained ISO-DEP commands: oracle only, the block protocol model is C12's
_big = [False]

_current = [None]
_hooked = [False]

FAMILY = {"t2": "t2", "t2big": "t2", "ul": "t2", "ulc": "t2", "ntag203": "t2", "ntag213": "t2", "ntag210": "t2",
          "ulev1": "t2", "nt3h": "t2",
          "t3": "t3", "t3std": "t3", "lite": "t3", "lites": "t3", "t1s": "t1", "t1d": "t1", "topaz": "t1",
          "topaz512": "t1", "t4": "t4", "t4b": "t4", "t4slow": "t4", "t4chain": "t4"}
NTAG21X = ("ntag213", "ntag210", "ulev1")
# classes that differ from another simulated one by constants only: fewer positions / sessions in the quick tier
SECONDARY = {"ul", "ntag210", "ulev1", "topaz", "t4b"}


def family(kind):
    return FAMILY[kind]


# low level commands and vendor operations beyond the nine common ones: name -> (kinds, model family, model op)
def extra_ops(kind):
    fam = family(kind)
    out = []
    if fam == "t2":
        out += ["rd4", "wr5", "sel1", "trx"]
        if kind not in ("t2big", "nt3h"):
            out.append("rdend")
        if kind in NTAG21X:
            out.append("sig")
        if kind in NTAG21X or kind == "ulc":
            out.append("protectrd")
    elif fam == "t1":
        out += ["rid", "rall", "rbyte", "rblock", "rseg", "wbyte", "wblock"]
    elif fam == "t3":
        out += ["poll", "rdsvc", "wrsvc"]
        if kind == "t3std":
            out += ["reqsvc", "reqrsp", "search", "reqsys"]
        if kind in ("lite", "lites"):
            out += ["auth0", "rdmac"]
        if kind == "lites":
            out.append("wrmac")
    elif fam == "t4":
        out += ["apdu", "trx"]
    return out


def ops_of(kind):
    return BASE_OPS + extra_ops(kind)


SEQ_OPS = {"rd4", "wr5", "sel1", "trx", "rdend", "rid", "rall", "rbyte", "rblock", "rseg", "wbyte", "wblock",
           "poll", "rdsvc", "wrsvc", "reqsvc", "reqrsp", "search", "reqsys", "rdmac", "wrmac", "apdu"}
for _o in SEQ_OPS:
    DOCUMENTED[_o] = {"data"}


def hook_errors():
    """record every TagCommandError construction in the log of the running frontend"""
    import nfc.tag
    if _hooked[0]:
        return
    orig = nfc.tag.TagCommandError.__init__

    def init(self, errno):
        orig(self, errno)
        air = _current[0]
        if air is not None:
            air.log.append(("!", errno))
    nfc.tag.TagCommandError.__init__ = init
    _hooked[0] = True


def instrument(kind, air, tag):
    """mark the calls of the retry primitive; ISO-DEP: note every answer taken for a command the card has not executed"""
    fam = family(kind)
    air.stale = []
    if fam in ("t1", "t2"):
        orig = tag.transceive

        def wrapped(*a, **kw):
            air.mark()
            return orig(*a, **kw)
        tag.transceive = wrapped
    elif fam == "t3":
        orig = tag.send_cmd_recv_rsp

        def wrapped(*a, **kw):
            air.mark()
            return orig(*a, **kw)
        tag.send_cmd_recv_rsp = wrapped
    else:
        orig = tag._dep.exchange
        sim = air.sim

        def wrapped(command, *a, **kw):
            air.mark()
            before = len(sim.log_apdu)
            rsp = orig(command, *a, **kw)
            if command is not None and len(sim.log_apdu) == before:
                air.stale.append((bytes(command), bytes(rsp) if rsp is not None else None))
            return rsp
        tag._dep.exchange = wrapped


def classify(r):
    import nfc.tag
    if r is None:
        return "none"
    if r is True:
        return "true"
    if r is False:
        return "false"
    if isinstance(r, list):
        return "list"
    if isinstance(r, nfc.tag.Tag.NDEF):
        return "ndef"
    return r if r in ("unit", "data") else "other:" + type(r).__name__


def is_t3_generic(tag):
    return type(tag).__name__ in ("Type3Tag", "FelicaStandard")


def perform(tag, op):
    if op == "ndef":
        return tag.ndef
    if op in ("write", "write2"):
        ndef = tag.ndef
        if ndef is None or not ndef.is_writeable:
            return None
        ndef.octets = BIGDATA if _big[0] else (NEWDATA if op == "write" else NEWDATA2)
        return "unit"
    if op == "changed":
        ndef = tag.ndef
        if ndef is None:
            return None
        r = ndef.has_changed
        return "data" if (r is True or r is False) else ("other:" + type(r).__name__)
    if op == "present":
        return tag.is_present
    if op == "format":
        return tag.format(0x10) if is_t3_generic(tag) else tag.format()
    if op == "formatw":
        return tag.format(0x10, 0x5A) if is_t3_generic(tag) else tag.format(wipe=0x5A)
    if op == "protect":
        return tag.protect()
    if op == "protectpw":
        return tag.protect(PASSWORD)
    if op == "protectrd":
        return tag.protect(PASSWORD, read_protect=True, protect_from=4)
    if op == "auth":
        return tag.authenticate(PASSWORD)
    if op == "auth0":
        return tag.authenticate(b"")
    if op == "dump":
        return tag.dump()
    if op == "sig":
        r = tag.signature
        return "data" if isinstance(r, (bytes, bytearray)) and len(r) == 32 else r
    # low level commands: whatever they return is data
    if op == "rd4":
        tag.read(4)
    elif op == "rdend":
        tag.read(len(tag.clf.sim.mem) // 4)
    elif op == "wr5":
        tag.write(5, b"\x01\x02\x03\x04")
    elif op == "sel1":
        tag.sector_select(1)
    elif op == "trx":
        if type(tag).__name__.startswith("Type4"):
            tag.transceive(b"\x00\xB0\x00\x00\x02")
        else:
            tag.transceive(b"\x30\x04")
    elif op == "rid":
        tag.read_id()
    elif op == "rall":
        tag.read_all()
    elif op == "rbyte":
        tag.read_byte(8)
    elif op == "rblock":
        tag.read_block(3)
    elif op == "rseg":
        tag.read_segment(1)
    elif op == "wbyte":
        tag.write_byte(20, 0x5A)
    elif op == "wblock":
        tag.write_block(3, bytearray(range(8)))
    elif op == "poll":
        tag.polling(tag.sys, 1)
    elif op == "rdsvc":
        tag.read_from_ndef_service(1, 2)
    elif op == "wrsvc":
        tag.write_to_ndef_service(BLOCK16, 1)
    elif op == "reqsvc":
        import nfc.tag.tt3
        tag.request_service([nfc.tag.tt3.ServiceCode(0, 0x0B)])
    elif op == "reqrsp":
        tag.request_response()
    elif op == "search":
        tag.search_service_code(1)
    elif op == "reqsys":
        tag.request_system_code()
    elif op == "rdmac":
        tag.read_with_mac(1, 2)
    elif op == "wrmac":
        tag.write_with_mac(BLOCK16, 5)
    elif op == "apdu":
        tag.send_apdu(0, 0xB0, 0, 0, mrl=2)
    else:
        raise ValueError(op)
    return "data"


def prelude(tag, op):
    """what an application has done before the operation (fault-free, not part of the case)"""
    if op in ("write", "write2", "apdu"):
        if tag.ndef is None:
            raise RuntimeError("simulated tag has no NDEF")
    elif op == "trx" and type(tag).__name__.startswith("Type4"):
        if tag.ndef is None:
            raise RuntimeError("simulated tag has no NDEF")
    elif op in ("rdmac", "wrmac"):
        if tag.authenticate(b"") is not True:
            raise RuntimeError("simulated tag does not authenticate")


TIMED = ["nfc.tag", "nfc.tag.tt1", "nfc.tag.tt2", "nfc.tag.tt3", "nfc.tag.tt4",
         "nfc.tag.tt1_broadcom", "nfc.tag.tt2_nxp", "nfc.tag.tt3_sony"]


@contextlib.contextmanager
def virtual_time(clock):
    """the tag modules see `clock` instead of the time module: elapsed-time dependent behaviour of
    the retry paths runs deterministically, a failed exchange costs its timeout"""
    import importlib
    saved = []
    for name in TIMED:
        mod = importlib.import_module(name)
        saved.append((mod, mod.__dict__.get("time", None), "time" in mod.__dict__))
        mod.time = clock
    try:
        yield clock
    finally:
        for mod, old, had in saved:
            if had:
                mod.time = old
            else:
                del mod.time


_des_memo = {}


class _MemoDes(object):
    """pyDes.triple_des with remembered results: the pure-Python DES dominates the run time of the FeliCa Lite
    and Ultralight C operations; challenges are fixed (`fixed_random`), so the same blocks recur all the time"""

    def __init__(self, key, mode=0, iv=None, *a, **kw):
        self._args = (bytes(key), mode, bytes(iv) if iv is not None else None)
        self._ctor = (key, mode, iv, a, kw)
        self._obj = None
        if a or kw:
            self._real          # unusual arguments: let pyDes judge them right away

    @property
    def _real(self):
        # the key schedule is only computed when a result is not remembered yet
        if self._obj is None:
            import pyDes
            key, mode, iv, a, kw = self._ctor
            self._obj = pyDes.triple_des(key, mode, iv, *a, **kw)
        return self._obj

    def _do(self, what, data):
        k = (what,) + self._args + (bytes(data),)
        if k not in _des_memo:
            _des_memo[k] = getattr(self._real, what)(data)
        return _des_memo[k]

    def encrypt(self, data, *a, **kw):
        return self._do("encrypt", data) if not a and not kw else self._real.encrypt(data, *a, **kw)

    def decrypt(self, data, *a, **kw):
        return self._do("decrypt", data) if not a and not kw else self._real.decrypt(data, *a, **kw)


def fast_des():
    """the tag modules and the simulators use the remembering triple_des (same results, see _MemoDes)"""
    import nfc.tag.tt2_nxp
    import nfc.tag.tt3_sony
    import pyDes
    for mod in (nfc.tag.tt2_nxp, nfc.tag.tt3_sony):
        if getattr(mod, "triple_des", None) is pyDes.triple_des:
            mod.triple_des = _MemoDes
    from sims import retry_sims as rs
    rs.triple_des_factory[0] = _MemoDes


@contextlib.contextmanager
def fixed_random():
    import os
    urandom = os.urandom
    os.urandom = lambda n: bytes((7 * i + 1) & 255 for i in range(n))     # challenges of authenticate()
    try:
        yield
    finally:
        os.urandom = urandom


def sim_memory(sim):
    """tag content (the FeliCa Lite-S write counter is not content)"""
    return bytes(sim.mem) if hasattr(sim, "mem") else (
        b"".join(bytes(sim.blocks[k]) for k in sorted(sim.blocks) if k != 0x90) if hasattr(sim, "blocks") else bytes(sim.file))


def one_op(air, tag, op):
    """perform `op`, -> canonical outcome"""
    _current[0] = air
    air.wrong_data = None
    try:
        with contextlib.redirect_stdout(io.StringIO()):
            r = perform(tag, op)
            if op == "ndef" and r is not None and air.sim.ndef_now() is not None and bytes(r.octets) != air.sim.ndef_now():
                air.wrong_data = bytes(r.octets)
            out = "ok " + classify(r)
    except Exception as e:  # noqa
        out = "exc " + exc_name(e)
    finally:
        _current[0] = None
    return out


def split_log(air, lo, raw_lo):
    """events of air.log[lo:] -> (invocations, command octets per invocation)"""
    invs, cur = [], None
    raws, k = [], raw_lo
    for ev in air.log[lo:]:
        if ev == "|":
            cur = []
            invs.append(cur)
            raws.append(None)
        elif ev[0] == "!":
            if cur is not None:
                cur.append(ev)
        else:
            if cur is None:          # exchange outside of every primitive call
                cur = []
                invs.append(cur)
                raws.append(None)
            cur.append(ev)
            if ev[0] != "?":
                raws[-1] = air.raw[k]
                k += 1
    return invs, raws


def flags_of(kind, air, tag):
    """does the tag object think the target is gone / has the frontend dropped it"""
    gone = family(kind) == "t2" and not tag.target
    return "g%d l%d" % (1 if gone else 0, 1 if air.notarget else 0)


def execute(kind, op, script, prepare=None, senses="", pre_ndef=False):
    """run one operation of a fresh tag under `script` -> dict"""
    from sims import retry_sims as rs
    with virtual_time(rs.Clock()) as clock, fixed_random():
        hook_errors()
        sim, air, tag = rs.build(kind)
        air.clock = clock
        _big[0] = kind in L3ONLY
        if prepare:
            prepare(sim)
        instrument(kind, air, tag)
        _current[0] = None
        if pre_ndef:
            tag.ndef
        prelude(tag, op)
        air.arm(script, senses)
        app_lo = len(sim.applied)
        air.stale = []
        out = one_op(air, tag, op)
        invs, raws = split_log(air, 0, 0)
        nret = tag._dep.n_retry_nak if family(kind) == "t4" else 0
        return {"out": out, "invs": invs, "invraw": raws, "n": sum(1 for e in air.log if e != "|" and e[0] not in "!?"),
                "applied": list(sim.applied[app_lo:]), "raw": list(air.raw), "mem": sim_memory(sim), "nret": nret, "sim": sim,
                "flags": flags_of(kind, air, tag), "blind": sum(1 for e in air.log if e != "|" and e[0] == "?"),
                "stale": list(air.stale), "sensed": air.sensed, "wrong": air.wrong_data}


def execute_session(kind, ops, scripts, senses, probe=None):
    """several operations on one tag object; scripts[i] / senses[i] are armed for operation i.
    -> list of per-operation dicts (the fault letters and sense results really consumed are in 'used' / 'sensed')"""
    from sims import retry_sims as rs
    with virtual_time(rs.Clock()) as clock, fixed_random():
        hook_errors()
        sim, air, tag = rs.build(kind)
        air.clock = clock
        _big[0] = False
        instrument(kind, air, tag)
        air.arm("", "")
        res = []
        for op, sc, se in zip(ops, scripts, senses):
            lo, raw_lo, app_lo, used_lo, stale_lo = len(air.log), len(air.raw), len(sim.applied), air.used, len(air.stale)
            air.rearm(sc, se)
            air.sensed = ""
            out = one_op(air, tag, op)
            invs, raws = split_log(air, lo, raw_lo)
            used = air.used - used_lo
            res.append({"out": out, "invs": invs, "invraw": raws, "applied": list(sim.applied[app_lo:]),
                        "used": (sc + "a" * used)[:used], "sensed": air.sensed, "flags": flags_of(kind, air, tag),
                        "blind": sum(1 for e in air.log[lo:] if e != "|" and e[0] == "?"),
                        "stale": list(air.stale[stale_lo:]), "wrong": air.wrong_data,
                        "errs": [e[1] for e in air.log[lo:] if e != "|" and e[0] == "!"],
                        "frames": [e for e in air.log[lo:] if e != "|" and e[0] not in "!?"]})
            if probe is not None:
                res[-1]["obj"] = probe(tag)
        return res, sim_memory(sim), (tag._dep.n_retry_nak if family(kind) == "t4" else 0)


def show_log(invs):
    """exchange log; the R(NAK) frames of an ISO-DEP exchange are shown under the command they belong to"""
    out = []
    for inv in invs:
        ex = [e for e in inv if e[0] != "!"]
        if ex:
            out.append("|" + "".join(" %s.%s" % (ex[0][0], e[1]) for e in ex))
    return " ".join(out)


def applied_tokens(kind, applied):
    """write commands executed by the simulated tag, as tokens"""
    fam = family(kind)
    out = []
    for a in applied:
        if fam == "t2":
            out.append("w%d" % (a[1] % 256))
        elif fam == "t1":
            out.append(("w" if a[0] == "w" else "W") + "?%d" % a[1])
        elif fam == "t3":
            out.append("w%d" % a[1][0] + ("x%d" % len(a[1]) if len(a[1]) > 1 else ""))
        else:
            out.append("up%d" % a[1])
    return out


def steps_of(kind, r):
    """fault-free run -> [(token, ans)] per primitive call; ans '+', '~', '-errno', 'n' (READ answered with NAK),
    '!errno' (accepted once: the identical frame is refused with errno when it is executed again)"""
    steps = []
    sim = r["sim"]
    for inv, raw in zip(r["invs"], r["invraw"]):
        ex = [e for e in inv if e[0] != "!"]
        if not ex:
            continue
        errs = [e[1] for e in inv if e[0] == "!"]
        tok = ex[0][0]
        once = sim.once(raw) if (raw is not None and hasattr(sim, "once")) else None
        if all(e[1] == "m" for e in ex):
            ans = "~"
        elif errs:
            nak = family(kind) == "t2" and raw is not None and raw[0] == 0x30 and errs[0] == 2
            ans = "n" if nak else "-%d" % errs[0]
        elif once is not None:
            ans = "!%d" % once
        else:
            ans = "+"
        steps.append((tok, ans))
    return steps


def enc(phases):
    s = ";".join(",".join("%s:%s" % st for st in p) for p in phases)
    return s if s else "-"


class Plan(object):
    """model request of one (kind, op): family, op, phases, value, nret.  `cached`: the application has read
    tag.ndef before (the NDEF object is cached in the tag object)"""

    def __init__(self, kind, op, cached=False):
        self.kind, self.op, self.cached = kind, op, cached
        base = execute(kind, op, "", pre_ndef=cached)
        self.base = base
        steps = steps_of(kind, base)
        self.n = base["n"]
        self.value = base["out"][3:] if base["out"].startswith("ok ") else None
        self.t3format = None
        fam = family(kind)
        mop = {"formatw": "format", "write2": "write", "protectrd": "protectpw", "auth0": "auth"}.get(op, op)
        uses_ndef = op in ("format", "formatw", "protect", "dump")
        nndef = len(steps_of(kind, execute(kind, "ndef", ""))) if (uses_ndef and not cached) else 0
        ph = [steps]
        mfam = fam
        toks = [t for t, _ in steps]
        if not steps:
            mop = "noop"
        elif op in SEQ_OPS:
            mop = "seq"
            if op == "poll":
                mfam = "t3p"
        elif fam == "t2":
            if mop in ("format",):
                if kind in ("ntag203", "ntag213", "ntag210"):      # classes with their own _format
                    mfam = "t2nxp"
                    if cached:
                        ph = [[], steps, [], [], []]
                    else:
                        blank = execute(kind, op, "", prepare=lambda sim: sim.mem.__setitem__(slice(12, 16), bytes(4)))
                        dw = [c for c in blank["raw"] if c[0] == 0xA2][:2]

                        def defaults(sim, dw=dw):
                            for c in dw:
                                sim.mem[c[1] * 4:c[1] * 4 + 4] = c[2:6]
                        n2 = len(steps_of(kind, execute(kind, "ndef", "", prepare=defaults)))
                        again = steps_of(kind, execute(kind, op, "", prepare=defaults))
                        ph = [steps[:nndef], steps[nndef:], [("w%d" % c[1], "+") for c in dw], again[:n2], again[n2:]]
                else:
                    ph = [steps[:nndef], steps[nndef:]]
            elif mop == "protect":
                if kind in ("ulc", "ntag203") + NTAG21X:
                    mfam = "t2nxp"
                else:
                    ph = [steps[:nndef], steps[nndef:]]
            elif mop == "protectpw":
                if kind == "ulc":
                    mfam = "t2ulc"
                    i = toks.index("a1")
                    ph = [steps[:i], steps[i:i + 1], steps[i + 1:]]
                else:
                    mfam = "t2ntag"
                    i = toks.index("pw")
                    ph = [steps[:i], steps[i:]]
            elif mop == "auth":
                mfam = "t2ulc" if kind == "ulc" else "t2ntag"
                ph = [steps[:1], steps[1:]] if kind == "ulc" else [steps]
            elif mop == "sig":
                mfam = "t2ntag"
            elif mop == "dump":
                nf = FOOTER.get(kind, 0)
                ph = [steps[:4], steps[4:len(steps) - nf], steps[len(steps) - nf:]]
                if kind == "nt3h":
                    mfam = "t2i2c"
        elif fam == "t1":
            if mop == "ndef":
                ph = [steps[:1], steps[1:]]
            elif mop == "protect":
                ph = [steps[:1], steps[1:nndef], steps[nndef:]] if not cached else [[], [], steps]
            elif mop == "dump":
                k = 2 if len(steps) > 1 and steps[1][0] == "R15" else 1
                ph = [steps[:1], steps[1:k], steps[k:]]
        elif fam == "t3":
            lite = kind in ("lite", "lites")
            if mop == "ndef":
                k = 1 if toks[0] == "po" else 0
                ph = [steps[:k], steps[k:]]
            elif mop == "write":
                ph = [steps[:1], steps[1:]]
            elif mop == "present" and kind == "t3std":
                mfam = "t3std"
                ph = [steps, [("po", "+")]]
            elif mop == "dump":
                if kind == "t3std":
                    mfam = "t3std"
                    k = max(i for i, t in enumerate(toks) if t.startswith("ss")) + 1
                    ph = [steps[:1], steps[1:2], steps[2:k], steps[k:]]
                elif lite:
                    mfam = "lite"
                    ph = [steps[:14], steps[14:15], steps[15:]]
            elif mop == "format":
                if lite:
                    mfam = "lite"
                else:
                    sim = base["sim"]
                    self.t3format = (sim.nmaxb, sim.nbr, sim.nbw, 1 if op == "formatw" else 0)
            elif mop == "protectpw" and kind == "lites" and "r136" in toks[toks.index("po"):] if "po" in toks else False:
                # after the mutual authentication the NDEF read of a Lite-S also reads the memory configuration block
                mfam, mop = "lites", "protect"
                i = toks.index("po")
                j = len(steps) - 3
                ph = [steps[:i], steps[i:i + 1], steps[i + 1:i + 2], steps[j:j + 2], steps[j + 2:], steps[i + 2:i + 3], steps[i + 3:j]]
            elif mop in ("protect", "protectpw") and lite:
                mfam, mop = "lite", "protect"
                if cached:
                    i = len(steps) - 3          # attribute block read and write, memory configuration write
                    ph = [steps[:i], [], [], steps[i:i + 2], steps[i + 2:]]
                else:
                    i = toks.index("po")
                    n3 = len(steps_of(kind, execute(kind, "ndef", "")))
                    ph = [steps[:i], steps[i:i + 1], steps[i + 1:i + n3], steps[i + n3:i + n3 + 2], steps[i + n3 + 2:]]
            elif mop == "auth":
                mfam = "lite"
        elif fam == "t4":
            if mop in ("format", "dump"):
                ph = [steps[:nndef], steps[nndef:]]
        self.mfam, self.mop, self.phases = mfam, mop, ph

    def spec(self):
        return "%s|%s|%s|%s" % (self.mfam, self.mop, self.value or "none", enc(self.phases))

    def request(self, cfg, script, senses=""):
        if self.t3format:
            return "t3format %s %d %d %d %d %s" % ((cfg,) + self.t3format + (script or "-",))
        return "run %s %s %s %s %d %s %s %s" % (cfg, self.mfam, self.mop, self.value or "none", self.base["nret"],
                                                script or "-", senses or "-", enc(self.phases))


def probe_cfg():
    """which of the repairable defects are repaired in the tree under test"""
    def bit(kind, op, script, bad):
        return "0" if execute(kind, op, script)["out"] == "exc " + bad else "1"
    return (bit("t3", "write", "ttt", "TypeError") + bit("t3", "present", "ooo", "UnboundLocalError")
            + bit("t3", "present", "0", "IndexError") + bit("t2big", "write", "ax", "AssertionError")
            + bit("t4", "ndef", "o", "BrokenLinkError")
            # not a C16 repair: does tt1.read_tlv swallow the command error behind the first TLV byte (fixes/C08)
            + bit("t1d", "ndef", "attt", "TagCommandError(0)"))


NOSTATUS = {"rr", "sc", "rq", "ss0", "ss1", "ss2", "ss3"}
NORAISE = {"present": "False", "sig": "32 zero octets"}     # documented result when the communication fails
BUDGET = 3


def scripts_for(ck, plan, rng):
    """fault scripts of one operation: position x kind x burst (all positions when short, sampled otherwise),
    two and three faults at different positions, trains, random mixes"""
    n = plan.n
    fam = family(plan.kind)
    if n == 0:
        return [""], True
    limit = (48 if ck.thorough else (6 if plan.kind in SECONDARY else 12))
    if n > 60:
        limit = 24 if ck.thorough else 8          # long operations (dump, wipe): first / last / sampled positions
    exhaustive = n <= limit
    if exhaustive:
        pos = list(range(n))
    else:
        pos = sorted(set([0, 1, n - 2, n - 1] + rng.sample(range(n), limit - 4)))
    letters = list("txpTXP") + ["o", "c"]
    out = [""]
    toks = [e[0] for inv in plan.base["invs"] for e in inv if e[0] not in "!?"]
    digits = "0123" if fam == "t3" and not any(t in NOSTATUS for t in toks) else ""
    for p in pos:
        for l in letters:
            for b in (1, 2, 3, 4):
                if l in "oc" and b not in (1, 3) and not ck.thorough:
                    continue
                if l in "TXP" and b in (2, 4) and not ck.thorough:
                    continue
                out.append("a" * p + l * b)
        # two bursts within the budget, two answered exchanges apart (same or neighbouring primitive call /
        # ISO-DEP block): the retry budget is per call and per block
        out += ["a" * p + "ttaatt", "a" * p + "xTaaXt", "a" * p + "taat"]
        if fam == "t3":
            # cut answers; commands without status flags (request response / system code, search service)
            # parse the remainder themselves (C08), only the header cuts are injected there
            for l in ("01" if toks[p] in NOSTATUS else "0123"):
                out.append("a" * p + l)
    # double and triple faults at different positions (every pair / triple of positions when the operation is
    # short, sampled otherwise), classes mixed, command lost / answer lost mixed
    pairs = [(p, q) for p in range(n) for q in range(p + 1, n + 2)]
    if len(pairs) > (60 if ck.thorough else 10):
        pairs = rng.sample(pairs, 60 if ck.thorough else 10)
    for p, q in pairs:
        for l1, l2 in (("t", "x"), ("T", "t"), ("x", "P"), ("tt", "X"), ("p", "tt")):
            sc = "a" * p + l1
            out.append(sc + "a" * max(0, q - len(sc)) + l2)
    for _ in range(24 if ck.thorough else 6):
        ps = sorted(rng.sample(range(n + 3), 3))
        sc = ""
        for p in ps:
            sc += "a" * max(0, p - len(sc)) + rng.choice(["t", "x", "T", "X", "p", "tt", "xx", "tX"])
        out.append(sc)
    # trains of short bursts (each within the budget, separated by answers): all of them must be absorbed
    for _ in range(40 if ck.thorough else 10):
        sc, at = "", 0
        for _ in range(rng.randrange(2, 6)):
            gap = rng.randrange(2, max(3, min(n, 12)))
            sc += "a" * gap + "".join(rng.choice("txTX") for _ in range(rng.randrange(1, 3)))
        out.append(sc[2:] if rng.random() < 0.3 else sc)
    # mixed and scattered scripts
    for _ in range(30 if ck.thorough else 6):
        ln = rng.randrange(1, min(n + 6, 40))
        out.append("".join(rng.choice("aaaaatxpTXP" + (digits if rng.random() < 0.2 else "")
                                      + ("oc" if rng.random() < 0.15 else "")) for _ in range(ln)))
    return out, exhaustive


def finding_key(kind, op, name, script, invs):
    fam = family(kind)
    toks = [e[0] for inv in invs for e in inv if e[0] != "!"]
    if name == "RuntimeError" and fam in ("t1", "t2") and any(c in script for c in "ocOC"):
        # the open finding is exactly: transceive() has used up its attempts and the last one failed with a
        # CommunicationError class it does not know.  A RuntimeError from anywhere else gets its own key.
        calls = [[e for e in inv if e[0] not in "!?"] for inv in invs]
        calls = [c for c in calls if c]
        if calls and calls[-1][-1][1] in "ocOC" and all(e[1] not in "a0123" for e in calls[-1]):
            return "t1t2-unknown-commerror-runtimeerror"
    if name == "UnboundLocalError" and fam == "t3" and any(c in script for c in "ocOC"):
        return "t3-unknown-commerror-unbound"
    if name in ("IndexError", "struct.error") and fam == "t3" and any(c in script for c in "0123"):
        return "t3-short-response-internal"
    if name == "TypeError" and fam == "t3" and op == "write":
        return "t3-write-after-failed-attribute-read"
    if name == "AssertionError" and fam == "t2" and "s2" in toks:
        return "t2-sector-select-assert"
    if name in ("BrokenLinkError", "CommunicationError") and fam == "t4":
        return "t4-unknown-commerror-raw"
    if name == "RuntimeError" and kind in ("lite", "lites") and op not in ("rdmac", "wrmac"):
        # read_with_mac / write_with_mac reached through the NDEF accessors of the tag object without a session key
        return "lite-ndef-access-without-session-key"
    if name == "AttributeError" and kind == "ulev1" and op in ("protect", "protectpw", "protectrd"):
        return "ulev1-protect-attributeerror"
    return "%s-%s-raises-%s" % (fam, op, name)


CLASS_ERRNO = {"t": 0, "T": 0, "m": 0, "x": -1, "X": -1, "p": -2, "P": -2}


def oracle_outcome(ck, kind, op, script, out, invs, what, replay, after_gone=False, sticky=None):
    """documented result or TagCommandError with the matching reason code"""
    fam = family(kind)
    if out.startswith("exc "):
        name = out[4:]
        if not name.startswith("TagCommandError("):
            ck.fail(finding_key(kind, op, name, script, invs), what + "raises " + name, replay)
        else:
            errno = int(name[16:-1])
            if op in NORAISE:
                ck.fail("%s-raises-tagcommanderror" % op, what + "raises TagCommandError(%d), documented is %s" % (errno, NORAISE[op]), replay)
            last = [e for inv in invs for e in inv if e[0] not in "!?"]
            # the tag object has given up before (Type 2 target gone: TIMEOUT_ERROR, ISO-DEP: the stored code)
            given_up = (after_gone and errno == 0) or (sticky is not None and errno == sticky)
            if errno <= 0 and last:
                want = CLASS_ERRNO.get(last[-1][1])
                if want is None and fam in ("t3", "t4") and last[-1][1] in "ocOC":
                    want = -1          # repaired tt3/tt4: unknown class reported as RECEIVE_ERROR
                if last[-1][1] == "a" and fam == "t2" and last[-1][0].startswith("r") and after_gone:
                    want = -1          # READ answered with NAK and the tag not found again: RECEIVE_ERROR
                if want != errno and not given_up:
                    ck.fail("reason-code-mismatch", what + "TagCommandError(%d) after last attempt '%s'" % (errno, last[-1][1]), replay)
            elif errno <= 0 and not last and not given_up:
                ck.fail("error-without-exchange", what + "TagCommandError(%d) although no command was sent" % errno, replay)
    else:
        if out[3:] not in DOCUMENTED[op]:
            ck.fail("undocumented-result", what + "returns " + out[3:], replay)


def wrong_data_counts(invs):
    """NDEF data that differs from the tag content is a failure when it was read in this operation (not handed out from
    the cache) - except when the second SECTOR SELECT frame was lost and the reader saw a timeout: the tag acknowledges that
    frame by silence, a lost frame cannot be told from an acknowledged one and the following READs are answered from the
    old sector (inherent in the Type 2 Tag protocol)"""
    ex = [e for inv in invs for e in inv if e[0] not in "!?"]
    return bool(ex) and not any(e[0] == "s2" and e[1] == "t" for e in ex)


def lost_sector_select(invs):
    """the second SECTOR SELECT frame did not reach the tag and the reader saw the timeout it takes for the acknowledge:
    from here on tag and tag object disagree about the sector, the answers of the tag are those of another sector
    (inherent in the protocol; outside the model, whose command sequences are those of the fault-free run)"""
    return any(e[0] == "s2" and e[1] == "t" for inv in invs for e in inv if e[0] not in "!?")


def garbled_sector_select(invs):
    """the second SECTOR SELECT frame reached the tag (which has switched the sector) but the reader saw a transmission
    or protocol error instead of the silence that acknowledges it: sector_select() raises - what it leaves in the tag
    object decides whether the next command goes to the right sector"""
    return any(e[0] == "s2" and e[1] in "XPOC" for inv in invs for e in inv if e[0] not in "!?")


SECTOR_KEPT = "t2-sector-kept-after-garbled-select"


def oracle_calls(ck, kind, op, invs, raws, nret, what, replay):
    """per primitive call: budget, nothing after an answer, one command; answered writes are not sent again"""
    fam = family(kind)
    for inv in invs:
        ex = [e for e in inv if e[0] not in "!?"]
        if not ex:
            continue
        if fam == "t4":
            bound = 1 if op == "present" else nret + 2
        else:
            bound = 1 if ex[0][0] == "s2" else BUDGET
        if len(ex) > bound:
            ck.fail("retry-budget-exceeded", what + "%d exchanges in one call of the primitive (%s)" % (len(ex), ex[0][0]), replay)
        answered = [i for i, e in enumerate(ex) if e[1] in "a0123"]
        if fam == "t4":
            # R(NAK) answered by R(ACK) is followed by the retransmission of the I-block; the I-block itself is final
            answered = [i for i in answered if ex[i][0] != "nak"]
        if answered and answered[0] != len(ex) - 1:
            ck.fail("command-resent-after-answer", what + "%s sent again after it was answered" % ex[0][0], replay)
        if len({e[0] for e in ex if e[0] not in ("nak",)}) > 1:
            ck.fail("primitive-mixed-commands", what + "one primitive call sent different commands %s" % ex, replay)
    # a state-changing command that was answered is not sent again by the next call of the primitive
    prev = None
    for inv, raw in zip(invs, raws):
        ex = [e for e in inv if e[0] not in "!?"]
        if not ex:
            continue
        tok = ex[0][0]
        if prev is not None and prev == raw and (tok[0] in "wW" or tok.startswith("up")):
            ck.fail("write-repeated-after-answer", what + "write command %s was answered and is sent again" % tok, replay)
        prev = raw if ex[-1][1] == "a" else None


def oracle(ck, plan, script, r, senses=""):
    """the property on one real run"""
    kind, op = plan.kind, plan.op
    fam = family(kind)
    replay = {"kind": kind, "op": op, "script": script, "senses": senses, "outcome": r["out"], "log": show_log(r["invs"])}
    what = "%s %s under fault script '%s'%s: " % (kind, op, script, (" sense results '%s'" % senses) if senses else "")
    out = r["out"]
    oracle_outcome(ck, kind, op, script, out, r["invs"], what, replay, after_gone="0" in r["sensed"])
    if r["blind"]:
        ck.fail("exchange-without-target", what + "clf.exchange() called %d time(s) after the frontend had lost its target" % r["blind"], replay)
    if r["stale"]:
        ck.fail("t4-stale-answer", what + "answer %s accepted for command %s which the card has not executed"
                % (r["stale"][0][1].hex() if r["stale"][0][1] else None, r["stale"][0][0].hex()), replay)
    if r["wrong"] is not None and wrong_data_counts(r["invs"]):
        ck.fail("ndef-data-not-from-tag", what + "returns NDEF data %s.. which the tag does not hold" % r["wrong"][:12].hex(), replay)
    if kind not in L3ONLY:
        oracle_calls(ck, kind, op, r["invs"], r["invraw"], r["nret"], what, replay)
    # a train of bursts, each within the budget and separated by two answers, is invisible
    runs = re.findall(r"[^a]+", script)
    base_toks = [e[0] for inv in plan.base["invs"] for e in inv if e[0] != "!"]
    base_mute = any(e[1] == "m" and e[0] != "s2" for inv in plan.base["invs"] for e in inv if e[0] != "!")
    lim = min(2, r["nret"]) if fam == "t4" else 2
    if (len(runs) >= 2 and set(script) <= set("atxTX") and all(len(x) <= lim for x in runs) and not senses
            and not re.search(r"[^a]a[^a]", script) and "s2" not in base_toks and not (fam == "t4" and op == "present") and not base_mute
            and not any(a.startswith("!") for _, a in steps_of(kind, plan.base))):
        if out != plan.base["out"] or r["mem"] != plan.base["mem"]:
            ck.fail("transient-error-not-absorbed", what + "bursts within the retry budget change the result to %s (fault-free: %s)"
                    % (out, plan.base["out"]), replay)
    # a burst within the budget is invisible
    body = script.lstrip("a")
    absorb = min(2, r["nret"]) if fam == "t4" and op != "present" else 2
    if body and len(body) <= absorb and len(set(body)) == 1 and body[0] in "txpTXP" and len(script) - len(body) < plan.n and not senses:
        target = None
        once = False
        idx = 0
        mute = False
        for inv, raw in zip(plan.base["invs"], plan.base["invraw"]):
            for e in inv:
                if e[0] not in "!?":
                    if idx == len(script) - len(body):
                        target = e[0]
                        mute = any(x[1] == "m" for x in inv if x[0] != "!")
                        once = hasattr(plan.base["sim"], "once") and raw is not None and plan.base["sim"].once(raw) is not None
                    idx += 1
        # by design: the unacknowledged second SECTOR SELECT frame, ISO-DEP protocol errors, and a command the
        # tag accepts only once whose answer was lost (the retry is refused by the tag)
        by_design = target == "s2" or mute or (fam == "t4" and body[0] in "pP") or (once and body[0] in "TXP")
        if not by_design and (out != plan.base["out"] or r["mem"] != plan.base["mem"]):
            key = "t4-presence-check-not-retried" if (fam == "t4" and op == "present") else "transient-error-not-absorbed"
            ck.fail(key, what + "a burst of %d at command %s changes the result to %s (fault-free: %s)"
                    % (len(body), target, out, plan.base["out"]), replay)


def norm_t1(s):
    """Type 1 write tokens of the model carry the address, the simulator logs (kind, address)"""
    return s.replace("w?", "we").replace("W?", "We").replace("wn", "we").replace("Wn", "We")


def same_line(fam, real, rep):
    if fam != "t1":
        return real == rep
    a, b = real.split(" # "), rep.split(" # ")
    if len(a) != len(b):
        return False
    if len(a) < 3:
        return a == b
    return a[:2] == b[:2] and norm_t1(a[2]) == norm_t1(b[2]) and a[3:] == b[3:]


# ------------------------------------------------------------------ sessions
# operations of a session: name -> (evaluates tag.ndef first, result when that is None, True clears the NDEF cache,
#                                   changes the tag content, command sequence depends on the tag content)
def session_ops(kind):
    fam = family(kind)
    if fam == "t4":
        return {"ndef": (1, "none", 0, 0, 1), "write": (1, "none", 0, 1, 0), "write2": (1, "none", 0, 1, 0),
                "present": (0, "none", 0, 0, 0), "dump": (1, "list", 0, 0, 1), "format": (1, "false", 1, 0, 0),
                "formatw": (1, "false", 1, 1, 0), "apdu": (0, "none", 0, 0, 0)}
    if fam == "t2":
        d = {"ndef": (1, "none", 0, 0, 1), "write": (1, "none", 0, 1, 1), "present": (0, "none", 0, 0, 0),
             "dump": (0, "none", 0, 0, 0), "rd4": (0, "none", 0, 0, 0), "wr5": (0, "none", 0, 1, 0)}
        if kind not in ("t2big", "nt3h"):
            d["rdend"] = (0, "none", 0, 0, 0)
        else:
            d["sel1"] = (0, "none", 0, 0, 0)      # several sectors: the selected sector is state of the tag object
        if kind in ("t2", "ul", "ulc"):
            d["format"] = (1, "false", 1, 1, 1)
        if kind in ("t2", "ul"):
            d["protect"] = (1, "false", 1, 1, 1)
        if kind in NTAG21X:
            d["sig"] = (0, "none", 0, 0, 0)
            d["auth"] = (0, "none", 1, 0, 0)
        if kind == "ulc":
            d["auth"] = (0, "none", 1, 0, 0)
        if kind in ("ulc", "ntag213", "ntag210"):
            d["protectpw"] = (0, "none", 1, 1, 0)
        return d
    # Type 1 / Type 3: no link state in the tag object, only the NDEF cache
    # (Type 1 dump() inverts and restores every block of a dynamic tag to find the end of memory: it changes content;
    # a Type 3 write sends the same commands whatever the tag holds)
    if fam == "t1":
        return {"ndef": (1, "none", 0, 0, 1), "write": (1, "none", 0, 1, 1), "present": (0, "none", 0, 0, 0),
                "dump": (0, "none", 0, 1, 0), "rbyte": (0, "none", 0, 0, 0), "wbyte": (0, "none", 0, 1, 0)}
    return {"ndef": (1, "none", 0, 0, 1), "write": (1, "none", 0, 1, 0), "present": (0, "none", 0, 0, 0),
            "dump": (0, "none", 0, 0, 0), "rdsvc": (0, "none", 0, 0, 0)}


# sessions compared with the model; not: tags with several sectors (the selected sector is state of the tag object the
# command sequences depend on), FeliCa Lite (the system code the tag object has polled for is such state)
SESSION_TIED = {"t2", "ul", "ulc", "ntag203", "ntag213", "ntag210", "t4", "t4b", "t4slow",
                "t1s", "t1d", "topaz", "topaz512", "t3", "t3std"}


def fatal_scripts(kind, nret, n, rng, thorough):
    """scripts for the first operation of a session: at a few positions a persisting error of each class (command
    lost / answer lost), a transient one, an unknown class"""
    fam = family(kind)
    if n == 0:
        return [""]
    pos = sorted(set([0, n - 1] + rng.sample(range(n), min(n, 3 if thorough else 1))))
    burst = nret + 2 if fam == "t4" else BUDGET
    out = [""]

    def persist(l):
        return l * (1 if (fam == "t4" and l in "pP") else burst)
    for p in pos:
        if thorough:
            letters = "txpTXP"
        else:
            # the timeout (reason code 0) always, one other class with the command lost, one with the answer lost
            letters = "t" + rng.choice("xp") + rng.choice("TXP")
        for l in letters:
            out.append("a" * p + persist(l))
        out.append("a" * p + "t")
        if fam == "t4" and (thorough or p == 0):
            out.append("a" * p + "o")
        if thorough:
            out.append("a" * p + "T" + "t" * (burst - 1))
            out.append("a" * p + "X")
    return out


def follow_scripts(n, rng, thorough):
    if n == 0:
        return [""]
    if not thorough:
        return ["", "t", "a" * (n - 1) + rng.choice("TX")]
    out = [""]
    for p in sorted(set([0, n - 1, rng.randrange(n)])):
        out += ["a" * p + "t", "a" * p + rng.choice("TX"), "a" * p + rng.choice(["x", "tt"])]
    return out


def run_sessions(ck, model, cfg, rng, plans):
    from sims import retry_sims as rs
    reqs, reals, meta = [], [], []
    memo = {}

    def plan(kind, op, cached):
        key = (kind, op, cached)
        if key not in memo:
            memo[key] = Plan(kind, op, cached=cached)
        return memo[key]

    for kind in rs.KINDS:
        if kind in L3ONLY:
            continue
        table = session_ops(kind)
        if kind in ("t2big", "nt3h"):
            table = {k: v for k, v in table.items() if k not in ("wr5",)}
        fam = family(kind)
        names = sorted(table)
        try:
            pl_ndef = plan(kind, "ndef", False)
            pl = {op: (plan(kind, op, False), plan(kind, op, True)) for op in names}
        except Exception as e:  # noqa
            ck.fail("tie:session-plan", "%s: the fault-free runs do not have the expected shape: %s: %s" % (kind, type(e).__name__, e),
                    {"kind": kind})
            continue
        try:
            ref_mem = {op: execute(kind, op, "", pre_ndef=True)["mem"] for op in names if table[op][3]}
        except Exception as e:  # noqa
            ck.fail(harness_key(e, fam, "session"), "%s: fault-free reference runs failed: %s: %s" % (kind, type(e).__name__, e), {"kind": kind})
            continue
        seqs = [(a, b) for a in names for b in names]
        if fam in ("t2", "t4"):
            # three operations: cache and link state carried over two boundaries
            third = [x for x in ("ndef", "write", "write2", "present", "dump") if x in table]
            seqs += [(a, b, c) for a in names for b in third for c in third if rng.random() < (0.15 if ck.thorough else 0.08)]
        if kind in ("t2big", "nt3h"):
            seqs = [s for s in seqs if rng.random() < (0.3 if ck.thorough else 0.06)]     # long operations
        elif not ck.thorough and (family(kind) in ("t1", "t3") or kind in SECONDARY):
            seqs = [s for s in seqs if rng.random() < 0.3]
        for ops in seqs:
            n1 = pl[ops[0]][0].n
            firsts = fatal_scripts(kind, pl_ndef.base["nret"], n1, rng, ck.thorough)
            # the tag leaves the field after a NAK: sense results for the first operation that meets one
            naks = [i for i, o in enumerate(ops) if o == "protectpw" or any(a == "n" for _, a in steps_of(kind, pl[o][0].base))]
            for s1 in firsts:
                seconds = follow_scripts(max(pl[ops[1]][0].n, pl[ops[1]][1].n), rng, ck.thorough)
                for s2 in seconds:
                    for se in (["", "0", "10"] if naks else [""]):
                        scripts = [s1, s2] + [""] * (len(ops) - 2)
                        senses = [""] * len(ops)
                        if naks:
                            senses[naks[0]] = se
                        try:
                            one_session(ck, kind, ops, scripts, senses, table, pl, pl_ndef, ref_mem, cfg, reqs, reals, meta)
                        except Exception as e:  # noqa
                            ck.fail(harness_key(e, fam, "session"), "%s session %s scripts %s sense results %s: %s: %s"
                                    % (kind, "+".join(ops), scripts, senses, type(e).__name__, e),
                                    {"kind": kind, "ops": list(ops), "scripts": scripts, "senses": senses})
        # histories: op1 fault-free; op2 fails for good at command k (each class, command lost / answer lost);
        # op3 on a healthy link - what op2 has left half-updated in the tag object (NDEF cache, Type 2 target and
        # sector, ISO-DEP error memory, authentication) must not make op3 end in an undocumented way
        stateful = [o for o in names if table[o][2] or table[o][3] or o in ("auth", "ndef", "sel1")]
        pairs = [(a, b) for a in stateful for b in stateful]
        npairs = (12 if ck.thorough else (2 if kind in ("t2big", "nt3h") else 6))
        if len(pairs) > npairs:
            pairs = rng.sample(pairs, npairs)
        burst = pl_ndef.base["nret"] + 2 if fam == "t4" else BUDGET
        hist = []
        for a, b in pairs:
            n2 = max(pl[b][0].n, pl[b][1].n)
            if n2 == 0:
                continue
            for k in sorted(set([0, n2 - 1] + ([rng.randrange(n2)] if ck.thorough else []))):
                for l in ("txpTXP" if ck.thorough else rng.sample("txpTXP", 3)):
                    sc = "a" * k + l * (1 if (fam == "t4" and l in "pP") else burst)
                    for c in rng.sample(names, min(len(names), 4 if ck.thorough else 2)):
                        hist.append(((a, b, c), sc))
        if "sel1" in table:
            # always: the second SECTOR SELECT packet of op2 lost / garbled in every way, then a read and a write
            for a in ("ndef", "write"):
                for l in "txpTXP":
                    for c in ("ndef", "write", "rd4"):
                        hist.append(((a, "sel1", c), "a" + l * 3))
        for ops, sc in hist:
            scripts, senses = ["", sc, ""], ["", "", ""]
            try:
                one_session(ck, kind, ops, scripts, senses, table, pl, pl_ndef, ref_mem, cfg, reqs, reals, meta)
            except Exception as e:  # noqa
                ck.fail(harness_key(e, fam, "session"), "%s history %s scripts %s: %s: %s"
                        % (kind, "+".join(ops), scripts, type(e).__name__, e),
                        {"kind": kind, "ops": list(ops), "scripts": scripts, "senses": senses})
    replies = model.ask_many(reqs)
    bad = 0
    for (kind, ops, scripts, senses, ntied), req, real, rep in zip(meta, reqs, reals, replies):
        fam = family(kind)
        ra, rb = real.split(" || "), rep.split(" || ")
        same = len(ra) == len(rb) and all(same_line(fam, x, y) for x, y in zip(ra, rb))
        ck.case(("session", kind, ops, tuple(scripts), tuple(senses)), True, "session:%s:%d" % (fam, ntied),
                sample={"kind": kind, "ops": list(ops), "scripts": scripts, "senses": senses, "real": real[:200]})
        if not same:
            bad += 1
            ck.fail("tie:session-model", "%s %s scripts %s senses %s: real %s | model %s" % (kind, "+".join(ops), scripts, senses, real[:400], rep[:400]),
                    {"kind": kind, "ops": list(ops), "scripts": scripts, "senses": senses, "request": req, "real": real, "model": rep})
    ck.tie("session-model", len(reqs), bad, exhaustive=False)


def one_session(ck, kind, ops, scripts, senses, table, pl, pl_ndef, ref_mem, cfg, reqs, reals, meta):
    fam = family(kind)
    res, mem, nret = execute_session(kind, ops, scripts, senses)
    replay = {"kind": kind, "ops": list(ops), "scripts": scripts, "senses": senses,
              "outcomes": [r["out"] for r in res], "log": " / ".join(show_log(r["invs"]) for r in res)}
    what = "%s session %s, fault scripts %s%s: " % (kind, " -> ".join(ops), scripts,
                                                    (", sense results %s" % senses) if any(senses) else "")
    # ---- oracle on the real run
    fatal = None          # ISO-DEP: reason code of the first unrecoverable error
    gone = False
    for i, (op, r) in enumerate(zip(ops, res)):
        w = what + "operation %d (%s) " % (i + 1, op)
        oracle_outcome(ck, kind, op, scripts[i], r["out"], r["invs"], w, replay, after_gone=gone or "0" in r["sensed"], sticky=fatal)
        oracle_calls(ck, kind, op, r["invs"], r["invraw"], nret, w, replay)
        if r["blind"]:
            ck.fail("exchange-without-target", w + "clf.exchange() called %d time(s) after the frontend had lost its target" % r["blind"], replay)
        if r["stale"]:
            ck.fail("t4-stale-answer-after-error" if fatal is not None else "t4-stale-answer",
                    w + "returned the answer %s for command %s which the card has not executed"
                    % (r["stale"][0][1].hex() if r["stale"][0][1] else None, r["stale"][0][0].hex()), replay)
        if r["wrong"] is not None and wrong_data_counts(r["invs"]) and not any(table[o][3] for o in ops[:i]):
            ck.fail(SECTOR_KEPT if any(garbled_sector_select(x["invs"]) for x in res[:i + 1]) else "ndef-data-not-from-tag", w + "returns NDEF data %s.. which the tag does not hold" % r["wrong"][:12].hex(), replay)
        if fam == "t4" and fatal is not None and any(e[0] != "nak" or op != "present" for e in r["frames"]):
            ck.fail("t4-command-after-unrecoverable-error", w + "sent %s after an earlier operation had ended with the unrecoverable error %d"
                    % (" ".join("%s.%s" % e for e in r["frames"][:6]), fatal), replay)
        if gone and r["frames"]:
            ck.fail("t2-command-after-target-gone", w + "sent %s although the re-activation of the tag had failed" %
                    " ".join("%s.%s" % e for e in r["frames"][:6]), replay)
        if fam == "t4" and fatal is None:
            link = [e for e in r["errs"] if e <= 0]
            if link and r["frames"] and r["frames"][-1][1] not in "a0123":
                fatal = link[0]
        if "0" in r["sensed"] and r["sensed"].endswith("0"):
            gone = True
        elif r["sensed"].endswith("1"):
            gone = False
    # a write that reports success is in the tag memory (content changing operations of the session: only writes)
    changing = [(op, r) for op, r in zip(ops, res) if table[op][3]]
    lost_s2 = any(lost_sector_select(r["invs"]) for r in res)
    if changing and all(op in ("write", "write2") for op, _ in changing) and not lost_s2:
        op, r = changing[-1]
        if r["out"] == "ok unit" and mem != ref_mem[op]:
            garbled = any(garbled_sector_select(x["invs"]) for x in res)
            ck.fail(SECTOR_KEPT if garbled else "write-reported-success-not-applied",
                    what + "%s returned normally but the tag does not hold the data%s" % (
                        op, " (sector_select() had failed on a garbled acknowledge after the tag switched the sector; the tag "
                        "object still assumes the old sector and the commands went to the other one)" if garbled else ""), replay)
    if kind not in SESSION_TIED or lost_s2:
        ck.case(("session", kind, ops, tuple(scripts), tuple(senses)), True, "session-oracle:%s" % fam)
        return
    # ---- the part of the session the model covers: no operation whose command sequence depends on the tag
    # content after an operation that may have changed it
    ntied, changed, cached = 0, False, False
    for op, r in zip(ops, res):
        uses, noneval, clears, changes, depends = table[op]
        reads = uses and not cached          # tag.ndef is evaluated without a cached object: the NDEF data is read
        if changed and (reads or (depends and op != "ndef")):
            break
        ntied += 1
        if uses:
            cached = r["out"] != "ok " + ("none" if op == "ndef" else noneval) if reads else True
            if op == "ndef":
                cached = r["out"] == "ok ndef"
        if clears and r["out"] == "ok true":
            cached = False
        changed = changed or bool(changes)
    script = "".join(r["used"] for r in res[:ntied])
    sens = "".join(r["sensed"] for r in res[:ntied])
    specs = []
    for op in ops[:ntied]:
        uses, noneval, clears = table[op][0], table[op][1], table[op][2]
        specs.append("%d/%s/%d/%s/%s" % (uses, noneval, clears, pl[op][0].spec(), pl[op][1].spec()))
    reqs.append("sess %s %d %s %s %s %s" % (cfg, nret, script or "-", sens or "-", pl_ndef.spec(), " ".join(specs)))
    lines = ["%s # %s # %s # %s" % (r["out"], show_log(r["invs"]), ",".join(applied_tokens(kind, r["applied"])) or "-", r["flags"])
             for r in res[:ntied]]
    reals.append(" || ".join(lines + ["end # " + res[ntied - 1]["flags"]]))
    meta.append((kind, ops, scripts, senses, ntied))


# ------------------------------------------------------------------ histories: object state left by a failed operation
# op1 (fault-free) ; op2 failing at command k with a burst of each class ; op3 on a healthy link - all on ONE tag object.
# FeliCa Lite / Lite-S carry a session in the tag object (session key, _authenticated, which accessors the NDEF object
# uses, NDEF cache, polled system code): their histories are compared with Model/RetryObj.lean operation by operation,
# object state included; the histories of every other class go through the session machinery above.
LITE_KINDS = ("lite", "lites")
LITE_T12 = ["ndef", "changed", "auth0", "auth", "present", "rdsvc", "dump"]      # neither changes nor depends on changed content
LITE_T3 = LITE_T12 + ["write", "wrsvc", "format", "protect"]                              # content changing: tied as last operation only
LITE_ORACLE = LITE_T3 + ["formatw", "protectpw"]                       # judged by the oracle in every place


def lite_obj(tag):
    """what the tag object remembers, as the model prints it"""
    import nfc.tag.tt3_sony as ts
    rd = getattr(tag.read_from_ndef_service, "__func__", None) is ts.FelicaLite.read_with_mac
    wr = getattr(tag.write_to_ndef_service, "__func__", None) is ts.FelicaLiteS.write_with_mac
    return "o%d%d%d%d%d%d" % (tag._sk is not None and tag._iv is not None, bool(tag._authenticated), rd, wr,
                              tag._ndef is not None, tag.sys == 0x12FC)


def res_steps(kind, r, sim):
    """steps_of for one operation of a session"""
    return steps_of(kind, {"invs": r["invs"], "invraw": r["invraw"], "sim": sim})


class LiteCmds(object):
    """command sequences of the fault-free runs of one FeliCa Lite kind in the two reachable accessor states
    (P: without MAC, M: after a successful authenticate), as the 19 phases of RetryObj.Cmds"""

    def __init__(self, kind):
        from sims import retry_sims as rs
        sim = rs.build(kind)[0]

        def run(ops):
            res, _, _ = execute_session(kind, ops, [""] * len(ops), [""] * len(ops))
            for op, r in zip(ops, res):
                if not r["out"].startswith("ok "):
                    raise RuntimeError("fault-free %s of %s ends with %s" % (op, "+".join(ops), r["out"]))
            return [res_steps(kind, r, sim) for r in res]

        def split_read(steps):
            poll = [st for st in steps if st[0] == "po"]
            rest = [st for st in steps if st[0] != "po"]
            mc = rest[1:2] if len(rest) > 1 and rest[1][0] == "r136" else []
            return poll, rest[:1], mc, rest[1 + len(mc):]

        p = run(["ndef", "write"])
        poll, rda, rdm, rdd = split_read(p[0])
        _, wa, wm, ww = split_read(p[1])
        m = run(["auth0", "ndef", "write"])
        na = 2
        poll2, mrda, mrdm, mrdd = split_read(m[1])
        _, mwa, mwm, mww = split_read(m[2])
        if poll != poll2 or len(poll) != 1:
            raise RuntimeError("unexpected polling %s / %s" % (poll, poll2))
        self.phases = [poll, rda, rdm, rdd, mrda, mrdm, mrdd, wa, wm, ww, mwa, mwm, mww,
                       run(["rdsvc"])[0], run(["auth0", "rdsvc"])[1], run(["wrsvc"])[0], run(["auth0", "wrsvc"])[1],
                       m[0][:na], m[0][na:]]
        pr = run(["ndef", "protect"])[1]          # NDEF object cached: mc read, attribute block read and write, mc write
        if [t for t, _ in pr] != ["r136", "r0", "w0", "w136"]:
            raise RuntimeError("unexpected protect() commands %s" % pr)
        self.phases += [pr[:1], pr[1:3], pr[3:]]
        # the writes of Lite (no write with MAC) are the same in both states: the model picks by the installed accessor
        if kind == "lite":
            self.phases[12] = self.phases[9]
            self.phases[16] = self.phases[15]
        self.enc = enc(self.phases)
        self.plain = {}
        for op, clears in (("present", 0), ("dump", 0), ("format", 1)):
            self.plain[op] = "plain/%d/%s" % (clears, Plan(kind, op).spec())

    def token(self, op):
        if op in self.plain:
            return self.plain[op]
        return {"auth0": "auth/1/1", "auth": "auth/0/0"}.get(op, op)


def burst_scripts(n, rng, positions, bursts=(1, 2, 3, 4), letters="txpTXP", extra=True):
    out = []
    for k in positions:
        for l in letters:
            for b in bursts:
                out.append("a" * k + l * b)
        if extra:
            out += ["a" * k + "ooo", "a" * k + "c", "a" * k + rng.choice("0123"), "a" * k + "tXp", "a" * k + "Txt"]
    return out


def run_lite_histories(ck, model, cfg, rng):
    from sims import retry_sims as rs
    reqs, reals, meta = [], [], []
    state_fails = []      # white-box findings are reported after the application-visible ones
    for kind in LITE_KINDS:
        try:
            lc = LiteCmds(kind)
            sim0 = rs.build(kind)[0]
        except Exception as e:  # noqa
            ck.fail("tie:history-plan", "%s: the fault-free runs do not have the expected shape: %s: %s" % (kind, type(e).__name__, e), {"kind": kind})
            continue
        nmemo = {}

        def count(op1, op2):
            if (op1, op2) not in nmemo:
                res, _, _ = execute_session(kind, [op1, op2], ["", ""], ["", ""])
                nmemo[(op1, op2)] = len(res[1]["frames"])
            return nmemo[(op1, op2)]

        cases = []
        for op1 in LITE_ORACLE:
            for op2 in LITE_ORACLE:
                n = count(op1, op2)
                if n == 0:
                    continue
                tied = op1 in LITE_T12 and op2 in LITE_T12
                stateful = op2 in ("auth0", "auth", "protectpw")
                if ck.thorough and tied and (op2 != "dump"):
                    pos, third = list(range(n)), LITE_T3
                    scripts = burst_scripts(n, rng, pos)
                elif stateful:
                    # the operations that change the session: every position, every class, bursts below and above the budget
                    pos = list(range(n)) if n <= 6 else sorted(set([0, 1, n - 1] + rng.sample(range(n), 3)))
                    scripts = burst_scripts(n, rng, pos, bursts=(1, 3) if not ck.thorough else (1, 2, 3, 4), extra=ck.thorough)
                    third = (LITE_T3 if tied else LITE_ORACLE)
                    if not ck.thorough:
                        third = rng.sample(third, 2)
                else:
                    pos = sorted(set([0, n - 1, rng.randrange(n)]))
                    scripts = burst_scripts(n, rng, pos, bursts=(3,), letters=rng.sample("txpTXP", 2 if not ck.thorough else 4), extra=False)
                    scripts.append("a" * rng.randrange(n) + rng.choice("tx") * rng.choice((1, 2, 4)))
                    third = rng.sample(LITE_T3 if tied else LITE_ORACLE, 2 if not ck.thorough else 4)
                    if not ck.thorough and not tied and rng.random() < 0.5:
                        continue
                for sc in scripts:
                    for op3 in third:
                        cases.append(((op1, op2, op3), sc, tied))
        for ops, sc, tied in cases:
            scripts = ["", sc, ""]
            replay = {"kind": kind, "ops": list(ops), "scripts": scripts}
            try:
                res, mem, _ = execute_session(kind, ops, scripts, ["", "", ""], probe=lite_obj)
            except Exception as e:  # noqa
                ck.fail(harness_key(e, "t3", "history"), "%s history %s scripts %s: %s: %s" % (kind, " -> ".join(ops), scripts, type(e).__name__, e), replay)
                continue
            replay["outcomes"] = [r["out"] for r in res]
            replay["log"] = " / ".join(show_log(r["invs"]) for r in res)
            replay["object"] = [r["obj"] for r in res]
            what = "%s history %s, fault scripts %s: " % (kind, " -> ".join(ops), scripts)
            try:
                for i, (op, r) in enumerate(zip(ops, res)):
                    w = what + "operation %d (%s) " % (i + 1, op)
                    oracle_outcome(ck, kind, op, scripts[i], r["out"], r["invs"], w, replay)
                    oracle_calls(ck, kind, op, r["invs"], r["invraw"], 0, w, replay)
                    ob = r["obj"]
                    if (ob[3] == "1" or ob[4] == "1") and ob[1] == "0":
                        state_fails.append(("lite-mac-accessor-without-session-key", w + "leaves read_with_mac / write_with_mac installed as NDEF "
                                            "service accessor although the tag object has no session key (object state %s)" % ob, replay))
                    if i == 2 and op not in ("auth0", "auth", "protectpw", "format", "formatw", "protect", "wrsvc") and \
                            res[1]["out"].startswith("exc ") and r["out"].startswith("exc TagCommandError(") and \
                            int(r["out"][20:-1]) <= 0:
                        # the link is healthy again: a link error code has no cause
                        ck.fail("link-error-on-healthy-link", w + "ends with %s although every command was answered" % r["out"][4:], replay)
            except Exception as e:  # noqa
                ck.fail(harness_key(e, "t3", "history"), what + "%s: %s" % (type(e).__name__, e), replay)
                continue
            if not tied or ops[2] not in LITE_T3:
                ck.case(("history", kind, ops, sc), True, "history-oracle:%s" % kind)
                continue
            script = "".join(r["used"] for r in res)
            reqs.append("hist %s 1 %d %s %s %s" % (cfg, 1 if kind == "lites" else 0, script or "-", lc.enc, " ".join(lc.token(o) for o in ops)))
            lines = ["%s # %s # %s # %s # %s" % (r["out"], show_log(r["invs"]), ",".join(applied_tokens(kind, r["applied"])) or "-", r["flags"], r["obj"])
                     for r in res]
            reals.append(" || ".join(lines + ["end # " + res[-1]["flags"]]))
            meta.append((kind, ops, sc))
    for key, what, replay in state_fails[:20]:
        ck.fail(key, what, replay)
    replies = model.ask_many(reqs)
    bad = 0
    for (kind, ops, sc), req, real, rep in zip(meta, reqs, reals, replies):
        ck.case(("history", kind, ops, sc), True, "history:%s:%s" % (kind, ops[1]),
                sample={"kind": kind, "ops": list(ops), "script": sc, "real": real[:240]})
        if real != rep:
            bad += 1
            ck.fail("tie:history-model", "%s %s script '%s': real %s | model %s" % (kind, "+".join(ops), sc, real[:500], rep[:500]),
                    {"kind": kind, "ops": list(ops), "script": sc, "request": req, "real": real, "model": rep})
    ck.tie("history-model", len(reqs), bad, exhaustive=False)



def harness_key(e, fam, op):
    """an exception that escaped from the code under test into the harness (outside the operation itself) is a failing
    input; one raised by the harness' own bookkeeping means the correspondence can no longer be established"""
    import traceback
    import os
    tb = traceback.extract_tb(e.__traceback__)
    inner = tb[-1].filename if tb else ""
    if os.sep + "nfc" + os.sep in inner:
        return "%s-%s-setup-raises-%s" % (fam, op, exc_name(e).split("(")[0])
    return "tie:harness-%s" % type(e).__name__


# ------------------------------------------------------------------ the check
def run(ck):
    ck.tables("TablesTag")   # T-tie for constants: source tables re-extracted, bridge theorems re-proved
    ck.lean("NfcVerif.Props.C16", THEOREMS)
    model = Model("drv_c16")
    from sims import retry_sims as rs
    rng = ck.rng
    fast_des()
    try:
        cfg = probe_cfg()
    except Exception as e:  # noqa
        ck.fail("tie:probe", "probing the tree under test failed: %s: %s" % (type(e).__name__, e), {})
        cfg = "111111"
    ck.notes.append("tree under test: F17 %s, F31(Type 3) %s, F32 %s, sector-select assert %s, ISO-DEP unknown CommunicationError %s"
                    % tuple("repaired" if b == "1" else "as found" for b in cfg[:5]))
    ck.notes.append("tt1.read_tlv catches the command error for %s" % ("the whole TLV (C08 repair)" if cfg[5] == "1" else "the first TLV byte only"))
    reqs, reals, meta = [], [], []
    plans = {}
    exhaustive_all = True
    for kind in rs.KINDS:
        for op in ops_of(kind):
            try:
                plan = Plan(kind, op)
            except Exception as e:  # noqa
                ck.fail("tie:plan", "%s %s: the fault-free run does not have the expected shape: %s: %s" % (kind, op, type(e).__name__, e),
                        {"kind": kind, "op": op})
                continue
            plans[(kind, op)] = plan
            if plan.base["out"].startswith("exc ") and not plan.base["out"].startswith("exc TagCommandError("):
                ck.fail(finding_key(kind, op, plan.base["out"][4:], "", plan.base["invs"]),
                        "%s %s without any fault raises %s" % (kind, op, plan.base["out"][4:]),
                        {"kind": kind, "op": op, "script": "", "outcome": plan.base["out"], "log": show_log(plan.base["invs"])})
                ck.case((kind, op, ""), False, "fault-free-failure:" + family(kind))
                continue
            if plan.n == 0:
                # no command is sent: only the result class is checked
                if plan.value not in DOCUMENTED[op]:
                    ck.fail("undocumented-result", "%s %s returns %s" % (kind, op, plan.base["out"]), {"kind": kind, "op": op})
                ck.case((kind, op, ""), False, "noop:" + family(kind))
                continue
            scripts, exhaustive = scripts_for(ck, plan, rng)
            exhaustive_all = exhaustive_all and exhaustive
            nak = any(a == "n" for _, a in steps_of(kind, plan.base)) or op in ("protectpw", "protectrd")
            for script in scripts:
                for senses in (["", "0", "10"] if (nak and len(script.strip("a")) <= 1) else [""]):
                    try:
                        r = execute(kind, op, script, senses=senses)
                        oracle(ck, plan, script, r, senses)
                    except Exception as e:  # noqa
                        # the run could not be set up or judged (activation or the fault-free prelude failed, a log of
                        # unexpected shape): the code under test behaves in a way the harness does not know
                        ck.fail(harness_key(e, family(kind), op), "%s %s under fault script '%s' sense results '%s': %s: %s"
                                % (kind, op, script, senses, type(e).__name__, e), {"kind": kind, "op": op, "script": script, "senses": senses})
                        continue
                    if kind in L3ONLY:
                        ck.case((kind, op, script), bool(script.strip("a")), "oracle-only:%s:%s" % (kind, op))
                        continue
                    if lost_sector_select(r["invs"]):
                        ck.case((kind, op, script), True, "oracle-only:lost-sector-select")
                        continue
                    reqs.append(plan.request(cfg, script, r["sensed"]))
                    reals.append("%s # %s # %s # %s" % (r["out"], show_log(r["invs"]),
                                                        ",".join(applied_tokens(kind, r["applied"])) or "-", r["flags"]))
                    meta.append((kind, op, script, senses))
    replies = model.ask_many(reqs)
    bad = 0
    for (kind, op, script, senses), req, real, rep in zip(meta, reqs, reals, replies):
        fam = family(kind)
        same = same_line(fam, real, rep)
        body = script.lstrip("a")
        nontrivial = bool(body) or bool(senses)
        ck.case((kind, op, script, senses), nontrivial, "%s:%s" % (fam, op),
                sample={"kind": kind, "op": op, "script": script, "senses": senses, "real": real[:160]})
        if not same:
            bad += 1
            ck.fail("tie:retry-model", "%s %s script '%s' senses '%s': real %s | model %s" % (kind, op, script, senses, real[:300], rep[:300]),
                    {"kind": kind, "op": op, "script": script, "senses": senses, "request": req, "real": real, "model": rep})
    ck.tie("retry-model", len(reqs), bad, exhaustive=False)
    ck.notes.append("single faults (position x class x lost command / lost answer x burst 1..4) cover %s exchange position of every operation"
                    % ("every" if exhaustive_all else "every position of the operations with at most %d exchanges and first / last / sampled positions of the longer ones"
                       % (48 if ck.thorough else 12)))

    try:
        run_sessions(ck, model, cfg, rng, plans)
    except Exception as e:  # noqa
        import traceback
        tb = traceback.extract_tb(e.__traceback__)
        ck.fail("tie:session-aborted", "the session run could not be completed: %s: %s (%s)" % (
            type(e).__name__, e, "; ".join("%s:%d" % (f.filename.split("/")[-1], f.lineno) for f in tb[-4:])), {})

    try:
        run_lite_histories(ck, model, cfg, rng)
    except Exception as e:  # noqa
        import traceback
        tb = traceback.extract_tb(e.__traceback__)
        ck.fail("tie:history-aborted", "the history run could not be completed: %s: %s (%s)" % (
            type(e).__name__, e, "; ".join("%s:%d" % (f.filename.split("/")[-1], f.lineno) for f in tb[-4:])), {})

    # activation under faults (tag/__init__.py:444-461): a tag object or None, never an exception
    import nfc.tag
    for kind in rs.KINDS:
        try:
            sim0, air0, tag0 = rs.build(kind)
        except Exception as e:  # noqa
            ck.fail("activation-raises", "%s activation without any fault: %s: %s" % (kind, type(e).__name__, e), {"kind": kind, "script": ""})
            continue
        if tag0 is None:
            ck.fail("activation-fails", "%s is not activated although nothing goes wrong" % kind, {"kind": kind, "script": ""})
            continue
        n = len(air0.raw)
        nsense = len(air0.sensed)
        cases = [("a" * p + l * b, "") for p in range(n) for l in "txpoc" for b in (1, 2)]
        # the tag is not found again by one of the clf.sense() calls of the activation
        cases += [(sc, "1" * k + "0") for k in range(nsense + 1) for sc in ([""] + ["a" * p + "t" for p in range(n)])]
        for script, senses in cases:
            sim = type(sim0).__new__(type(sim0))
            sim.__dict__.update({k: (bytearray(v) if isinstance(v, bytearray) else v) for k, v in sim0.__dict__.items()})
            air = rs.Air(sim)
            air.arm(script, senses)
            try:
                with virtual_time(air.clock):
                    t = nfc.tag.activate(air, sim.target)
                res = "tag" if isinstance(t, nfc.tag.Tag) else classify(t)
            except Exception as e:  # noqa
                res = "exc " + exc_name(e)
            ck.case(("activate", kind, script, senses), True, "activate:" + family(kind))
            if res not in ("tag", "none"):
                ck.fail("activation-raises", "%s activation with script '%s' sense results '%s': %s" % (kind, script, senses, res),
                        {"kind": kind, "script": script, "senses": senses})
            elif any(e[0] == "?" for e in air.log if e != "|"):
                ck.fail("exchange-without-target", "%s activation with script '%s' sense results '%s' calls clf.exchange() after the frontend had lost its target"
                        % (kind, script, senses), {"kind": kind, "script": script, "senses": senses})
            elif res == "tag" and air.notarget:
                ck.fail("activation-returns-tag-without-target", "%s activation with script '%s' sense results '%s' returns a tag object although the tag was not found again"
                        % (kind, script, senses), {"kind": kind, "script": script, "senses": senses})

    ck.rule = ("cases = (simulated tag, operation, fault script, sense script); scripts: every exchange position of the fault-free run "
               "(all when short, first/last + sampled otherwise) x {timeout, transmission, protocol} lost before/after the tag "
               "executed the command x burst 1..4, unknown CommunicationError classes, cut Type 3 answers, pairs and triples of faults at "
               "different positions, random mixed scripts; a failing clf.sense() where an operation re-activates the tag; sessions of 2-3 "
               "operations on one tag object (first one with a persisting error of each class at first/last/sampled positions, the next one "
               "with a transient fault); histories (op1 fault-free, op2 with a burst at command k, op3 on a healthy link) on one tag "
               "object: FeliCa Lite / Lite-S over {ndef, has_changed, authenticate right/wrong key, presence, service read, dump} x the "
               "same x {+ write, service write, format, protect} - quick: every position x class x burst 1/3 for op2 = authenticate, "
               "sampled otherwise; thorough: every (op1, op2 != dump, position, class, lost command/answer, burst 1..4, op3) - compared "
               "with the object model state by state, format+wipe / protect with password in any place judged by the oracle; "
               "other classes: sampled (op1, op2, position, class, op3) through the session comparison; "
               "non-trivial = the script contains at least one fault or a failing sense")
    ck.assumptions += [
        "which commands an operation needs (TLV walk, block lists, APDU sequence) is taken from the fault-free run of the real code on the simulated tag (for sessions: from the fault-free run with and without a cached NDEF object); that logic is the subject of C01-C03/C08/C12",
        "the simulated tags answer a delivered command deterministically (same command, same kind of answer; FeliCa Lite-S write with MAC: accepted once)",
        "ISO-DEP: single-block commands without S(WTX); chaining and waiting time extension are covered by C12",
        "a persisting protocol error on ISO-DEP and any error of the unacknowledged second SECTOR SELECT frame are final by design (not retried)",
        "a second SECTOR SELECT frame that is lost while the reader sees the timeout it takes for the acknowledge leaves tag and tag object in different sectors (inherent in the Type 2 Tag protocol): such runs are judged by the oracle only, wrong data / a write into the other sector are not counted against the code",
        "FeliCa Lite / Lite-S histories: the command sequences of every operation in the two accessor states (without MAC / after a successful authenticate) are taken from fault-free runs; which of them an operation uses is decided by the model's own object state",
        "sessions are compared with the model up to the first operation whose command sequence depends on tag content that an earlier operation of the session may have changed; the oracle judges all of them",
    ]
    ck.trusted += ["harness/sims/retry_sims.py (tag simulators, fault-injecting frontend)", "lean/Drv/C16.lean (line protocol)"]
