"""C16 - tag commands retry transient errors and fail only as TagCommandError.

L1: theorems of NfcVerif.Props.C16 about the executable model
    (Model/Retry.lean): the retry primitives of Type 1/2/3/4 tags and every
    public tag operation as a command program over them.
L2: every public operation (ndef read, ndef write, presence check, format,
    format+wipe, protect, protect with password, authenticate, dump) of 15
    simulated tags (generic Type 1/2/3/4 and the Topaz, Ultralight,
    Ultralight C, NTAG203, NTAG21x, FeliCa Standard, FeliCa Lite classes) is
    run on the REAL code behind a fault-injecting frontend (sims/retry_sims.py)
    and on the Lean model with the same fault script; outcome class, the
    complete exchange log (which command, how often, which attempt was
    answered) and the write commands executed by the tag are compared.
L3: the property stated on the real runs alone: outcome is a documented
    value or a TagCommandError whose general reason code matches the last
    failure; per primitive call at most the budgeted number of exchanges and
    nothing after the answered one; a burst within the budget is invisible
    (same result and same tag memory as the fault-free run).
"""
import contextlib
import io
import logging

from common import Model, exc_name

logging.disable(logging.CRITICAL)

LEAN_TARGETS = ["NfcVerif.Props.C16", "drv_c16", "NfcVerif.Props.TablesTag"]

THEOREMS = [
    "NfcVerif.C16.transceive_bounded",
    "NfcVerif.C16.transceive_errno",
    "NfcVerif.C16.isodep_bounded",
    "NfcVerif.C16.isodep_errno",
    "NfcVerif.C16.op_outcome_documented",
    "NfcVerif.C16.op_outcome_documented_partial",
    "NfcVerif.C16.t3_format_documented",
    "NfcVerif.C16.write_not_duplicated",
    "NfcVerif.C16.unknown_commerror_counterexample",
    "NfcVerif.C16.presence_check_not_retried",
    "NfcVerif.C16.lost_answer_write_twice",
]

OPS = ["ndef", "write", "present", "format", "formatw", "protect", "protectpw", "auth", "dump"]
DOCUMENTED = {"ndef": {"ndef", "none"}, "write": {"unit"}, "present": {"true", "false"},
              "format": {"true", "false", "none"}, "formatw": {"true", "false", "none"},
              "protect": {"true", "false", "none"}, "protectpw": {"true", "false", "none"},
              "auth": {"true", "false", "none"}, "dump": {"list"}}
FOOTER = {"ulc": 4, "ntag203": 2, "ntag213": 5}
PASSWORD = b"0123456789abcdef"
NEWDATA = b"\xd1\x01\x03\x54\x02\x65\x6e"
BIGDATA = bytes((5 * i + 3) & 255 for i in range(600))      # Type 4: UPDATE BINARY commands of two ISO-DEP blocks
L3ONLY = {"t4chain"}      # chained ISO-DEP commands: oracle only, the block protocol model is C12's
_big = [False]

_current = [None]
_hooked = [False]


def hook_errors():
    """record every TagCommandError construction in the log of the running frontend"""
    import nfc.tag
    if _hooked[0]:
        return
    orig = nfc.tag.TagCommandError.__init__

    def init(self, errno):
        orig(self, errno)
        air = _current[0]
        if air is not None:
            air.log.append(("!", errno))
    nfc.tag.TagCommandError.__init__ = init
    _hooked[0] = True


def family(kind):
    return {"t2": "t2", "t2big": "t2", "ul": "t2", "ulc": "t2", "ntag203": "t2", "ntag213": "t2",
            "t3": "t3", "t3std": "t3", "lite": "t3", "t1s": "t1", "t1d": "t1", "topaz": "t1",
            "topaz512": "t1", "t4": "t4", "t4slow": "t4", "t4chain": "t4"}[kind]


def instrument(kind, air, tag):
    """mark the calls of the retry primitive"""
    fam = family(kind)
    if fam in ("t1", "t2"):
        orig = tag.transceive

        def wrapped(*a, **kw):
            air.mark()
            return orig(*a, **kw)
        tag.transceive = wrapped
    elif fam == "t3":
        orig = tag.send_cmd_recv_rsp

        def wrapped(*a, **kw):
            air.mark()
            return orig(*a, **kw)
        tag.send_cmd_recv_rsp = wrapped
    else:
        orig = tag._dep.exchange

        def wrapped(*a, **kw):
            air.mark()
            return orig(*a, **kw)
        tag._dep.exchange = wrapped


def classify(r):
    import nfc.tag
    if r is None:
        return "none"
    if r is True:
        return "true"
    if r is False:
        return "false"
    if isinstance(r, list):
        return "list"
    if isinstance(r, nfc.tag.Tag.NDEF):
        return "ndef"
    return "unit" if r == "unit" else "other:" + type(r).__name__


def perform(tag, op):
    if op == "ndef":
        return tag.ndef
    if op == "write":
        tag.ndef.octets = BIGDATA if _big[0] else NEWDATA
        return "unit"
    if op == "present":
        return tag.is_present
    if op == "format":
        return tag.format(0x10) if type(tag).__name__ in ("Type3Tag", "FelicaStandard") else tag.format()
    if op == "formatw":
        return tag.format(0x10, 0x5A) if type(tag).__name__ in ("Type3Tag", "FelicaStandard") else tag.format(wipe=0x5A)
    if op == "protect":
        return tag.protect()
    if op == "protectpw":
        return tag.protect(PASSWORD)
    if op == "auth":
        return tag.authenticate(PASSWORD)
    if op == "dump":
        return tag.dump()
    raise ValueError(op)


TIMED = ["nfc.tag", "nfc.tag.tt1", "nfc.tag.tt2", "nfc.tag.tt3", "nfc.tag.tt4",
         "nfc.tag.tt1_broadcom", "nfc.tag.tt2_nxp", "nfc.tag.tt3_sony"]


@contextlib.contextmanager
def virtual_time(clock):
    """the tag modules see `clock` instead of the time module: elapsed-time dependent behaviour of
    the retry paths runs deterministically, a failed exchange costs its timeout"""
    import importlib
    saved = []
    for name in TIMED:
        mod = importlib.import_module(name)
        saved.append((mod, mod.__dict__.get("time", None), "time" in mod.__dict__))
        mod.time = clock
    try:
        yield clock
    finally:
        for mod, old, had in saved:
            if had:
                mod.time = old
            else:
                del mod.time


def execute(kind, op, script, prepare=None):
    """run one operation of a fresh tag under `script` -> dict"""
    from sims import retry_sims as rs
    with virtual_time(rs.Clock()) as clock:
        return _execute(kind, op, script, prepare, clock)


def _execute(kind, op, script, prepare, clock):
    from sims import retry_sims as rs
    hook_errors()
    sim, air, tag = rs.build(kind)
    air.clock = clock
    _big[0] = kind in L3ONLY
    if prepare:
        prepare(sim)
    instrument(kind, air, tag)
    if op == "write":
        _current[0] = None
        if tag.ndef is None:
            raise RuntimeError("simulated tag %s has no NDEF" % kind)
    air.arm(script)
    _current[0] = air
    import os
    urandom = os.urandom
    os.urandom = lambda n: bytes((7 * i + 1) & 255 for i in range(n))     # challenges of authenticate()
    try:
        with contextlib.redirect_stdout(io.StringIO()):
            out = "ok " + classify(perform(tag, op))
    except Exception as e:  # noqa
        out = "exc " + exc_name(e)
    finally:
        _current[0] = None
        os.urandom = urandom
    invs, cur = [], None
    raws, k = [], 0            # per primitive call: octets of the command, for the duplicate-write oracle
    for ev in air.log:
        if ev == "|":
            cur = []
            invs.append(cur)
            raws.append(None)
        elif ev[0] == "!":
            if cur is not None:
                cur.append(ev)
        else:
            if cur is None:          # exchange outside of every primitive call
                cur = []
                invs.append(cur)
                raws.append(None)
            cur.append(ev)
            raws[-1] = air.raw[k]
            k += 1
    nret = tag._dep.n_retry_nak if family(kind) == "t4" else 0
    mem = bytes(sim.mem) if hasattr(sim, "mem") else (
        b"".join(bytes(sim.blocks[k]) for k in sorted(sim.blocks)) if hasattr(sim, "blocks") else bytes(sim.file))
    return {"out": out, "invs": invs, "invraw": raws, "n": sum(1 for e in air.log if e != "|" and e[0] != "!"),
            "applied": [a for a in sim.applied], "raw": list(air.raw), "mem": mem, "nret": nret, "sim": sim}


def show_log(invs):
    """exchange log; the R(NAK) frames of an ISO-DEP exchange are shown under the command they belong to"""
    out = []
    for inv in invs:
        ex = [e for e in inv if e[0] != "!"]
        if ex:
            out.append("|" + "".join(" %s.%s" % (ex[0][0], e[1]) for e in ex))
    return " ".join(out)


def applied_tokens(kind, r):
    """write commands executed by the simulated tag, as tokens"""
    fam = family(kind)
    out = []
    for a in r["applied"]:
        if fam == "t2":
            out.append("w%d" % (a[1] % 256))
        elif fam == "t1":
            out.append(("w" if a[0] == "w" else "W") + "?%d" % a[1])
        elif fam == "t3":
            out.append("w%d" % a[1][0] + ("x%d" % len(a[1]) if len(a[1]) > 1 else ""))
        else:
            out.append("up%d" % a[1])
    return out


def steps_of(r):
    """fault-free run -> [(token, ans)] per primitive call; ans '+', '~', '-errno'"""
    steps = []
    for inv in r["invs"]:
        ex = [e for e in inv if e[0] != "!"]
        if not ex:
            continue
        errs = [e[1] for e in inv if e[0] == "!"]
        if all(e[1] == "m" for e in ex):
            ans = "~"
        elif errs:
            ans = "-%d" % errs[0]
        else:
            ans = "+"
        steps.append((ex[0][0], ans))
    return steps


def enc(phases):
    s = ";".join(",".join("%s:%s" % st for st in p) for p in phases)
    return s if s else "-"


class Plan(object):
    """model request of one (kind, op): family, op, phases, value, nret"""

    def __init__(self, kind, op):
        self.kind, self.op = kind, op
        base = execute(kind, op, "")
        self.base = base
        steps = steps_of(base)
        self.n = base["n"]
        self.value = base["out"][3:] if base["out"].startswith("ok ") else None
        self.t3format = None
        fam = family(kind)
        mop = "format" if op == "formatw" else op
        nndef = len(steps_of(execute(kind, "ndef", ""))) if op in ("format", "formatw", "protect", "dump") else 0
        ph = [steps]
        mfam = fam
        if not steps:
            mop = "noop"
        elif fam == "t2":
            if mop in ("format",):
                if kind in ("ntag203", "ntag213"):
                    mfam = "t2nxp"
                    blank = execute(kind, op, "", prepare=lambda sim: sim.mem.__setitem__(slice(12, 16), bytes(4)))
                    dw = [c for c in blank["raw"] if c[0] == 0xA2][:2]

                    def defaults(sim, dw=dw):
                        for c in dw:
                            sim.mem[c[1] * 4:c[1] * 4 + 4] = c[2:6]
                    n2 = len(steps_of(execute(kind, "ndef", "", prepare=defaults)))
                    again = steps_of(execute(kind, op, "", prepare=defaults))
                    ph = [steps[:nndef], steps[nndef:], [("w%d" % c[1], "+") for c in dw], again[:n2], again[n2:]]
                else:
                    ph = [steps[:nndef], steps[nndef:]]
            elif mop == "protect":
                if kind in ("ulc", "ntag203", "ntag213"):
                    mfam = "t2nxp"
                else:
                    ph = [steps[:nndef], steps[nndef:]]
            elif mop == "protectpw":
                if kind == "ulc":
                    mfam = "t2ulc"
                    i = [t for t, _ in steps].index("a1")
                    ph = [steps[:i], steps[i:i + 1], steps[i + 1:]]
                else:
                    mfam = "t2ntag"
                    i = [t for t, _ in steps].index("pw")
                    ph = [steps[:i], steps[i:]]
            elif mop == "auth":
                mfam = "t2ulc" if kind == "ulc" else "t2ntag"
                ph = [steps[:1], steps[1:]] if kind == "ulc" else [steps]
            elif mop == "dump":
                nf = FOOTER.get(kind, 0)
                ph = [steps[:4], steps[4:len(steps) - nf], steps[len(steps) - nf:]]
        elif fam == "t1":
            if mop == "ndef":
                ph = [steps[:1], steps[1:]]
            elif mop == "protect":
                ph = [steps[:1], steps[1:nndef], steps[nndef:]]
            elif mop == "dump":
                k = 2 if len(steps) > 1 and steps[1][0] == "R15" else 1
                ph = [steps[:1], steps[1:k], steps[k:]]
        elif fam == "t3":
            toks = [t for t, _ in steps]
            if mop == "ndef":
                k = 1 if toks[0] == "po" else 0
                ph = [steps[:k], steps[k:]]
            elif mop == "write":
                ph = [steps[:1], steps[1:]]
            elif mop == "present" and kind == "t3std":
                mfam = "t3std"
                ph = [steps, [("po", "+")]]
            elif mop == "dump":
                if kind == "t3std":
                    mfam = "t3std"
                    k = max(i for i, t in enumerate(toks) if t.startswith("ss")) + 1
                    ph = [steps[:1], steps[1:2], steps[2:k], steps[k:]]
                elif kind == "lite":
                    mfam = "lite"
                    ph = [steps[:14], steps[14:15], steps[15:]]
            elif mop == "format":
                if kind == "lite":
                    mfam = "lite"
                else:
                    sim = base["sim"]
                    self.t3format = (sim.nmaxb, sim.nbr, sim.nbw, 1 if op == "formatw" else 0)
            elif mop == "protect" and kind == "lite":
                mfam = "lite"
                i = toks.index("po")
                n3 = len(steps_of(execute(kind, "ndef", "")))
                ph = [steps[:i], steps[i:i + 1], steps[i + 1:i + n3], steps[i + n3:i + n3 + 2], steps[i + n3 + 2:]]
            elif mop == "protectpw" and kind == "lite":
                mfam, mop = "lite", "protect"
                i = toks.index("po")
                n3 = len(steps_of(execute(kind, "ndef", "")))
                ph = [steps[:i], steps[i:i + 1], steps[i + 1:i + n3], steps[i + n3:i + n3 + 2], steps[i + n3 + 2:]]
            elif mop == "auth":
                mfam = "lite"
        elif fam == "t4":
            if mop in ("format", "dump"):
                ph = [steps[:nndef], steps[nndef:]]
        self.mfam, self.mop, self.phases = mfam, mop, ph

    def request(self, cfg, script):
        if self.t3format:
            return "t3format %s %d %d %d %d %s" % ((cfg,) + self.t3format + (script or "-",))
        return "run %s %s %s %s %d %s %s" % (cfg, self.mfam, self.mop, self.value or "none", self.base["nret"],
                                             script or "-", enc(self.phases))


def probe_cfg():
    """which of the repairable defects are repaired in the tree under test"""
    def bit(kind, op, script, bad):
        return "0" if execute(kind, op, script)["out"] == "exc " + bad else "1"
    return (bit("t3", "write", "ttt", "TypeError") + bit("t3", "present", "ooo", "UnboundLocalError")
            + bit("t3", "present", "0", "IndexError") + bit("t2big", "write", "ax", "AssertionError")
            + bit("t4", "ndef", "o", "BrokenLinkError")
            # not a C16 repair: does tt1.read_tlv swallow the command error behind the first TLV byte (fixes/C08)
            + bit("t1d", "ndef", "attt", "TagCommandError(0)"))


NOSTATUS = {"rr", "sc", "ss0", "ss1", "ss2", "ss3"}
BUDGET = 3


def scripts_for(ck, plan, rng):
    """fault scripts of one operation: position x kind x burst (all positions when short, sampled otherwise)"""
    n = plan.n
    fam = family(plan.kind)
    if n == 0:
        return [""]
    limit = (40 if ck.thorough else 7)
    if n <= limit:
        pos = list(range(n))
    else:
        pos = sorted(set([0, 1, n - 2, n - 1] + rng.sample(range(n), limit - 4)))
    letters = list("txpTXP") + ["o", "c"]
    out = [""]
    toks = [e[0] for inv in plan.base["invs"] for e in inv if e[0] != "!"]
    digits = "0123" if fam == "t3" and not any(t in NOSTATUS for t in toks) else ""
    for p in pos:
        for l in letters:
            for b in (1, 2, 3, 4):
                if l in "oc" and b not in (1, 3) and not ck.thorough:
                    continue
                if l in "TXP" and b in (2, 4) and not ck.thorough:
                    continue
                out.append("a" * p + l * b)
        # two bursts within the budget, two answered exchanges apart (same or neighbouring primitive call /
        # ISO-DEP block): the retry budget is per call and per block
        out += ["a" * p + "ttaatt", "a" * p + "xTaaXt", "a" * p + "taat"]
        if fam == "t3":
            # cut answers; commands without status flags (request response / system code, search service)
            # parse the remainder themselves (C08), only the header cuts are injected there
            for l in ("01" if toks[p] in NOSTATUS else "0123"):
                out.append("a" * p + l)
    # trains of short bursts (each within the budget, separated by answers): all of them must be absorbed
    for _ in range(40 if ck.thorough else 10):
        sc, at = "", 0
        for _ in range(rng.randrange(2, 6)):
            gap = rng.randrange(2, max(3, min(n, 12)))
            sc += "a" * gap + "".join(rng.choice("txTX") for _ in range(rng.randrange(1, 3)))
        out.append(sc[2:] if rng.random() < 0.3 else sc)
    # mixed and scattered scripts
    for _ in range(30 if ck.thorough else 6):
        ln = rng.randrange(1, min(n + 6, 40))
        out.append("".join(rng.choice("aaaaatxpTXP" + (digits if rng.random() < 0.2 else "")
                                      + ("oc" if rng.random() < 0.15 else "")) for _ in range(ln)))
    return out


def finding_key(kind, op, name, script, invs):
    fam = family(kind)
    toks = [e[0] for inv in invs for e in inv if e[0] != "!"]
    if name == "RuntimeError" and fam in ("t1", "t2") and any(c in script for c in "ocOC"):
        return "t1t2-unknown-commerror-runtimeerror"
    if name == "UnboundLocalError" and fam == "t3" and any(c in script for c in "ocOC"):
        return "t3-unknown-commerror-unbound"
    if name in ("IndexError", "struct.error") and fam == "t3" and any(c in script for c in "0123"):
        return "t3-short-response-internal"
    if name == "TypeError" and fam == "t3" and op == "write":
        return "t3-write-after-failed-attribute-read"
    if name == "AssertionError" and fam == "t2" and "s2" in toks:
        return "t2-sector-select-assert"
    if name in ("BrokenLinkError", "CommunicationError") and fam == "t4":
        return "t4-unknown-commerror-raw"
    return "%s-%s-raises-%s" % (fam, op, name)


CLASS_ERRNO = {"t": 0, "T": 0, "m": 0, "x": -1, "X": -1, "p": -2, "P": -2}


def oracle(ck, plan, script, r):
    """the property on one real run"""
    kind, op = plan.kind, plan.op
    fam = family(kind)
    replay = {"kind": kind, "op": op, "script": script, "outcome": r["out"], "log": show_log(r["invs"])}
    what = "%s %s under fault script '%s': " % (kind, op, script)
    out = r["out"]
    if out.startswith("exc "):
        name = out[4:]
        if not name.startswith("TagCommandError("):
            ck.fail(finding_key(kind, op, name, script, r["invs"]), what + "raises " + name, replay)
        else:
            errno = int(name[16:-1])
            last = [e for inv in r["invs"] for e in inv if e[0] != "!"]
            if errno <= 0 and last:
                want = CLASS_ERRNO.get(last[-1][1])
                if want is None and fam in ("t3", "t4") and last[-1][1] in "ocOC":
                    want = -1          # repaired tt3/tt4: unknown class reported as RECEIVE_ERROR
                if want != errno:
                    ck.fail("reason-code-mismatch", what + "TagCommandError(%d) after last attempt '%s'" % (errno, last[-1][1]), replay)
    else:
        if out[3:] not in DOCUMENTED[op]:
            ck.fail("undocumented-result", what + "returns " + out[3:], replay)
    for inv in ([] if kind in L3ONLY else r["invs"]):
        ex = [e for e in inv if e[0] != "!"]
        if not ex:
            continue
        if fam == "t4":
            bound = 1 if op == "present" else r["nret"] + 2
        else:
            bound = 1 if ex[0][0] == "s2" else BUDGET
        if len(ex) > bound:
            ck.fail("retry-budget-exceeded", what + "%d exchanges in one call of the primitive (%s)" % (len(ex), ex[0][0]), replay)
        answered = [i for i, e in enumerate(ex) if e[1] in "a0123"]
        if fam == "t4":
            # R(NAK) answered by R(ACK) is followed by the retransmission of the I-block; the I-block itself is final
            answered = [i for i in answered if ex[i][0] != "nak"]
        if answered and answered[0] != len(ex) - 1:
            ck.fail("command-resent-after-answer", what + "%s sent again after it was answered" % ex[0][0], replay)
        if len({e[0] for e in ex if e[0] not in ("nak",)}) > 1:
            ck.fail("primitive-mixed-commands", what + "one primitive call sent different commands %s" % ex, replay)
    # a state-changing command that was answered is not sent again by the next call of the primitive
    prev = None
    for inv, raw in ([] if kind in L3ONLY else zip(r["invs"], r["invraw"])):
        ex = [e for e in inv if e[0] != "!"]
        if not ex:
            continue
        tok = ex[0][0]
        if prev is not None and prev == raw and (tok[0] in "wW" or tok.startswith("up")):
            ck.fail("write-repeated-after-answer", what + "write command %s was answered and is sent again" % tok, replay)
        prev = raw if ex[-1][1] == "a" and not any(e[0] == "!" for e in inv) else None
    # a train of bursts, each within the budget and separated by two answers, is invisible
    import re
    runs = re.findall(r"[^a]+", script)
    base_toks = [e[0] for inv in plan.base["invs"] for e in inv if e[0] != "!"]
    lim = min(2, r["nret"]) if fam == "t4" else 2
    if (len(runs) >= 2 and set(script) <= set("atxTX") and all(len(x) <= lim for x in runs)
            and not re.search(r"[^a]a[^a]", script) and "s2" not in base_toks and not (fam == "t4" and op == "present")):
        if out != plan.base["out"] or r["mem"] != plan.base["mem"]:
            ck.fail("transient-error-not-absorbed", what + "bursts within the retry budget change the result to %s (fault-free: %s)"
                    % (out, plan.base["out"]), replay)
    # a burst within the budget is invisible
    body = script.lstrip("a")
    absorb = min(2, r["nret"]) if fam == "t4" and op != "present" else 2
    if body and len(body) <= absorb and len(set(body)) == 1 and body[0] in "txpTXP" and len(script) - len(body) < plan.n:
        target = None
        idx = 0
        for inv in plan.base["invs"]:
            for e in inv:
                if e[0] != "!":
                    if idx == len(script) - len(body):
                        target = e[0]
                    idx += 1
        by_design = target == "s2" or (fam == "t4" and body[0] in "pP")
        if not by_design and (out != plan.base["out"] or r["mem"] != plan.base["mem"]):
            key = "t4-presence-check-not-retried" if (fam == "t4" and op == "present") else "transient-error-not-absorbed"
            ck.fail(key, what + "a burst of %d at command %s changes the result to %s (fault-free: %s)"
                    % (len(body), target, out, plan.base["out"]), replay)


def run(ck):
    ck.tables("TablesTag")   # T-tie for constants: source tables re-extracted, bridge theorems re-proved
    ck.lean("NfcVerif.Props.C16", THEOREMS)
    model = Model("drv_c16")
    from sims import retry_sims as rs
    rng = ck.rng
    cfg = probe_cfg()
    ck.notes.append("tree under test: F17 %s, F31(Type 3) %s, F32 %s, sector-select assert %s, ISO-DEP unknown CommunicationError %s"
                    % tuple("repaired" if b == "1" else "as found" for b in cfg[:5]))
    ck.notes.append("tt1.read_tlv catches the command error for %s" % ("the whole TLV (C08 repair)" if cfg[5] == "1" else "the first TLV byte only"))
    reqs, reals, meta = [], [], []
    for kind in rs.KINDS:
        for op in OPS:
            plan = Plan(kind, op)
            if plan.n == 0:
                # no command is sent: only the result class is checked
                if plan.value not in DOCUMENTED[op]:
                    ck.fail("undocumented-result", "%s %s returns %s" % (kind, op, plan.base["out"]), {"kind": kind, "op": op})
                ck.case((kind, op, ""), False, "noop:" + family(kind))
                continue
            for script in scripts_for(ck, plan, rng):
                r = execute(kind, op, script)
                oracle(ck, plan, script, r)
                if kind in L3ONLY:
                    ck.case((kind, op, script), bool(script.strip("a")), "oracle-only:%s:%s" % (kind, op))
                    continue
                reqs.append(plan.request(cfg, script))
                reals.append("%s # %s # %s" % (r["out"], show_log(r["invs"]), ",".join(applied_tokens(kind, r)) or "-"))
                meta.append((kind, op, script))
    replies = model.ask_many(reqs)
    bad = 0
    for (kind, op, script), req, real, rep in zip(meta, reqs, reals, replies):
        fam = family(kind)
        if fam == "t1":
            # Type 1 write tokens of the model carry the address, the simulator logs (kind, address)
            rep_c = rep
            real_c = real.replace("w?", "we").replace("W?", "We")
            rp, rl = rep_c.rsplit(" # ", 1), real_c.rsplit(" # ", 1)
            norm = lambda s: ",".join(t.replace("wn", "we").replace("Wn", "We") for t in s.split(","))
            same = rp[0] == rl[0] and norm(rp[1]) == norm(rl[1])
        else:
            same = rep == real
        body = script.lstrip("a")
        nontrivial = bool(body)
        ck.case((kind, op, script), nontrivial, "%s:%s" % (fam, op),
                sample={"kind": kind, "op": op, "script": script, "real": real[:160]})
        if not same:
            bad += 1
            ck.fail("tie:retry-model", "%s %s script '%s': real %s | model %s" % (kind, op, script, real[:300], rep[:300]),
                    {"kind": kind, "op": op, "script": script, "request": req, "real": real, "model": rep})
    ck.tie("retry-model", len(reqs), bad, exhaustive=False)

    # activation under faults (tag/__init__.py:444-461): a tag object or None, never an exception
    import nfc.tag
    for kind in rs.KINDS:
        sim0, air0, tag0 = rs.build(kind)
        n = len(air0.raw)
        for p in range(n):
            for l in "txpoc":
                for b in (1, 2):
                    sim = type(sim0).__new__(type(sim0))
                    sim.__dict__.update({k: (bytearray(v) if isinstance(v, bytearray) else v) for k, v in sim0.__dict__.items()})
                    air = rs.Air(sim)
                    air.arm("a" * p + l * b)
                    try:
                        with virtual_time(air.clock):
                            t = nfc.tag.activate(air, sim.target)
                        res = "tag" if isinstance(t, nfc.tag.Tag) else classify(t)
                    except Exception as e:  # noqa
                        res = "exc " + exc_name(e)
                    ck.case(("activate", kind, p, l, b), True, "activate:" + family(kind))
                    if res not in ("tag", "none"):
                        ck.fail("activation-raises", "%s activation with script '%s': %s" % (kind, "a" * p + l * b, res),
                                {"kind": kind, "script": "a" * p + l * b})

    ck.rule = ("cases = (simulated tag, operation, fault script); scripts: every exchange position of the fault-free run "
               "(all when short, first/last + sampled otherwise) x {timeout, transmission, protocol} lost before/after the tag "
               "executed the command x burst 1..4, unknown CommunicationError classes, cut Type 3 answers, random mixed scripts; "
               "non-trivial = the script contains at least one fault")
    ck.assumptions += [
        "which commands an operation needs (TLV walk, block lists, APDU sequence) is taken from the fault-free run of the real code on the simulated tag; that logic is the subject of C01-C03/C08/C12",
        "the simulated tags answer a delivered command deterministically (same command, same kind of answer)",
        "ISO-DEP: single-block commands without S(WTX); chaining and waiting time extension are covered by C12",
        "a persisting protocol error on ISO-DEP and any error of the unacknowledged second SECTOR SELECT frame are final by design (not retried)",
    ]
    ck.trusted += ["harness/sims/retry_sims.py (tag simulators, fault-injecting frontend)", "lean/Drv/C16.lean (line protocol)"]
