"""C13 - drivers report RF and host-link failures only as documented errors.

L1: theorems of NfcVerif.Props.C13 about the executable model
    NfcVerif.Model.ErrMap (transcription of Chipset.command / send_command,
    the chipset functions of an exchange, send_cmd_recv_rsp /
    send_rsp_recv_cmd of pn53x, rcs380, udp and ContactlessFrontend.exchange):
    whatever the host link does at every host command and whatever status the
    chip reports, the caller sees data, TimeoutError, TransmissionError,
    BrokenLinkError or IOError.
L2: EXHAUSTIVE (thorough tier) single-fault correspondence: for every driver,
    direction, target kind, host command of the exchange, phase of the host
    command (write, ack, response) and every fault of the finite fault
    catalogue (errno values, every truncation and single-octet corruption of
    the frame, all 256 values of each status octet, all 8192 combinations of
    the RC-S380 communication status bits, datagram shapes for UDP) the REAL
    driver behind a scripted transport (sims/chip_transport.py) is run through
    ContactlessFrontend.exchange and compared with the model.
L3: the same runs are judged directly: the outcome must be data or one of the
    documented exception classes, plus the specific clauses (status 0x01 ->
    TimeoutError, RF off -> BrokenLinkError, host timeout at the RF command ->
    TimeoutError, other host faults -> IOError).
"""
import errno
import logging
import os
import struct

from common import Model, hx, exc_name

logging.disable(logging.CRITICAL)

LEAN_TARGETS = ["NfcVerif.Props.C13", "drv_c13", "NfcVerif.Props.TablesFrame"]
PARTS = ["tty"]   # props/c13_tty.py: the real serial transport (TTY.read/write) under Chipset.command and exchange()

THEOREMS = [
    "NfcVerif.C13.host_command_documented",
    "NfcVerif.C13.driver_outcome_documented_partial",
    "NfcVerif.C13.short_payload_counterexample",
    "NfcVerif.C13.fifo_single_register_counterexample",
    "NfcVerif.C13.driver_outcome_documented_rcs380_partial",
    "NfcVerif.C13.rcs380_short_frame_counterexample",
    "NfcVerif.C13.asfound_chipset_error_counterexample",
    "NfcVerif.C13.asfound_status_error_counterexample",
    "NfcVerif.C13.asfound_udp_counterexample",
    "NfcVerif.C13.initiator_status_clauses",
    "NfcVerif.C13.initiator_host_fault_clauses",
    "NfcVerif.C13.target_status_clauses",
    "NfcVerif.C13.target_rf_off_tt3",
    "NfcVerif.C13.rcs380_status_clauses",
    "NfcVerif.C13.udp_clauses",
    "NfcVerif.C13.frontend_exchange_passthrough",
]

DOCUMENTED = ("TimeoutError", "TransmissionError", "BrokenLinkError", "ProtocolError")

PN = ("pn531", "pn532", "pn533", "rcs956", "acr122", "arygonA", "arygonB")
I_ALL = ["t1", "t2", "t3", "t4a", "t4b", "depA", "depF", "depX"]
I_531 = ["t2", "t3", "t4a", "depA", "depF", "depX"]
T_ALL = ["tt2", "tt3", "tt4", "dep"]
KINDS = {
    "pn531": (I_531, T_ALL), "arygonA": (I_531, T_ALL),
    "pn532": (I_ALL, T_ALL), "arygonB": (I_ALL, T_ALL), "pn533": (I_ALL, T_ALL),
    "rcs956": (I_ALL, ["dep"]),
    "acr122": (["t2", "t3", "t4a", "t4b", "depA", "depF", "depX"], []),
    "rcs380": (I_ALL, T_ALL),
    "udp": (["t2", "t3", "t4a", "depF"], T_ALL),
}
ERRNOS = (errno.ETIMEDOUT, errno.EIO, errno.ENODEV, errno.EPIPE, errno.EACCES)


def name_of(e):
    import nfc.clf.pn53x
    import nfc.clf.rcs380
    if isinstance(e, nfc.clf.pn53x.Chipset.Error):
        return "Chipset.Error(%d)" % e.errno
    if isinstance(e, nfc.clf.rcs380.StatusError):
        return "rcs380.StatusError"
    if isinstance(e, nfc.clf.rcs380.CommunicationError):
        return "rcs380.CommunicationError"
    return exc_name(e)


def crc_a(data):
    reg = 0x6363
    for octet in data:
        for pos in range(8):
            bit = (reg ^ ((octet >> pos) & 1)) & 1
            reg >>= 1
            if bit:
                reg ^= 0x8408
    return bytes([reg & 255, reg >> 8])


class Rig(object):
    """one real driver object behind a scripted transport + a real ContactlessFrontend"""

    def __init__(self, name, clock):
        import nfc.clf
        import nfc.clf.pn531, nfc.clf.pn532, nfc.clf.pn533, nfc.clf.rcs956, nfc.clf.acr122, nfc.clf.arygon
        import nfc.clf.rcs380, nfc.clf.udp
        from sims import chip_transport as T
        log = logging.getLogger("verif.c13")
        self.name = name
        table = {
            "pn531": (nfc.clf.pn531.Chipset, nfc.clf.pn531.Device, "pn531", b""),
            "pn532": (nfc.clf.pn532.Chipset, nfc.clf.pn532.Device, "pn532", b""),
            "pn533": (nfc.clf.pn533.Chipset, nfc.clf.pn533.Device, "pn533", b""),
            "rcs956": (nfc.clf.rcs956.Chipset, nfc.clf.rcs956.Device, "rcs956", b""),
            "arygonA": (nfc.clf.arygon.ChipsetA, nfc.clf.arygon.DeviceA, "pn531", b"2"),
            "arygonB": (nfc.clf.arygon.ChipsetB, nfc.clf.arygon.DeviceB, "pn532", b"2"),
        }
        if name in table:
            ccls, dcls, fam, prefix = table[name]
            self.tr = T.Pn53x(fam, prefix)
            chip = object.__new__(ccls)
            chip.transport, chip.log = self.tr, log
            dev = object.__new__(dcls)
            dev.chipset, dev.log = chip, log
        elif name == "acr122":
            self.tr = T.Acr122()
            chip = object.__new__(nfc.clf.acr122.Chipset)
            chip.transport, chip.log = self.tr, log
            dev = object.__new__(nfc.clf.acr122.Device)
            dev.chipset, dev.log = chip, log
        elif name == "rcs380":
            self.tr = T.Rcs380()
            chip = object.__new__(nfc.clf.rcs380.Chipset)
            chip.transport, chip.log = self.tr, log
            dev = object.__new__(nfc.clf.rcs380.Device)
            dev.chipset, dev.log = chip, log
        else:
            self.tr = T.FakeSocket()
            dev = object.__new__(nfc.clf.udp.Device)
            dev.socket = self.tr
            dev.addr = ("127.0.0.1", 54321)
            dev.sent_data = dev.rcvd_data = 0
        self.dev = dev
        self.clf = nfc.clf.ContactlessFrontend()
        self.clf.device = dev
        self.clock = clock

    def target(self, d, kind):
        import nfc.clf
        R, L = nfc.clf.RemoteTarget, nfc.clf.LocalTarget
        ba = bytearray
        atr_res = ba.fromhex("D501 01FE0102030405060708 0000000832 46666D010110")
        atr_req = ba.fromhex("D400 01FE0102030405060708 00000032 46666D010110")
        if d == "i":
            t = {
                "t1": lambda: R("106A", sens_res=ba(b"\x00\x0c"), rid_res=ba.fromhex("110001020304")),
                "t2": lambda: R("106A", sens_res=ba(b"\x44\x00"), sel_res=ba(b"\x00"), sdd_res=ba.fromhex("04010203040506")),
                "t3": lambda: R("212F", sensf_res=ba.fromhex("01 0102030405060708 0F0E0D0C0B0A0908 12FC")),
                "t4a": lambda: R("106A", sens_res=ba(b"\x04\x03"), sel_res=ba(b"\x20"), sdd_res=ba.fromhex("08010203")),
                "t4b": lambda: R("106B", sensb_res=ba.fromhex("50 01020304 05060708 008171")),
                "depA": lambda: R("106A", sens_res=ba(b"\x04\x03"), sel_res=ba(b"\x40"), sdd_res=ba.fromhex("08010203"),
                                  atr_res=atr_res, atr_req=atr_req),
                "depF": lambda: R("424F", sensf_res=ba.fromhex("01 01FE030405060708 0F0E0D0C0B0A0908")),
                "depX": lambda: R("424F", atr_res=atr_res, atr_req=atr_req),
            }[kind]()
            if kind == "depF":
                t.atr_res, t.atr_req = atr_res, atr_req
        else:
            t = {
                "tt2": lambda: L("106A", tt2_cmd=ba.fromhex("3000")),
                "tt3": lambda: L("212F", tt3_cmd=ba.fromhex("0600010203040506070801090001800000")),
                "tt4": lambda: L("106A", tt4_cmd=ba.fromhex("00A4040007D276000085010100")),
                "dep": lambda: L("424F", dep_req=ba.fromhex("D406000000")),
            }[kind]()
        t._addr = ("127.0.0.1", 54321)
        return t

    @staticmethod
    def payloads(d, kind):
        """(data passed to exchange, what the remote side answers)"""
        if d == "i":
            send = {"t1": "0108000102030400", "t2": "3004", "t3": "0A060102030405060708",
                    "t4a": "0200A4040007D276000085010100", "t4b": "0200A4040007D276000085010100",
                    "depA": "06D406000000", "depF": "06D406000000", "depX": "06D406000000"}[kind]
            rf = {"t1": "0811", "t2": None, "t3": "0C0701020304050607080000",
                  "t4a": "029000", "t4b": "029000",
                  "depA": "06D507000000", "depF": "06D507000000", "depX": "06D507000000"}[kind]
            if rf is None:
                blk = bytes(range(0x10, 0x20))
                rf = blk + crc_a(blk)
            else:
                rf = bytes.fromhex(rf)
            return bytearray.fromhex(send), rf
        send = {"tt2": "000102030405060708090A0B0C0D0E0F", "tt3": "0C0701020304050607080000",
                "tt4": "9000", "dep": "06D507000000"}[kind]
        rf = {"tt2": "3004", "tt3": "0A060102030405060708",
              "tt4": "00B0000010", "dep": "06D406010000"}[kind]
        return bytearray.fromhex(send), bytes.fromhex(rf)

    def run(self, d, kind, has_data, site=None, fault=None):
        """one exchange through ContactlessFrontend.exchange; returns (outcome line, host log, fault reached)"""
        send, rf = self.payloads(d, kind)
        tr = self.tr
        tr.arm(site, fault)
        if self.name == "udp":
            brty = self.brty(d, kind)
            tr.datagram = brty + b" " + rf.hex().encode()
        else:
            tr.rf_data = rf
            if self.name in PN and kind == "tt3":
                tr.fifo = rf
        self.clock.now = 1000.0
        self.clf.target = self.target(d, kind)
        data = send if has_data else (bytearray() if self.name != "udp" else None)
        try:
            r = self.clf.exchange(data, 0.1)
            out = "ok none" if r is None else "ok " + hx(r)
            if r is not None and not isinstance(r, (bytes, bytearray)):
                out = "ok <%s>" % type(r).__name__
        except Exception as e:  # noqa
            out = "exc " + name_of(e)
        return out, list(getattr(tr, "log", [])), tr.hit

    @staticmethod
    def brty(d, kind):
        return {"t1": b"106A", "t2": b"106A", "t3": b"212F", "t4a": b"106A", "t4b": b"106B", "depA": b"106A",
                "depF": b"424F", "depX": b"424F", "tt2": b"106A", "tt3": b"212F", "tt4": b"106A", "dep": b"424F"}[kind]


def frame_faults(nominal, ackframe, thorough, rng):
    """short and garbled variants of a frame: (label, bytes)"""
    out = []
    n = len(nominal)
    ks = list(range(n))
    if not thorough and n > 10:
        ks = sorted(set([0, 1, 2, 3, 4, 5, 6, n - 2, n - 1] + rng.sample(range(n), 4)))
    for k in ks:
        out.append(("short", nominal[:k]))
    pos = list(range(n))
    if not thorough and n > 10:
        pos = sorted(set([0, 2, 3, 4, 5, 6, n - 2, n - 1] + rng.sample(range(n), 3)))
    for i in pos:
        for x in (0x01, 0x80):
            m = bytearray(nominal)
            m[i] ^= x
            out.append(("garbled", bytes(m)))
    out.append(("garbled", nominal + b"\x00"))
    out.append(("garbled", b"\x00" + nominal))
    out.append(("garbled", bytes(rng.randrange(256) for _ in range(max(n, 1)))))
    out.append(("garbled", bytes.fromhex("0000FF01FF7F8100")))     # PN53x syntax error frame
    out.append(("garbled", bytes.fromhex("0000FFFF0000")))         # NACK
    out.append(("garbled", bytes.fromhex("0000FFFFFF")))           # RC-S380 error frame
    if ackframe is not None:
        out.append(("garbled", ackframe))                           # a second ACK instead of the response
    return out


def ack_faults(ackframe, thorough):
    out = [("short", ackframe[:k]) for k in range(len(ackframe))]
    for i in range(len(ackframe)):
        for x in (0x01, 0x80):
            m = bytearray(ackframe)
            m[i] ^= x
            out.append(("garbled", bytes(m)))
    out.append(("garbled", bytes.fromhex("0000FFFF0000")))
    out.append(("garbled", bytes.fromhex("0000FF01FF7F8100")))
    out.append(("garbled", bytes.fromhex("0000FFFFFF")))
    out.append(("garbled", ackframe + b"\x00"))
    return out


def rcs_status_words():
    """all combinations of the 13 status bits 0..11 and 31"""
    for lo in range(256):
        for mid in range(16):
            for hi in (0, 0x80):
                yield bytes([lo, mid, 0, hi])


def judge(name, d, kind, step_is_rf, phase, fault, out):
    """L3: the outcome of one faulty exchange judged against the property text; returns (key, what) or None"""
    if out.startswith("ok"):
        if name in PN and kind == "tt3" and fault[0] == "payload" and step_is_rf == "poll":
            p = bytes(fault[1])
            if (len(p) == 2 or (len(p) == 3 and p[0] == 0)) and p[-1] & 1:
                return ("rf-off-wrong-class", "CIU_DivIRq %02x (external field off) gave %s, expected BrokenLinkError" % (p[-1], out))
        if out == "ok none" and d == "i":
            return ("%s-host-garbage-returns-none" % name, "initiator exchange returned None instead of data or an error")
        if out.startswith("ok <"):
            return ("exchange-returns-non-bytes", "exchange returned %s" % out)
        return None
    cls = out[4:]
    if cls.startswith("Chipset.Error"):
        return ("pn53x-chipset-error-escapes", "Chipset.Error left exchange(): %s" % cls)
    if cls == "rcs380.StatusError":
        return ("rcs380-status-error-escapes", "rcs380 StatusError left exchange()")
    if cls == "rcs380.CommunicationError":
        return ("rcs380-communication-error-escapes", "rcs380 CommunicationError left exchange()")
    if cls in DOCUMENTED or cls.startswith("IOError("):
        # specific clauses
        if fault[0] == "payload" and step_is_rf in (True, "incomm") and len(fault[1]) > 0:
            p = bytes(fault[1])
            want = None
            if name in PN and d == "i":
                st = p[0] & 0x3F if kind == "t1" else p[0]
                want = None if st == 0 else ("TimeoutError" if st == 1 else "TransmissionError")
            elif name in PN and d == "t":
                want = None if p[0] == 0 else ("BrokenLinkError" if p[0] in (0x0A, 0x29, 0x31) else "TransmissionError")
            elif name == "rcs380" and len(p) >= 7 and (d == "t" or step_is_rf == "incomm"):
                word = struct.unpack("<L", p[3:7] if d == "t" else p[0:4])[0]
                if word:
                    want = "BrokenLinkError" if (d == "t" and word & 0x400) else ("TimeoutError" if word & 0x80 else "TransmissionError")
            if want is not None and cls != want:
                return ("status-wrong-class", "status in payload %s gave %s, expected %s" % (p.hex(), cls, want))
        if name == "udp" and fault[0] == "frame" and bytes(fault[1]).startswith(b"RFOFF") and cls != "BrokenLinkError":
            return ("rf-off-wrong-class", "RFOFF datagram gave %s, expected BrokenLinkError" % cls)
        if name == "udp" and fault[0] == "silent" and cls != "TimeoutError":
            return ("host-fault-wrong-class", "silent peer gave %s, expected TimeoutError" % cls)
        if name in PN and kind == "tt3" and fault[0] == "payload" and step_is_rf == "poll":
            p = bytes(fault[1])
            if len(p) == 3 and p[0] != 0:
                p = b""
            if len(p) >= 2 and p[-1] & 1 and cls != "BrokenLinkError":
                return ("rf-off-wrong-class", "CIU_DivIRq %02x (external field off) gave %s, expected BrokenLinkError" % (p[-1], cls))
        if fault[0] == "errno" and name in PN and step_is_rf is True and (phase == "rsp" or name == "acr122"):
            want = "TimeoutError" if fault[1] == errno.ETIMEDOUT else "IOError(%d)" % fault[1]
            if cls != want:
                return ("host-fault-wrong-class", "host errno %d at the RF command gave %s, expected %s" % (fault[1], cls, want))
        elif fault[0] == "errno" and name != "udp":
            if not cls.startswith("IOError("):
                return ("host-fault-wrong-class", "host errno %d gave %s, expected IOError" % (fault[1], cls))
        if fault[0] == "frame" and name in PN and name != "acr122" and not cls.startswith("IOError(") and \
                bytes(fault[1]) not in (bytes.fromhex("0000FF01FF7F8100"), bytes.fromhex("0000FF00FF00")):
            return ("host-fault-wrong-class", "bad host frame gave %s, expected IOError" % cls)
        return None
    if name == "udp":
        return ("udp-bad-datagram-internal-error", "datagram made exchange() raise %s" % cls)
    if name == "rcs380":
        return ("rcs380-host-frame-internal-error", "host frame made exchange() raise %s" % cls)
    return ("driver-internal-error-escapes", "exchange() raised %s" % cls)


def run(ck):
    ck.tables("TablesFrame")   # T-tie for constants: source tables re-extracted, bridge theorems re-proved
    import nfc.clf
    import nfc.clf.pn53x
    import nfc.clf.udp
    from sims import chip_transport as T
    rng = ck.rng
    clock = T.Clock()
    nfc.clf.pn53x.time = clock
    nfc.clf.udp.time = clock
    nfc.clf.udp.select = T.FakeSelect(clock)

    ck.rule = ("case = (driver, direction, target kind, data/no data, host command index, phase write|ack|rsp, fault); "
               "faults: 5 errno values, every truncation and single-octet corruption (2 masks) of the ACK / response "
               "frame plus foreign frames, every value 0..255 of each of the first 3 payload octets (status octets), all "
               "8192 RC-S380 status words, UDP datagram shapes; non-trivial = the fault site was reached and the fault "
               "differs from the nominal behaviour; thorough tier enumerates the whole catalogue, quick tier samples")
    ck.assumptions += [
        "single fault per exchange in the correspondence runs (the theorems quantify over arbitrary behaviour at every host command)",
        "the simulated chipsets answer as the vendor manuals say; a response still unread when the next command is "
        "written is discarded (no stale frames)",
        "exchange timeout is a positive number; the differential run keeps the payload length of well-formed responses "
        "(hypothesis PayloadOK of the _partial theorem; shorter payloads are probed by the oracle: open findings "
        "pn53x-short-payload-internal-error, pn53x-fifo-level-internal-error)",
        "Type 1 Tag commands outside the chipset's own set (READ8/WRITE8/RSEG on PN532/PN533) are driven through CIU "
        "registers and are not in the model",
        "IOError raised by the cancel ACK written after a host timeout is not modelled",
    ]
    ck.trusted += ["hand-written Lean model NfcVerif.Model.ErrMap (imports Model.HostFrame, Model.Crc), tied by the exhaustive differential run",
                   "harness/sims/chip_transport.py (scripted transports with nominal chipsets), harness/props/c13.py"]
    ck.lean("NfcVerif.Props.C13", THEOREMS)
    if ck.thorough:
        ck.leanchecker(["NfcVerif.Props.C13"])
    model = Model("drv_c13")
    variant = os.environ.get("C13_VARIANT", "r")   # "a": compare with the as-found model (development aid)

    reqs = []      # (request line, real outcome, descr, oracle verdict)
    nominal_dis = 0
    keep = 1.0 if ck.thorough else 0.12

    for name in KINDS:
        rig = Rig(name, clock)
        for d, kinds in (("i", KINDS[name][0]), ("t", KINDS[name][1])):
            for kind in kinds:
                for has_data in ((True,) if d == "i" else (True, False)):
                    hd = "1" if has_data else "0"
                    brty = hx(Rig.brty(d, kind))
                    out0, log0, _ = rig.run(d, kind, has_data)
                    # nominal: must be data, and the host command sequence must be the model's step list
                    codes = [c for c, _ in log0]
                    if name == "udp":
                        nsteps, noms = 2, [b"", rig.payloads(d, kind)[1]]
                        first = 0 if has_data else 1
                    else:
                        nsteps, first = len(codes), 0
                        noms = [rig.tr.respond(c, a) for c, a in log0]
                        rep = model.ask("steps %s %s %s %s" % (name, d, kind, hd))
                        want = "ok " + ",".join(str(c) for c in codes)
                        ck.case(("steps", name, d, kind, hd), True, "steps")
                        if rep != want:
                            nominal_dis += 1
                            ck.fail("tie:c13-step-sequence", "%s %s %s: driver issues %s, model %s" % (name, d, kind, want, rep),
                                    {"driver": name, "dir": d, "kind": kind, "impl": want, "model": rep})
                    nomtxt = ",".join(hx(p) for p in noms)
                    # host commands inside the try of the exchange function (RF commands)
                    rf_steps = [nsteps - 1] if d == "i" else ([] if (name in PN and kind == "tt3") else list(range(nsteps)))
                    line = "x %s %s %s %s %s %s 0 none %s" % (variant, name, d, kind, hd, brty, nomtxt)
                    reqs.append((line, out0, (name, d, kind, hd, "nominal"), None if out0.startswith("ok ") and out0 != "ok none"
                                 else ("nominal-exchange-fails", "fault-free exchange gave %s" % out0)))
                    ck.case((name, d, kind, hd, "nominal"), False, "nominal")

                    for step in range(first, nsteps):
                        faults = []    # (phase, fault tuple, model token, bucket)
                        if name == "udp":
                            if step == 0:
                                for e in ERRNOS:
                                    faults.append(("write", ("errno", e), "w:e:%d" % e, "errno"))
                                faults.append(("write", ("short", 3), "w:short", "short-write"))
                            else:
                                faults.append(("ack", ("silent",), "a:silent", "silent"))
                                for e in ERRNOS:
                                    faults.append(("rsp", ("errno", e), "r:e:%d" % e, "errno"))
                                good = rig.tr.datagram if hasattr(rig.tr, "datagram") else b""
                                b = Rig.brty(d, kind)
                                h = noms[1].hex().encode()
                                dgs = [b"RFOFF", b"RFOFF 00", b"", b" ", b, b + b" ", b + b" " + h + b" 00", b + h,
                                       b + b" zz", b + b" " + h[:-1], b + b" " + h.upper(), b + b"\t" + h + b"\n",
                                       b"848X " + h, b"\xff\xfe " + h, b + b" " + h + b"\xff", b + b"  " + h, b"rfoff",
                                       b + b" 0g", b + b"\x0b" + h, b + b"\x1c" + h, b + b"\xa0" + h, b + b" -"]
                                for k in range(len(good)):
                                    dgs.append(good[:k])
                                for i in range(len(good)):
                                    for x in (0x01, 0x80, 0x20):
                                        m = bytearray(good)
                                        m[i] ^= x
                                        dgs.append(bytes(m))
                                for dg in dgs:
                                    faults.append(("rsp", ("frame", dg), "r:f:" + hx(dg), "datagram"))
                        else:
                            code, arg = log0[step] if step < len(log0) else (0, b"")
                            nominal = rig.tr.wrap(code, noms[step])
                            ackf = None if name == "acr122" else T.ACK
                            for e in ERRNOS:
                                faults.append(("write", ("errno", e), "w:e:%d" % e, "errno"))
                                faults.append(("rsp", ("errno", e), "r:e:%d" % e, "errno"))
                                if ackf is not None:
                                    faults.append(("ack", ("errno", e), "a:e:%d" % e, "errno"))
                            for lab, f in frame_faults(nominal, ackf, ck.thorough, rng):
                                faults.append(("rsp", ("frame", f), "r:f:" + hx(f), lab))
                            if ackf is not None:
                                for lab, f in ack_faults(ackf, ck.thorough):
                                    faults.append(("ack", ("frame", f), "a:f:" + hx(f), lab))
                            # status octets
                            nom = noms[step]
                            js = list(range(min(len(nom), 3)))
                            if name in PN and kind == "tt3" and step == 3:      # CIU_FIFOLevel value decides the next command
                                js = [0] if rig.tr.family == "pn533" else []
                            if name == "rcs380":
                                js = list(range(min(len(nom), 4))) if code == 0x04 else (
                                    list(range(min(len(nom), 7))) if code == 0x48 else js)
                            for j in js:
                                for s in range(256):
                                    p = bytearray(nom)
                                    p[j] = s
                                    faults.append(("rsp", ("payload", bytes(p)), "r:p:" + hx(p),
                                                   "status0" if j == 0 and step in rf_steps else "status"))
                            if name == "rcs380" and code in (0x04, 0x48):
                                off = 0 if code == 0x04 else 3
                                for wbytes in rcs_status_words():
                                    p = bytearray(nom)
                                    p[off:off + 4] = wbytes
                                    faults.append(("rsp", ("payload", bytes(p)), "r:p:" + hx(p), "status-word"))
                        for phase, fault, tok, bucket in faults:
                            if keep < 1.0 and bucket not in ("errno", "status0") and rng.random() > keep:
                                continue
                            out, _, hit = rig.run(d, kind, has_data, (step, phase), fault)
                            line = "x %s %s %s %s %s %s %d %s %s" % (variant, name, d, kind, hd, brty, step, tok, nomtxt)
                            verdict = judge(name, d, kind, (("incomm" if name == "rcs380" and d == "i" else True) if step in rf_steps else
                                                            ("poll" if name in PN and kind == "tt3" and step == 1 else False)), phase, fault, out) if hit else \
                                ("fault-site-not-reached", "step %d/%s of %s %s %s was never executed" % (step, phase, name, d, kind))
                            reqs.append((line, out, (name, d, kind, hd, step, phase, tok), verdict))
                            ck.case((name, d, kind, hd, step, phase, tok), hit and out != out0, "%s:%s" % (name, bucket),
                                    sample={"request": line, "impl": out} if len(ck.samples) < 3 and bucket.startswith("status") and out.startswith("exc") else None)

    # ------------------------------------------------------------- payload length probes (L3 only)
    # well-formed response frames whose payload is shorter than the manual says (excluded by PayloadOK)
    for name in PN:
        rig = Rig(name, clock)
        one = b"\x00\x05" if rig.tr.family == "pn533" else b"\x05"
        probes = [("i", "t4a", (3, "rsp"), b"", "InCommunicateThru response without status octet"),
                  ("i", "t4a", (0, "rsp"), b"", "ReadRegister response without values"),
                  ("i", "t4a", (0, "rsp"), one, "ReadRegister response with one value for three registers")]
        if KINDS[name][1]:
            probes.append(("t", "dep", (1, "rsp"), b"", "TgGetInitiatorCommand response without status octet"))
        for d, kind, site, payload, what in probes:
            out, _, hit = rig.run(d, kind, True, site, ("payload", payload))
            ck.case(("short-payload", name, d, kind, site, payload), True, "short-payload")
            cls = out[4:] if out.startswith("exc ") else ""
            if not (out.startswith("ok ") or cls in DOCUMENTED or cls.startswith("IOError(")):
                ck.fail("pn53x-short-payload-internal-error", "%s %s: exchange() raised %s" % (name, what, cls),
                        {"driver": name, "dir": d, "kind": kind, "site": list(site), "payload": hx(payload), "impl": out})
        if "tt3" in KINDS[name][1]:
            send, rf = rig.payloads("t", "tt3")
            for fifo, what in ((b"", "FIFO level 0 with the receive interrupt set"), (b"\x00", "FIFO level 1, octet 00"),
                               (b"\x03", "FIFO level 1, octet 03")):
                rig.tr.arm()
                rig.tr.fifo = fifo
                rig.clock.now = 1000.0
                rig.clf.target = rig.target("t", "tt3")
                try:
                    r = rig.clf.exchange(send, 0.1)
                    out = "ok none" if r is None else "ok " + hx(r)
                except Exception as e:  # noqa
                    out = "exc " + name_of(e)
                ck.case(("fifo-level", name, fifo), True, "short-payload")
                cls = out[4:] if out.startswith("exc ") else ""
                if not (out.startswith("ok ") or cls in DOCUMENTED or cls.startswith("IOError(")):
                    ck.fail("pn53x-fifo-level-internal-error", "%s Type 3 Tag target, %s: exchange() raised %s" % (name, what, cls),
                            {"driver": name, "fifo": hx(fifo), "impl": out})

    # ------------------------------------------------------------- frontend itself
    front = []
    clf = nfc.clf.ContactlessFrontend()
    for o, t in (("0", "r"), ("0", "l"), ("0", "n"), ("1", "n"), ("1", "r"), ("1", "l")):
        class Dev(object):
            def send_cmd_recv_rsp(self, target, data, timeout):
                return bytearray(b"\x01")

            def send_rsp_recv_cmd(self, target, data, timeout):
                return bytearray(b"\x02")
        clf.device = Dev() if o == "1" else None
        clf.target = {"r": nfc.clf.RemoteTarget("106A"), "l": nfc.clf.LocalTarget("106A"), "n": None}[t]
        try:
            r = clf.exchange(b"\x00", 0.1)
            out = "ok none" if r is None else "ok " + hx(r)
        except Exception as e:  # noqa
            out = "exc " + name_of(e)
        front.append(("front %s %s" % (o, t), out))
        ck.case(("front", o, t), True, "frontend")
    # every exception class a driver may raise passes the frontend unchanged
    for exc in (nfc.clf.TimeoutError("x"), nfc.clf.TransmissionError("x"), nfc.clf.BrokenLinkError("x"),
                nfc.clf.ProtocolError("x"), IOError(5, "x"), IOError(19, "x"), IndexError("x")):
        class Dev2(object):
            def send_cmd_recv_rsp(self, target, data, timeout, exc=exc):
                raise exc
        clf.device, clf.target = Dev2(), nfc.clf.RemoteTarget("106A")
        try:
            clf.exchange(b"\x00", 0.1)
            got = None
        except Exception as e:  # noqa
            got = e
        ck.case(("front-pass", name_of(exc)), True, "frontend")
        if got is not exc:
            ck.fail("frontend-changes-exception", "exchange() turned %r into %r" % (exc, got), {"raised": name_of(exc)})

    # ------------------------------------------------------------- compare with the model, judge
    replies = model.ask_many([r[0] for r in reqs] + [f[0] for f in front])
    dis = 0
    for (line, real, descr, verdict), rep in zip(reqs, replies):
        if rep != real:
            dis += 1
            ck.fail("tie:c13-model-vs-driver", "model %r, implementation %r" % (rep, real),
                    {"request": line, "model": rep, "impl": real, "case": descr})
        if verdict is not None:
            ck.fail(verdict[0], "%s %s" % (descr, verdict[1]), {"request": line, "impl": real, "case": descr})
    for (line, real), rep in zip(front, replies[len(reqs):]):
        if rep != real:
            dis += 1
            ck.fail("tie:c13-frontend", "model %r, implementation %r" % (rep, real), {"request": line, "model": rep, "impl": real})
    ck.tie("errmap model vs drivers (single fault at every host command)", cases=len(reqs) + len(front),
           disagreements=dis + nominal_dis, exhaustive=ck.thorough)
    ck.notes.append("fault catalogue %s" % ("enumerated completely" if ck.thorough else
                    "sampled (%.0f %% of the frame/status faults; all errno faults and all 256 status values of the RF commands)" % (keep * 100)))
